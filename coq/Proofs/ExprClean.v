(* Proofs.ExprClean — C02_partial: on the arithmetic fragment (every tree of + - * / % over variables,
   the target included, any parenthesisation) and for all six assignment forms, the whole pipeline
   (render, tokens_to_tokens, expression_to_tree, search_for_output_in_tree, tree_to_operations,
   optimize_const, lowering) followed by MC.Sem execution stores `target <form> value-of-e`, computed
   from the scores BEFORE the statement, in the target, changes no other user variable, fires no tag. *)
From Coq Require Import ZArith String List Bool Lia Ascii.
From JMCV Require Import Base.Int32 Base.Dec MC.Syntax MC.Sem MC.Facts Model.Names Model.VarOp Proofs.VarOp
     Model.Expr Model.ExprSpec Model.ExprFront Model.ExprBack
     Proofs.ExprLower Proofs.ExprParse Proofs.ExprOps Proofs.ExprOpt.
Import ListNotations.
Open Scope Z_scope.

Fixpoint evars (nm : names) (e : expr) : list score :=
  match e with
  | EVar v => [score_of nm v]
  | EConst _ => []
  | ENeg e | EPar e => evars nm e
  | EBin _ a b => evars nm a ++ evars nm b
  end.

(* ------------------------------------------------------------------ strings: temp names are injective *)
Lemma append_length (a b : string) : String.length (a ++ b) = (String.length a + String.length b)%nat.
Proof. induction a as [|c a IH]; cbn; [reflexivity|now rewrite IH]. Qed.

Lemma append_inv_tail (s : string) : forall a b : string, (a ++ s)%string = (b ++ s)%string -> a = b.
Proof.
  induction a as [|c a IH]; intros b H; destruct b as [|d b]; cbn in H.
  - reflexivity.
  - apply (f_equal String.length) in H. cbn in H. rewrite append_length in H. lia.
  - apply (f_equal String.length) in H. cbn in H. rewrite append_length in H. lia.
  - injection H as -> H. f_equal. now apply IH.
Qed.

Lemma temp_score_inj nm a b : temp_score nm a = temp_score nm b -> a = b.
Proof.
  unfold temp_score. intros H. injection H as H. cbn in H.
  repeat match type of H with String _ _ = String _ _ => injection H as H end.
  apply append_inv_tail in H. apply z_dec_inj in H. lia.
Qed.

(* ------------------------------------------------------------------ trees of arithmetic expressions *)
Lemma gtree_not_const t : gtree t = true -> is_const t = false.
Proof. destruct t; cbn; congruence. Qed.

Lemma op_sem_comm o a b : is_reflective o = true -> op_sem o a b = op_sem o b a.
Proof. destruct o; cbn; try discriminate; intros _; f_equal; lia. Qed.

Lemma mk_expr_gtree o l r :
  arith_opc o = true -> gtree l = true -> gtree r = true ->
  gtree (mk_expr o l r) = true /\
  (forall f, teval f (mk_expr o l r) = op_sem o (teval f l) (teval f r)) /\
  (forall s, In s (tvars (mk_expr o l r)) -> In s (tvars l) \/ In s (tvars r)) /\
  is_expr (mk_expr o l r) = true.
Proof.
  intros Ho Hl Hr. unfold mk_expr. rewrite (gtree_not_const l Hl), andb_false_r. cbn [andb].
  assert (Hoo : opc_eqb o o = true) by (destruct o; reflexivity).
  destruct (is_reflective o && negb (is_expr l) && is_expr r) eqn:E1.
  - apply andb_true_iff in E1. destruct E1 as [E1 _]. apply andb_true_iff in E1. destruct E1 as [Erf _].
    repeat split.
    + cbn [gtree]. now rewrite Hoo, Ho, Hr, Hl.
    + intros f. cbn [teval]. now apply op_sem_comm.
    + intros s Hs. cbn [tvars] in Hs. apply in_app_or in Hs. tauto.
  - destruct (opc_eqb o PSub && is_expr l && is_expr r) eqn:E2.
    + apply andb_true_iff in E2. destruct E2 as [E2 Er]. apply andb_true_iff in E2. destruct E2 as [Eo El].
      assert (o = PSub) as -> by (destruct o; try discriminate; reflexivity).
      repeat split.
      * cbn [gtree opc_eqb arith_opc andb]. rewrite Hr, Hl, Er. reflexivity.
      * intros f. cbn [teval op_sem]. wsimp.
      * intros s Hs. cbn [tvars] in Hs. rewrite app_nil_r in Hs. apply in_app_or in Hs. tauto.
    + repeat split.
      * cbn [gtree]. now rewrite Hoo, Ho, Hl, Hr.
      * intros s Hs. cbn [tvars] in Hs. apply in_app_or in Hs. tauto.
Qed.

Lemma binop_op_sem o a b v : arith_op o = true -> binop_sem o a b = Some v -> op_sem (opc_of o) a b = v.
Proof.
  intros Ho H. destruct o; cbn in *; try discriminate Ho.
  - now injection H.
  - now injection H.
  - now injection H.
  - destruct (b =? 0); [discriminate|now injection H].
  - destruct (b =? 0); [discriminate|now injection H].
Qed.

Lemma arith_op_opc o : arith_op o = true -> arith_opc (opc_of o) = true.
Proof. destruct o; cbn; congruence. Qed.

Lemma arith_tree nm e : arith e = true ->
  gtree (tree_of nm e) = true /\
  (forall s, In s (tvars (tree_of nm e)) -> In s (evars nm e)) /\
  (forall f v, eval nm f e = Some v -> teval f (tree_of nm e) = v).
Proof.
  induction e as [v|z|e IH|e IH|o a IHa b IHb]; cbn [arith]; try discriminate.
  - intros _. repeat split.
    + intros s Hs. exact Hs.
    + intros f x Hx. cbn in Hx. injection Hx as <-. reflexivity.
  - intros H. exact (IH H).
  - intros H. apply andb_true_iff in H. destruct H as [H Hb]. apply andb_true_iff in H. destruct H as [Ho Ha].
    destruct (IHa Ha) as (Ga & Va & Ea). destruct (IHb Hb) as (Gb & Vb & Eb).
    cbn [tree_of evars].
    destruct (mk_expr_gtree (opc_of o) _ _ (arith_op_opc o Ho) Ga Gb) as (G & T & V & _).
    repeat split.
    + exact G.
    + intros s Hs. apply in_or_app. destruct (V s Hs); [left; now apply Va|right; now apply Vb].
    + intros f v H. cbn [eval] in H. destruct (eval nm f a) as [x|] eqn:Ex; [|discriminate].
      destruct (eval nm f b) as [y|] eqn:Ey; [|discriminate].
      rewrite T, (Ea f x Ex), (Eb f y Ey). now apply binop_op_sem.
Qed.

(* ------------------------------------------------------------------ search_for_output_in_tree *)
Lemma spine_is_expr out t : spine out t = true -> is_expr t = true.
Proof. destruct t; cbn; congruence. Qed.

Lemma cnum_count out r : cnum r = true -> count_out out r = O.
Proof. destruct r; cbn; congruence. Qed.

Lemma swap_path_spine out t :
  gtree t = true -> count_out out t = 1%nat -> forall t', swap_path out t = Some t' ->
  ((t = NVar out /\ t' = NVar out) \/ spine out t' = true) /\
  (forall f, teval f t' = teval f t) /\
  (forall s, In s (tvars t') -> In s (tvars t)).
Proof.
  induction t as [z|s|i|c o l IHl r IHr]; cbn [gtree]; try discriminate.
  - intros _ Hc t' [= <-]. cbn [count_out] in Hc.
    destruct (score_eqb_spec s out) as [E|]; [subst s|discriminate].
    split; [left; split; reflexivity|]. split; [reflexivity|auto].
  - intros Hg Hc t' Hsw.
    apply andb_true_iff in Hg. destruct Hg as [Hg Hgr]. apply andb_true_iff in Hg. destruct Hg as [Hg Hgl].
    apply andb_true_iff in Hg. destruct Hg as [Hco Har].
    cbn [count_out] in Hc. cbn [swap_path] in Hsw.
    destruct (Nat.ltb 0 (count_out out l)) eqn:El.
    + apply Nat.ltb_lt in El. assert (Hcl : count_out out l = 1%nat) by lia. assert (Hcr : count_out out r = O) by lia.
      destruct (swap_path out l) as [l'|] eqn:Esl; [|discriminate]. injection Hsw as <-.
      destruct (IHl Hgl Hcl l' eq_refl) as (Hsp & Hte & Htv).
      split; [right|split].
      * cbn [spine]. rewrite Hco, Har, Hcr. cbn [Nat.eqb andb]. rewrite andb_true_r.
        destruct Hsp as [[-> ->]|Hsp].
        -- rewrite score_eqb_refl. cbn [andb]. cbn [is_expr andb orb] in Hgr. now rewrite orb_false_r in Hgr.
        -- pose proof (spine_is_expr out l' Hsp) as Hex. destruct l'; try discriminate.
           rewrite Hsp. cbn [andb].
           destruct (gtree r); [reflexivity|]. cbn [orb] in Hgr |- *. now apply andb_true_iff in Hgr.
      * intros f. cbn [teval]. now rewrite Hte.
      * intros s Hs. cbn [tvars] in *. apply in_app_or in Hs. apply in_or_app. destruct Hs; [left; now apply Htv|now right].
    + apply Nat.ltb_ge in El. assert (Hcl : count_out out l = O) by lia. assert (Hcr : count_out out r = 1%nat) by lia.
      destruct (is_reflective o) eqn:Erf; [|discriminate].
      destruct (swap_path out r) as [r'|] eqn:Esr; [|discriminate]. injection Hsw as <-.
      assert (Gr : gtree r = true).
      { destruct (gtree r); [reflexivity|]. cbn [orb] in Hgr. apply andb_true_iff in Hgr. destruct Hgr as [_ Hk].
        rewrite (cnum_count out r Hk) in Hcr. discriminate. }
      destruct (IHr Gr Hcr r' eq_refl) as (Hsp & Hte & Htv).
      split; [right|split].
      * cbn [spine]. rewrite Hco, Har, Hcl. cbn [Nat.eqb andb]. rewrite andb_true_r.
        destruct Hsp as [[-> ->]|Hsp].
        -- rewrite score_eqb_refl. cbn [andb]. exact Hgl.
        -- pose proof (spine_is_expr out r' Hsp) as Hex. destruct r'; try discriminate.
           rewrite Hsp, Hgl. reflexivity.
      * intros f. cbn [teval]. rewrite Hte. now apply op_sem_comm.
      * intros s Hs. cbn [tvars] in *. apply in_app_or in Hs. apply in_or_app. destruct Hs; [right; now apply Htv|now left].
Qed.

(* ------------------------------------------------------------------ tree_to_operations at the top *)
Definition st0 : tstate := mkT [] O [] None.
Lemma Inv_st0 : Inv st0.
Proof. split; [constructor|intros k []]. Qed.

Lemma rename_ops_shape nm out inj ov l :
  forallb op_shape l = true ->
  rename_ops nm out inj ov l = (Ok (map (ren_op (rename_temp nm out inj ov)) l), []).
Proof.
  induction l as [|[[v o] n] r IH]; cbn [forallb rename_ops map]; [reflexivity|].
  intros H. apply andb_true_iff in H. destruct H as [H Hr]. unfold op_shape in H. cbn [fst snd] in H.
  apply andb_true_iff in H. destruct H as [H _]. apply andb_true_iff in H. destruct H as [Hv Hn].
  destruct v; try discriminate. cbn [rename_var]. rewrite bind_ret_l.
  destruct n; try discriminate; cbn [rename_num]; rewrite bind_ret_l, (IH Hr), bind_ok_nil; reflexivity.
Qed.

(* what the final theorem needs to know about an operation list *)
Definition good_ops (nm : names) (out : score) (ops : list oper2) : Prop :=
  (forall x, In x ops -> o_op x <> PPow) /\ consts32 ops /\
  (forall x, In x ops -> o_var x = out \/ exists n, o_var x = temp_score nm n).

Lemma rename_temp_cases nm out inj ov k :
  rename_temp nm out inj ov k = out \/ exists n, rename_temp nm out inj ov k = temp_score nm n.
Proof. unfold rename_temp. destruct (inj && Nat.eqb k ov); [now left|right; eauto]. Qed.

Lemma good_ren nm out inj ov l :
  forallb op_shape l = true -> good_ops nm out (map (ren_op (rename_temp nm out inj ov)) l).
Proof.
  intros H. assert (Hx : forall x, In x l -> op_shape x = true) by (apply forallb_forall; exact H).
  split; [|split]; intros y Hy; apply in_map_iff in Hy; destruct Hy as ([[v o] n] & <- & Hin);
    specialize (Hx _ Hin); unfold op_shape in Hx; cbn [fst snd] in Hx;
    apply andb_true_iff in Hx; destruct Hx as [Hx Ho]; apply andb_true_iff in Hx; destruct Hx as [Hv Hn].
  - unfold ren_op, o_op. cbn [fst snd]. intros ->. discriminate.
  - unfold const32, ren_op, o_num. cbn [fst snd]. destruct n; cbn [ren_num]; try exact I.
    + now apply in_int32b_spec.
    + discriminate.
  - destruct v; try discriminate. unfold ren_op, o_var. cbn [fst snd ren_var]. apply rename_temp_cases.
Qed.

Lemma good_app nm out a b : good_ops nm out a -> good_ops nm out b -> good_ops nm out (a ++ b).
Proof.
  intros (A1 & A2 & A3) (B1 & B2 & B3). split; [|split].
  - intros x Hx. apply in_app_or in Hx. destruct Hx; auto.
  - apply consts32_app. now split.
  - intros x Hx. apply in_app_or in Hx. destruct Hx; auto.
Qed.

Lemma tto_unfold nm c o l r out form :
  tree_to_operations nm (NExpr c o l r) out form =
  (let '(cj, t1) := if opc_eqb form PEmpty then search_for_output (NExpr c o l r) out else (false, NExpr c o l r) in
   '(_, st) <- tto out cj t1 true st0 ;;
   match t_out st with
   | None => crash "AssertionError"
   | Some ov =>
       ops2 <- rename_ops nm out cj ov (rev (t_ops st)) ;;
       ret (ops2 ++ (if cj then [] else [(out, form, CVar (rename_temp nm out cj ov ov))]))
   end).
Proof. reflexivity. Qed.

Lemma tto_tail nm out form cj t1 res st' new ov :
  tto out cj t1 true st0 = (Ok (res, st'), []) -> t_ops st' = rev new ++ t_ops st0 -> t_out st' = Some ov ->
  forallb op_shape new = true ->
  ('(_, st) <- tto out cj t1 true st0 ;;
   match t_out st with
   | None => crash "AssertionError"
   | Some ov =>
       ops2 <- rename_ops nm out cj ov (rev (t_ops st)) ;;
       ret (ops2 ++ (if cj then [] else [(out, form, CVar (rename_temp nm out cj ov ov))]))
   end) =
  (Ok (map (ren_op (rename_temp nm out cj ov)) new ++
       (if cj then [] else [(out, form, CVar (rename_temp nm out cj ov ov))])), []).
Proof.
  intros E O Out Sh. rewrite E, bind_ok_nil. rewrite Out, O. cbn [st0 t_ops]. rewrite app_nil_r, rev_involutive.
  rewrite (rename_ops_shape nm out cj ov new Sh), bind_ok_nil. reflexivity.
Qed.

Definition tops_post (nm : names) (out : score) (form : opc) (tree : num) (ops : list oper2) : Prop :=
  good_ops nm out ops /\
  (forall f, interp_ops ops f out = op_sem form (f out) (teval f tree)) /\
  (forall f s, s <> out -> (forall n, s <> temp_score nm n) -> interp_ops ops f s = f s).

Section Top.
  Variable nm : names.
  Variable out : score.
  Hypothesis Hout : forall n, out <> temp_score nm n.

  (* renaming without injection: every temporary is a __tempN__ score *)
  Lemma rho_plain ov vars :
    (forall s n, In s vars -> s <> temp_score nm n) -> rho_ok (rename_temp nm out false ov) vars.
  Proof.
    intros Hv. split.
    - intros k k' Hk Hk' H. unfold rename_temp in H. cbn [andb] in H. apply temp_score_inj in H. lia.
    - intros s k Hs _. unfold rename_temp. cbn [andb]. now apply Hv.
  Qed.

  (* the general path: the value of the tree goes to a temporary, then `out <form>= temporary` *)
  Lemma top_plain form c o l r t1 :
    form <> PPow -> gtree t1 = true ->
    (forall f, teval f t1 = teval f (NExpr c o l r)) ->
    (forall s, In s (tvars t1) -> In s (tvars (NExpr c o l r))) ->
    is_expr t1 = true ->
    (forall s n, In s (tvars (NExpr c o l r)) -> s <> temp_score nm n) ->
    exists ops,
      ('(_, st) <- tto out false t1 true st0 ;;
       match t_out st with
       | None => crash "AssertionError"
       | Some ov =>
           ops2 <- rename_ops nm out false ov (rev (t_ops st)) ;;
           ret (ops2 ++ [(out, form, CVar (rename_temp nm out false ov ov))])
       end) = (Ok ops, []) /\ tops_post nm out form (NExpr c o l r) ops.
  Proof.
    intros Hform Hg Hte Htv Hex Hvars.
    destruct (tto_general out false t1 Hg (or_introl eq_refl) true st0 Inv_st0)
      as (res & st' & new & E & O & I & M & F & R & S & Sh).
    destruct t1 as [| | |c1 o1 l1 r1]; try discriminate.
    cbn [res_post] in R. destruct R as (ov & -> & Aov & Omax & _ & Out).
    set (rho := rename_temp nm out false ov).
    exists (map (ren_op rho) new ++ [(out, form, CVar (rho ov))]).
    split; [exact (tto_tail nm out form false _ _ _ new ov E O Out Sh)|].
    assert (Hrho : rho_ok rho (tvars (NExpr c1 o1 l1 r1))).
    { apply rho_plain. intros s n Hs. apply Hvars. now apply Htv. }
    assert (Htemp : forall k, exists n, rho k = temp_score nm n) by (intros k; unfold rho, rename_temp; cbn [andb]; eauto).
    split; [|split].
    - apply good_app; [now apply good_ren|].
      split; [|split].
      + intros x [<-|[]]. exact Hform.
      + intros x [<-|[]]. exact Logic.I.
      + intros x [<-|[]]. now left.
    - intros f. destruct (S rho f Hrho) as [Fr Vl].
      rewrite interp_snoc1, interp_one_same'. cbn [numval]. cbn [ren_num numval] in Vl. rewrite Vl, Hte. f_equal.
      apply Fr. intros k _ _. destruct (Htemp k) as [n ->]. apply Hout.
    - intros f s Hs Hn. destruct (S rho f Hrho) as [Fr _].
      rewrite interp_snoc1, interp_one_other by (cbn; congruence).
      apply Fr. intros k _ _. destruct (Htemp k) as [n ->]. apply Hn.
  Qed.

  (* the renaming used when the result is injected into the target *)
  Lemma rho_inject_inj ov : (1 <= ov)%nat ->
    forall k k', (1 <= k)%nat -> (1 <= k')%nat ->
      rename_temp nm out true ov k = rename_temp nm out true ov k' -> k = k'.
  Proof.
    intros Hov k k' Hk Hk'. unfold rename_temp. cbn [andb].
    destruct (Nat.eqb_spec k ov) as [->|Nk], (Nat.eqb_spec k' ov) as [->|Nk']; intros H.
    - reflexivity.
    - exfalso. now apply (Hout _ H).
    - exfalso. symmetry in H. now apply (Hout _ H).
    - apply temp_score_inj in H.
      destruct (Nat.ltb_spec ov k), (Nat.ltb_spec ov k'); lia.
  Qed.

  Theorem tto_top form tree :
    gtree tree = true -> form <> PPow ->
    (forall s n, In s (tvars tree) -> s <> temp_score nm n) ->
    exists ops, tree_to_operations nm tree out form = (Ok ops, []) /\ tops_post nm out form tree ops.
  Proof.
    intros Hg Hform Hvars.
    destruct tree as [z|s|i|c o l r]; try discriminate.
    - (* a single variable *)
      exists [(out, form, CVar s)]. split; [reflexivity|]. split; [|split].
      + split; [|split].
        * intros x [<-|[]]. exact Hform.
        * intros x [<-|[]]. exact I.
        * intros x [<-|[]]. now left.
      + intros f. cbn [interp_ops fold_left]. rewrite interp_one_same'. reflexivity.
      + intros f s' Hs _. cbn [interp_ops fold_left]. apply interp_one_other. cbn. congruence.
    - rewrite tto_unfold.
      destruct (opc_eqb form PEmpty) eqn:Ef.
      2:{ apply (top_plain form c o l r (NExpr c o l r)); auto. }
      assert (form = PEmpty) as -> by (destruct form; try discriminate; reflexivity).
      unfold search_for_output.
      destruct (count_out out (NExpr c o l r)) as [|[|n2]] eqn:Ec.
      + (* the target does not occur: the result temporary is the target *)
        destruct (tto_general out true _ Hg (or_intror Ec) true st0 Inv_st0)
          as (res & st' & new & E & O & I & M & F & R & S & Sh).
        cbn [res_post] in R. destruct R as (ov & -> & Aov & Omax & _ & Out).
        set (rho := rename_temp nm out true ov).
        exists (map (ren_op rho) new ++ []).
        split; [exact (tto_tail nm out PEmpty true _ _ _ new ov E O Out Sh)|].
        rewrite app_nil_r.
        assert (Hov : (1 <= ov)%nat) by exact (avail_ge1 _ _ Inv_st0 Aov).
        assert (Hrho_out : rho ov = out) by (unfold rho, rename_temp; cbn [andb]; now rewrite Nat.eqb_refl).
        assert (Hrho : rho_ok rho (tvars (NExpr c o l r))).
        { split; [now apply rho_inject_inj|]. intros s k Hs Hk. unfold rho, rename_temp. cbn [andb].
          destruct (Nat.eqb k ov); [|now apply Hvars].
          intros ->. now apply (count0_notin out _ Ec). }
        split; [now apply good_ren|]. split.
        * intros f. destruct (S rho f Hrho) as [_ Vl]. cbn [ren_num numval] in Vl. rewrite Hrho_out in Vl. exact Vl.
        * intros f s Hs Hn. destruct (S rho f Hrho) as [Fr _]. apply Fr.
          intros k _ _. unfold rho, rename_temp. cbn [andb]. destruct (Nat.eqb k ov); [exact Hs|apply Hn].
      + (* the target occurs once *)
        destruct (swap_path out (NExpr c o l r)) as [t'|] eqn:Esw.
        2:{ apply (top_plain PEmpty c o l r (NExpr c o l r)); auto. }
        destruct (swap_path_spine out _ Hg Ec t' Esw) as (Hsp & Hte & Htv).
        destruct Hsp as [[Hx _]|Hsp]; [discriminate|].
        destruct (tto_spine out t' Hsp true st0 Inv_st0)
          as (k & st' & new & E & O & I & M & F & (Ak & Kmax & _ & Out) & S & Sh).
        set (rho := rename_temp nm out true k).
        exists (map (ren_op rho) new ++ []).
        split; [exact (tto_tail nm out PEmpty true _ _ _ new k E O Out Sh)|].
        rewrite app_nil_r.
        assert (Hrs : rho_spine rho out k (tvars t')).
        { split; [apply rho_inject_inj; exact (avail_ge1 _ _ Inv_st0 Ak)|split].
          - intros s j Hs Hso Hj. unfold rho, rename_temp. cbn [andb].
            destruct (Nat.eqb j k); [exact Hso|]. apply Hvars. now apply Htv.
          - unfold rho, rename_temp. cbn [andb]. now rewrite Nat.eqb_refl. }
        split; [now apply good_ren|]. split.
        * intros f. destruct (S rho f Hrs) as [_ Vl]. rewrite Vl. apply Hte.
        * intros f s Hs Hn. destruct (S rho f Hrs) as [Fr _]. apply Fr; [exact Hs|].
          intros j _ _. unfold rho, rename_temp. cbn [andb]. destruct (Nat.eqb j k); [exact Hs|apply Hn].
      + (* the target occurs several times *)
        apply (top_plain PEmpty c o l r (NExpr c o l r)); auto.
  Qed.
End Top.

(* ------------------------------------------------------------------ lowering of good operation lists *)
Lemma lower_one_good nm x :
  o_op x <> PPow -> const32 x -> exists c i, lower_one nm x = (Ok (c, i), []).
Proof.
  destruct x as [[v op] n]. unfold o_op, const32, o_num. cbn [fst snd]. intros Ho Hc. unfold lower_one.
  destruct n as [z|s].
  - pose proof Hc as [Hlo Hhi]. unfold INT_MIN, INT_MAX in Hlo, Hhi.
    assert (Hf : (FLOAT_EXACT <? Z.abs z) = false) by (apply Z.ltb_ge; unfold FLOAT_EXACT; lia).
    assert (Hb : in_int32b z = true) by now apply in_int32b_spec.
    rewrite Hf. destruct op; try congruence.
    + rewrite Hb. eexists _, _. reflexivity.
    + destruct (z =? INT_MIN) eqn:Em; [eexists _, _; reflexivity|].
      assert (amount_ok (Z.abs z) = true).
      { apply Z.eqb_neq in Em. unfold amount_ok, INT_MIN, INT_MAX in *. apply andb_true_iff. split; apply Z.leb_le; lia. }
      rewrite H. eexists _, _. reflexivity.
    + destruct (z =? INT_MIN) eqn:Em; [eexists _, _; reflexivity|].
      assert (amount_ok (Z.abs z) = true).
      { apply Z.eqb_neq in Em. unfold amount_ok, INT_MIN, INT_MAX in *. apply andb_true_iff. split; apply Z.leb_le; lia. }
      rewrite H. eexists _, _. reflexivity.
    + rewrite Hb. eexists _, _. reflexivity.
    + rewrite Hb. eexists _, _. reflexivity.
    + rewrite Hb. eexists _, _. reflexivity.
  - destruct (opc_eqb op PPow) eqn:E; [destruct op; try discriminate; congruence|]. eexists _, _. reflexivity.
Qed.

Lemma lower_good nm ops :
  (forall x, In x ops -> o_op x <> PPow) -> consts32 ops -> exists cmds ints, lower nm ops = (Ok (cmds, ints), []).
Proof.
  induction ops as [|x r IH]; intros Ho Hc; [eexists _, _; reflexivity|].
  apply consts32_cons in Hc. destruct Hc as [Hx Hr].
  destruct (lower_one_good nm x (Ho x (or_introl eq_refl)) Hx) as (c & i & E1).
  destruct (IH (fun y Hy => Ho y (or_intror Hy)) Hr) as (cs & is & E2).
  cbn [lower]. rewrite E1, bind_ok_nil, E2, bind_ok_nil. eexists _, _. reflexivity.
Qed.

(* ------------------------------------------------------------------ the theorem *)
Lemma render_nonempty e : arith e = true -> render e <> [].
Proof.
  destruct e as [v|z|e|e|o a b]; cbn [arith render]; try discriminate.
  intros _. destruct (Nat.ltb (lvl a) (need_l o)); [discriminate|].
  destruct (render a); discriminate.
Qed.

Lemma form_op_sem form old v w : form_sem form old v = Some w -> op_sem form old v = w.
Proof.
  destruct form; cbn; intros H; try congruence.
  - destruct (v =? 0); [discriminate|congruence].
  - destruct (v =? 0); [discriminate|congruence].
Qed.

Lemma int32_state_R32 st : int32_state st -> R32 (rd (sc st)).
Proof.
  intros H k. unfold rd. destruct (sc st k) as [v|] eqn:E; [exact (H k v E)|].
  unfold in_int32, INT_MIN, INT_MAX. lia.
Qed.

Section Final.
  Variable ft : string -> option (list cmd).
  Variable env : nat -> state -> state.

  (* from a correct operation list to the executed commands: optimize_const, lowering, MC.Sem *)
  Lemma assemble nm out form (value : (score -> Z) -> Z) ops :
    good_ops nm out ops ->
    (forall f, interp_ops ops f out = op_sem form (f out) (value f)) ->
    (forall f s, s <> out -> (forall n, s <> temp_score nm n) -> interp_ops ops f s = f s) ->
    snd out <> int_name nm -> var_name nm <> int_name nm ->
    exists cmds ints,
      lower nm (optimize_const ops) = (Ok (cmds, ints), []) /\
      forallb wf_cmd cmds && forallb wf_cmd (load_ints nm ints) = true /\
      forall st all, int32_state st -> loaded nm st all -> (forall z, In z ints -> In z all) ->
        exists st', exec_list ft env 1 cmds st = Some st' /\
          rd (sc st') out = op_sem form (rd (sc st) out) (value (rd (sc st))) /\
          (forall s, s <> out -> (forall n, s <> temp_score nm n) -> rd (sc st') s = rd (sc st) s) /\
          stg st' = stg st /\ tr st' = tr st.
  Proof.
    intros (G1 & G2 & G3) Vout Vfr Hobj Hnames.
    destruct (optimize_const_correct ops G2) as (Eq & C' & S').
    assert (Hpow' : forall x, In x (optimize_const ops) -> o_op x <> PPow).
    { intros y Hy. destruct (S' y Hy) as (x & Hx & Es). injection Es as _ Eo. rewrite <- Eo. now apply G1. }
    assert (Hvar' : forall x, In x (optimize_const ops) -> snd (o_var x) <> int_name nm).
    { intros y Hy. destruct (S' y Hy) as (x & Hx & Es). injection Es as Ev _. rewrite <- Ev.
      destruct (G3 x Hx) as [->|[n ->]]; [exact Hobj|exact Hnames]. }
    destruct (lower_good nm (optimize_const ops) Hpow' C') as (cmds & ints & El).
    exists cmds, ints. split; [exact El|split].
    - rewrite (lower_wf nm _ _ _ _ El). reflexivity.
    - intros st all Hst Hl Hsub.
      destruct (lower_correct_gen ft env nm _ cmds ints [] st all El Hvar' Hl Hsub) as (st' & E & P & _ & S & T).
      exists st'. split; [exact E|]. pose proof (int32_state_R32 st Hst) as HR.
      split; [|split; [|split; assumption]].
      + fold (rdf st') (rdf st). rewrite P, (Eq _ HR). apply Vout.
      + intros s Hs Hn. fold (rdf st') (rdf st). rewrite P, (Eq _ HR). now apply Vfr.
  Qed.

  Theorem partial_arith nm target form e :
    let out := score_of nm target in
    arith e = true -> form <> PPow ->
    (forall n, out <> temp_score nm n) ->
    (forall s n, In s (evars nm e) -> s <> temp_score nm n) ->
    snd out <> int_name nm -> var_name nm <> int_name nm ->
    exists cmds ints,
      compile_expr nm out form e = (Ok (cmds, ints), []) /\
      forallb wf_cmd cmds && forallb wf_cmd (load_ints nm ints) = true /\
      forall st all, int32_state st -> loaded nm st all -> (forall z, In z ints -> In z all) ->
        exists st', exec_list ft env 1 cmds st = Some st' /\
          (forall v w, eval nm (rd (sc st)) e = Some v -> form_sem form (rd (sc st) out) v = Some w ->
                       rd (sc st') out = w) /\
          (forall s, s <> out -> (forall n, s <> temp_score nm n) -> rd (sc st') s = rd (sc st) s) /\
          stg st' = stg st /\ tr st' = tr st.
  Proof.
    intros out Ha Hform Hout Hev Hobj Hnames.
    destruct (arith_tree nm e Ha) as (Hg & Htv & Hte).
    destruct (tto_top nm out Hout form (tree_of nm e) Hg Hform) as (ops & Eops & G & Vout & Vfr).
    { intros s n Hs. apply Hev. now apply Htv. }
    destruct (assemble nm out form (fun f => teval f (tree_of nm e)) ops G Vout Vfr Hobj Hnames)
      as (cmds & ints & El & Wf & Run).
    exists cmds, ints. split; [|split; [exact Wf|]].
    - unfold compile_expr, compile_assign.
      destruct (render e) as [|t0 tr0] eqn:Er; [exfalso; now apply (render_nonempty e Ha)|]. rewrite <- Er.
      rewrite (ttt_ok nm e Ha), bind_ok_nil. rewrite (parse_arith nm e Ha), bind_ok_nil.
      rewrite Eops, bind_ok_nil. exact El.
    - intros st all Hst Hl Hsub. destruct (Run st all Hst Hl Hsub) as (st' & E & Vo & Fr & S & T).
      exists st'. split; [exact E|]. split; [|split; [exact Fr|split; assumption]].
      intros v w Hv Hw. rewrite Vo, (Hte _ _ Hv). now apply form_op_sem.
  Qed.

End Final.
