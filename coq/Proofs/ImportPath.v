(* Proofs/ImportPath.v — C17, strengthening round 4: proofs about Model/ImportPath.v (the path handling of the import
   branch of Lexer.parse_file).  Closed with `exact` in Props/C17.v:
   import_kind_spec, split_join, named_import_one_file, wildcard_exact_files, listing_okb_sound, reads_exactly_reachable,
   bystander_never_read, src_import_flatten. *)
From Coq Require Import String List Bool Arith Ascii Lia.
From JMCV Require Import Model.Import Model.ImportPath Proofs.Import.
Import ListNotations.

(* ------------------------------------------------------------------ the string of an import statement *)

Lemma eqb_app_star : forall d, String.eqb (d ++ "/*") "*" = false /\ String.eqb (d ++ "\*") "*" = false.
Proof.
  intros d. destruct d as [|x d]; [split; reflexivity|].
  simpl. destruct d as [|y d]; simpl; destruct (Ascii.eqb x "*"); auto.
Qed.

Lemma strip_wild_complete : forall d, strip_wild (d ++ "/*") = Some d /\ strip_wild (d ++ "\*") = Some d.
Proof.
  induction d as [|c d [IH1 IH2]]; [split; reflexivity|].
  simpl. destruct (eqb_app_star d) as [E1 E2]. rewrite E1, E2, !andb_false_r, IH1, IH2. auto.
Qed.

Lemma strip_wild_sound : forall s d, strip_wild s = Some d -> s = (d ++ "/*")%string \/ s = (d ++ "\*")%string.
Proof.
  induction s as [|c r IH]; intros d H; simpl in H; [discriminate|].
  destruct (is_sep c && String.eqb r "*") eqn:E.
  - inversion H. subst d. apply andb_true_iff in E. destruct E as [E1 E2].
    apply String.eqb_eq in E2. subst r. unfold is_sep in E1. apply orb_true_iff in E1.
    destruct E1 as [E1|E1]; apply Ascii.eqb_eq in E1; subst c; auto.
  - destruct (strip_wild r) as [d'|] eqn:E'; [|discriminate]. inversion H. subst d.
    destruct (IH d' eq_refl) as [-> | ->]; auto.
Qed.

(* `string.endswith("/*") or string.endswith("\\*")`, and the folder text is `string[:-2]` *)
Lemma import_kind_spec : forall s,
  (forall d, strip_wild s = Some d <-> (s = (d ++ "/*")%string \/ s = (d ++ "\*")%string))
  /\ (forall d, strip_wild s = Some d -> lower_import s = IWild (is_abs d) (split_slash d))
  /\ (strip_wild s = None -> lower_import s = IImport (is_abs s) (split_slash s)).
Proof.
  intros s. split; [|split].
  - intros d. split; [apply strip_wild_sound|].
    intros [-> | ->]; apply strip_wild_complete.
  - intros d H. unfold lower_import. rewrite H. reflexivity.
  - intros H. unfold lower_import. rewrite H. reflexivity.
Qed.

Lemma split_slash_nonempty : forall s, split_slash s <> [].
Proof.
  destruct s as [|c r]; simpl; [discriminate|].
  destruct (is_slash c); [discriminate|]. destruct (split_slash r); discriminate.
Qed.

Lemma split_slash_noslash : forall c, noslash c = true -> split_slash c = [c].
Proof.
  induction c as [|a c IH]; simpl; intro H; auto.
  apply andb_true_iff in H. destruct H as [H1 H2]. apply negb_true_iff in H1.
  rewrite H1, (IH H2). reflexivity.
Qed.

Lemma split_slash_app : forall c r, noslash c = true ->
  split_slash (c ++ "/" ++ r) = c :: split_slash r.
Proof.
  induction c as [|a c IH]; simpl; intros r H; auto.
  apply andb_true_iff in H. destruct H as [H1 H2]. apply negb_true_iff in H1.
  rewrite H1. change (split_slash (c ++ String "/" r)) with (split_slash (c ++ "/" ++ r)).
  rewrite (IH r H2). reflexivity.
Qed.

(* writing components with "/" in between and cutting the string at "/" again gives the components back *)
Lemma split_join : forall l, l <> [] -> forallb noslash l = true -> split_slash (join_slash l) = l.
Proof.
  induction l as [|c l IH]; intros Hne H; [congruence|].
  simpl in H. apply andb_true_iff in H. destruct H as [Hc Hl].
  destruct l as [|b l].
  - simpl. apply split_slash_noslash. exact Hc.
  - change (join_slash (c :: b :: l)) with (c ++ "/" ++ join_slash (b :: l))%string.
    rewrite split_slash_app by exact Hc. rewrite IH; auto. discriminate.
Qed.

(* `string + ".jmc"` is `add_suffix` on the components *)
Lemma split_add_suffix : forall s, split_slash (s ++ ".jmc") = add_suffix (split_slash s).
Proof.
  induction s as [|c r IH]; [reflexivity|].
  simpl. destruct (is_slash c).
  - rewrite IH. pose proof (split_slash_nonempty r) as N.
    destruct (split_slash r) as [|h t]; [congruence|]. reflexivity.
  - rewrite IH. pose proof (split_slash_nonempty r) as N.
    destruct (split_slash r) as [|h t]; [congruence|].
    destruct t as [|h' t]; reflexivity.
Qed.

Lemma ends_with_app : forall suf a, ends_with suf (a ++ suf) = true.
Proof.
  intros suf. induction a as [|c a IH]; simpl.
  - destruct suf as [|a suf]; simpl; [reflexivity|]. rewrite Ascii.eqb_refl, String.eqb_refl. reflexivity.
  - destruct (String.eqb suf (String c (a ++ suf))); auto.
Qed.

Lemma length_app : forall a b, String.length (a ++ b) = String.length a + String.length b.
Proof. induction a as [|c a IH]; simpl; intros b; auto. Qed.

Lemma has_jmc_suffix_app : forall name, name <> ""%string -> has_jmc_suffix (name ++ ".jmc") = true.
Proof.
  intros name H. unfold has_jmc_suffix. rewrite ends_with_app, length_app. simpl.
  destruct name as [|c n]; [congruence|]. simpl. apply Nat.ltb_lt. lia.
Qed.

(* ------------------------------------------------------------------ the spelling grammar *)

Lemma plain_keep : forall c, plain c -> keep_comp c = true /\ String.eqb c ".." = false.
Proof.
  intros c (H1 & H2 & H3). unfold keep_comp.
  apply String.eqb_neq in H1. apply String.eqb_neq in H2. apply String.eqb_neq in H3.
  rewrite H1, H2, H3. auto.
Qed.

Lemma pynorm_app : forall a b, pynorm (a ++ b) = pynorm a ++ pynorm b.
Proof. intros. apply filter_app. Qed.

Lemma skipn_tl : forall (A : Type) k (l : list A), skipn k (tl l) = skipn (S k) l.
Proof. intros A k l. destruct l; simpl; auto. destruct k; reflexivity. Qed.

Lemma fold_spells : forall k q raw, spells k q raw ->
  forall acc, fold_left rstep (pynorm raw) acc = rev q ++ skipn k acc.
Proof.
  induction 1 as [|k q r H IH|k q r H IH|k q r H IH|c q r Hc H IH|c d k q r Hc Hd IHd Hr IHr]; intros acc.
  - reflexivity.
  - simpl. apply IH.
  - simpl. apply IH.
  - simpl. rewrite IH. unfold rstep. simpl. rewrite skipn_tl. reflexivity.
  - destruct (plain_keep c Hc) as [K E]. simpl. rewrite K. simpl. unfold rstep at 2. rewrite E.
    rewrite IH. simpl. rewrite <- app_assoc. reflexivity.
  - destruct (plain_keep c Hc) as [K E]. simpl. rewrite K. simpl. unfold rstep at 2. rewrite E.
    rewrite pynorm_app, fold_left_app, IHd. simpl. apply IHr.
Qed.

(* wherever one stands (base), a spelling of "k up, then q" leads there *)
Lemma canon_spells : forall k q raw base, spells k q raw ->
  canon_from base (pynorm raw) = upk k base ++ q.
Proof.
  intros k q raw base H. unfold canon_from, upk. rewrite (fold_spells k q raw H).
  rewrite rev_app_distr, rev_involutive, skipn_rev, rev_involutive. reflexivity.
Qed.

Lemma spells_nd_last : forall D q x, last (D ++ q ++ [x]) ""%string = x.
Proof. intros. rewrite app_assoc. apply last_last. Qed.

Lemma add_suffix_snoc : forall (r : list comp) (name : comp), add_suffix (r ++ [name]) = r ++ [(name ++ ".jmc")%string].
Proof.
  induction r as [|c r IH]; intros name; [reflexivity|].
  simpl. rewrite IH. destruct (r ++ [name]) eqn:E; auto.
  destruct r; discriminate.
Qed.

Lemma spells_snoc_name : forall k q r (name : comp), spells k q r -> plain name -> spells k (q ++ [name]) (r ++ [name]).
Proof.
  induction 1; intros Hn; simpl.
  - apply sp_name; [exact Hn|apply sp_nil].
  - apply sp_dot; auto.
  - apply sp_empty; auto.
  - apply sp_up; auto.
  - apply sp_name; auto.
  - rewrite <- app_assoc. simpl. apply sp_detour; auto.
Qed.

(* ------------------------------------------------------------------ a named import reads exactly one file *)

(* The file a named import denotes: for EVERY spelling (any number of "." / "" components, leading "./", doubled and
   trailing slashes, detours through any name, leading ".."s, relative or absolute) of "k levels up from the importer's
   folder, down q, file <name>.jmc" - with the suffix written or left out - the statement hands exactly the one file
   <folder k levels up>/q/<name>.jmc to parse_file; whatever else exists (a folder called <name>, a file <name> without
   suffix, <name>.jmc.jmc, ...) plays no part: the result does not depend on the directory tree. *)
Lemma named_import_one_file : forall ds cwd X s k (q : list comp) (name : comp),
  nd X -> strip_wild s = None ->
  ( (* the suffix is written; anything that changes nothing may follow it *)
    (name <> ""%string /\ spells k (q ++ [(name ++ ".jmc")%string]) (split_slash s))
    \/ (* the suffix is left out: the string ends with the name *)
    (exists r : list comp, split_slash s = r ++ [name] /\ spells k q r /\ plain name /\ has_jmc_suffix name = false) ) ->
  import_files ds cwd X s = Ok [ upk k (base_of X (is_abs s)) ++ q ++ [(name ++ ".jmc")%string] ].
Proof.
  intros ds cwd X s k q name HX HW H.
  unfold import_files, lower_import. rewrite HW. cbn [item_files].
  rewrite (import_target_spec cwd X (is_abs s) (split_slash s) HX).
  unfold spec_target. cbv zeta. change (spec_base X (is_abs s)) with (base_of X (is_abs s)).
  destruct H as [[Hne Hs] | (r & Er & Hs & Hp & Hj)].
  - rewrite (canon_spells _ _ _ _ Hs), spells_nd_last, (has_jmc_suffix_app name Hne). reflexivity.
  - rewrite Er. rewrite (canon_spells _ _ _ (base_of X (is_abs s)) (spells_snoc_name _ _ _ name Hs Hp)).
    rewrite spells_nd_last, Hj, add_suffix_snoc.
    assert (plain (name ++ ".jmc")%string) as Hp'.
    { destruct Hp as (P1 & P2 & P3). destruct name as [|a n]; [congruence|].
      repeat split; try discriminate.
      - intro E. inversion E. destruct n; discriminate.
      - intro E. inversion E. destruct n as [|b n]; [discriminate|]. inversion H1. destruct n; discriminate. }
    apply f_equal. apply (f_equal (fun x : apath => [x])).
    exact (canon_spells _ _ _ (base_of X (is_abs s)) (spells_snoc_name _ _ _ _ Hs Hp')).
Qed.

(* ------------------------------------------------------------------ a wildcard reads exactly the .jmc files below its folder *)

Lemma has_dir_fs_dirs : forall fs d, has_dir (fs_dirs fs) d = is_dir fs d.
Proof.
  intros fs d. unfold has_dir, is_dir, fs_dirs. induction fs as [|[p n] fs IH]; simpl; auto.
  destruct n; simpl; rewrite IH; reflexivity.
Qed.

Lemma has_dir_lookup : forall (A : Type) (ds : list (apath * A)) d,
  has_dir ds d = match lookup ds d with Some _ => true | None => false end.
Proof.
  intros A ds d. unfold has_dir. induction ds as [|[k v] ds IH]; simpl; auto.
  destruct (path_eqb k d); simpl; auto.
Qed.

Lemma listing_ok_has_dir : forall fs ds d, listing_ok fs ds -> has_dir ds d = is_dir fs d.
Proof.
  intros fs ds d H. rewrite has_dir_lookup. specialize (H d).
  destruct (lookup ds d); [destruct H as [H _]|]; auto.
Qed.

Lemma walk_ok_fs : forall fs ds, listing_ok fs ds ->
  forall l cur, walk_ok ds cur l = walk_ok (fs_dirs fs) cur l.
Proof.
  intros fs ds H. induction l as [|c l IH]; intros cur; simpl; auto.
  rewrite IH, (listing_ok_has_dir fs ds _ H), has_dir_fs_dirs. reflexivity.
Qed.

Lemma wildcard_exact_files : forall fs ds cwd X s d k q,
  nd X -> listing_ok fs ds -> strip_wild s = Some d -> spells k q (split_slash d) ->
  let B := base_of X (is_abs d) in
  let D := upk k B ++ q in
  if walk_ok (fs_dirs fs) B (pynorm (split_slash d)) && is_dir fs D
  then exists fl, import_files ds cwd X s = Ok fl /\ NoDup fl /\ (forall p, In p fl <-> In p (jmc_files_below fs D))
  else import_files ds cwd X s = Err (EDirNotFound D).
Proof.
  intros fs ds cwd X s d k q HX HL HW Hs B D.
  unfold import_files, lower_import. rewrite HW. cbn [item_files]. cbv zeta.
  rewrite (wild_dir_spec cwd X (is_abs d) (split_slash d) HX), (wild_listing_spec ds cwd X (is_abs d) (split_slash d) HX).
  unfold spec_listing, spec_dir. change (spec_base X (is_abs d)) with B.
  rewrite (canon_spells _ _ _ B Hs). fold D. rewrite (walk_ok_fs fs ds HL).
  destruct (walk_ok (fs_dirs fs) B (pynorm (split_slash d))); simpl.
  - specialize (HL D). destruct (lookup ds D) as [fl|].
    + destruct HL as (H1 & H2 & H3). rewrite H1. exists fl. auto.
    + rewrite HL. reflexivity.
  - reflexivity.
Qed.

(* what "the .jmc files below D" are *)
Lemma jmc_files_below_spec : forall fs D p,
  In p (jmc_files_below fs D) <->
  In (p, NFile) fs /\ below D p = true /\ glob_jmc (last p ""%string) = true.
Proof.
  intros fs D p. unfold jmc_files_below. rewrite in_map_iff. split.
  - intros ([p' n] & E & H). simpl in E. subst p'. apply filter_In in H. destruct H as [H1 H2].
    unfold jmc_file_below in H2. simpl in H2. destruct n; [|discriminate].
    apply andb_true_iff in H2. tauto.
  - intros (H1 & H2 & H3). exists (p, NFile). split; auto. apply filter_In. split; auto.
    unfold jmc_file_below. simpl. rewrite H2, H3. reflexivity.
Qed.

(* the executable test implies the relation the theorems assume *)
Lemma memp_in : forall p l, memp p l = true <-> In p l.
Proof.
  intros p l. unfold memp. rewrite existsb_exists. split.
  - intros (x & H1 & H2). apply path_eqb_eq in H2. subst. exact H1.
  - intros H. exists p. split; auto. apply path_eqb_refl.
Qed.

Lemma nodupb_nodup : forall l, nodupb l = true -> NoDup l.
Proof.
  induction l as [|x l IH]; simpl; intro H; [constructor|].
  apply andb_true_iff in H. destruct H as [H1 H2]. constructor; auto.
  intro Hin. apply memp_in in Hin. rewrite Hin in H1. discriminate.
Qed.

Lemma is_dir_in : forall fs d, is_dir fs d = true <-> In (d, NDir) fs.
Proof.
  intros fs d. unfold is_dir. rewrite existsb_exists. split.
  - intros ([p n] & H1 & H2). simpl in H2. destruct n; [discriminate|].
    apply path_eqb_eq in H2. subst. exact H1.
  - intros H. exists (d, NDir). split; auto. simpl. apply path_eqb_refl.
Qed.

Lemma lookup_none_notin : forall (A : Type) (l : list (apath * A)) p v, lookup l p = None -> ~ In (p, v) l.
Proof.
  induction l as [|[k w] l IH]; simpl; intros p v H; [tauto|].
  destruct (path_eqb k p) eqn:E; [discriminate|].
  intros [Heq|Hin]; [|exact (IH p v H Hin)].
  inversion Heq. subst. rewrite path_eqb_refl in E. discriminate.
Qed.

Lemma listing_okb_sound : forall fs ds, listing_okb fs ds = true -> listing_ok fs ds.
Proof.
  intros fs ds H. unfold listing_okb in H. apply andb_true_iff in H. destruct H as [H1 H2].
  rewrite forallb_forall in H1. rewrite forallb_forall in H2.
  intros d. destruct (lookup ds d) as [fl|] eqn:EL.
  - pose proof (H2 _ (lookup_in _ ds d fl EL)) as Hd. simpl in Hd. split; [exact Hd|].
    apply is_dir_in in Hd. specialize (H1 _ Hd). simpl in H1. rewrite EL in H1.
    apply andb_true_iff in H1. destruct H1 as [H1 H1c]. apply andb_true_iff in H1. destruct H1 as [H1a H1b].
    split; [apply nodupb_nodup; exact H1a|].
    rewrite forallb_forall in H1b. rewrite forallb_forall in H1c.
    intros p. split; intro Hp.
    + apply memp_in. apply H1b. exact Hp.
    + apply memp_in. apply H1c. exact Hp.
  - destruct (is_dir fs d) eqn:Ed; auto.
    apply is_dir_in in Ed. specialize (H1 _ Ed). simpl in H1. rewrite EL in H1. discriminate.
Qed.

(* ------------------------------------------------------------------ which files a project reads: exactly the reachable ones *)

Definition op (s : st) : list apath := opens (out s).

Lemma apath_in_dec : forall (p : apath) l, {In p l} + {~ In p l}.
Proof. intros. apply in_dec. apply list_eq_dec. apply string_dec. Qed.

Lemma seen_in_in : forall p l, seen_in p l = true -> In p l.
Proof.
  intros p l H. unfold seen_in in H. apply existsb_exists in H. destruct H as (x & H1 & H2).
  apply path_eqb_eq in H2. subst. exact H1.
Qed.

Lemma op_flush : forall s, op (flush s) = op s.
Proof. intros. apply opens_flush. Qed.

Section ReachProof.
  Variables (t : tree) (ds : dirs) (cwd : apath) (main : apath).
  Hypothesis Hds : forall d fl q, lookup ds d = Some fl -> In q fl -> nd q.

  Notation R := (reach t ds cwd main).

  (* every import statement of file f leads to files of O *)
  Definition closed_at (f : apath) (O : list apath) : Prop :=
    forall items it fl p, lookup t f = Some items -> In it items -> item_files ds cwd f it = Ok fl -> In p fl -> In p O.

  Lemma closed_at_incl : forall f O O', closed_at f O -> incl O O' -> closed_at f O'.
  Proof. intros f O O' H Hi items it fl p H1 H2 H3 H4. apply Hi. exact (H items it fl p H1 H2 H3 H4). Qed.

  Definition Ist (s : st) : Prop := imported s = map absr (op s).

  (* what one call of parse_file adds: reachable files only, each with all its imports followed *)
  Definition adds (s s' : st) : Prop :=
    Ist s' /\ incl (op s) (op s') /\
    (forall q, In q (op s') -> ~ In q (op s) -> R q /\ closed_at q (op s')).

  Lemma adds_refl : forall s, Ist s -> adds s s.
  Proof. intros s H. split; [exact H|]. split; [apply incl_refl|]. intros q H1 H2. contradiction. Qed.

  Lemma adds_trans : forall s1 s2 s3, adds s1 s2 -> adds s2 s3 -> adds s1 s3.
  Proof.
    intros s1 s2 s3 (I2 & A2 & N2) (I3 & A3 & N3). split; [exact I3|].
    split; [eapply incl_tran; eauto|].
    intros q H3 H1. destruct (apath_in_dec q (op s2)) as [H2|H2].
    - destruct (N2 q H2 H1) as [Rq Cq]. split; [exact Rq|]. eapply closed_at_incl; eauto.
    - apply N3; auto.
  Qed.

  Lemma adds_same_op : forall s s', Ist s -> imported s' = imported s -> op s' = op s -> adds s s'.
  Proof.
    intros s s' H E1 E2. split; [unfold Ist; rewrite E1, E2; exact H|].
    split; [rewrite E2; apply incl_refl|]. intros q H1 H2. rewrite E2 in H1. contradiction.
  Qed.

  Definition rec_reach (rc : rpath -> st -> result st) : Prop :=
    forall p s s', nd p -> R p -> Ist s -> rc (absr p) s = Ok s' -> adds s s' /\ In p (op s').

  Lemma reach_each : forall rc, rec_reach rc -> forall id fl,
    (forall q, In q fl -> nd q /\ R q) ->
    forall s s', Ist s -> each_file rc id fl s = Ok s' ->
      adds s s' /\ (forall q, In q fl -> In q (op s')).
  Proof.
    intros rc Hrc id. induction fl as [|q fl IH]; intros Hfl s s' HI HE; cbn [each_file] in HE.
    - inversion HE. subst. split; [apply adds_refl; exact HI|]. intros q [].
    - destruct (rc (absr q) s) as [s1|e] eqn:E1; [|discriminate].
      destruct (Hfl q (or_introl eq_refl)) as [Nq Rq].
      destruct (Hrc q s s1 Nq Rq HI E1) as [A1 In1].
      assert (Ist (set_cur id s1)) as HI1 by (exact (proj1 A1)).
      destruct (IH (fun x Hx => Hfl x (or_intror Hx)) (set_cur id s1) s' HI1 HE) as [A2 In2].
      assert (adds s1 (set_cur id s1)) as A12 by (apply adds_same_op; [exact (proj1 A1)|reflexivity|reflexivity]).
      split; [exact (adds_trans _ _ _ A1 (adds_trans _ _ _ A12 A2))|].
      intros x [<-|Hx]; [|exact (In2 x Hx)].
      apply (proj1 (proj2 A2)). exact In1.
  Qed.

  Lemma item_target_nd : forall self abs raw, nd self -> nd (import_target cwd (absr self) abs raw).
  Proof. intros. rewrite import_target_spec by assumption. apply spec_target_nd. assumption. Qed.

  Lemma reach_items : forall rc, rec_reach rc -> forall self items0,
    nd self -> R self -> lookup t self = Some items0 ->
    forall items, incl items items0 -> forall s s',
      Ist s -> parse_items Repaired ds cwd rc (absr self) items s = Ok s' ->
      adds s s' /\
      (forall it fl p, In it items -> item_files ds cwd self it = Ok fl -> In p fl -> In p (op s')).
  Proof.
    intros rc Hrc self items0 Nself Rself HL.
    induction items as [|[n|n|abs raw|abs raw] r IH]; intros Hincl s s' HI HE; cbn [parse_items] in HE.
    - inversion HE. subst. split; [|intros it fl p []].
      apply adds_same_op; [exact HI|apply imported_flush|apply op_flush].
    - destruct (IH (fun x Hx => Hincl x (or_intror Hx)) (push (resolve cwd (absr self)) n s) s' HI HE) as [A F].
      split; [exact A|]. intros it fl p [<-|Hit] Hf Hp; [|exact (F it fl p Hit Hf Hp)].
      simpl in Hf. inversion Hf. subst. destruct Hp.
    - assert (adds s (emit (EvDef n) (flush s))) as A0.
      { apply adds_same_op; [exact HI|apply imported_flush|]. unfold op. simpl. apply opens_flush. }
      destruct (IH (fun x Hx => Hincl x (or_intror Hx)) _ s' (proj1 A0) HE) as [A F].
      split; [exact (adds_trans _ _ _ A0 A)|]. intros it fl p [<-|Hit] Hf Hp; [|exact (F it fl p Hit Hf Hp)].
      simpl in Hf. inversion Hf. subst. destruct Hp.
    - destruct (rc (absr (import_target cwd (absr self) abs raw)) (flush s)) as [s1|e] eqn:E1; [|discriminate].
      assert (adds s (flush s)) as A0 by (apply adds_same_op; [exact HI|apply imported_flush|apply op_flush]).
      set (tg := import_target cwd (absr self) abs raw) in *.
      assert (R tg) as Rtg.
      { apply (reach_step t ds cwd main self items0 (IImport abs raw) [tg] tg); auto.
        - apply Hincl. left. reflexivity.
        - left. reflexivity. }
      destruct (Hrc tg (flush s) s1 (item_target_nd self abs raw Nself) Rtg (proj1 A0) E1) as [A1 In1].
      assert (adds s1 (set_cur (resolve cwd (absr self)) s1)) as A12
        by (apply adds_same_op; [exact (proj1 A1)|reflexivity|reflexivity]).
      destruct (IH (fun x Hx => Hincl x (or_intror Hx)) _ s' (proj1 A12) HE) as [A F].
      split; [exact (adds_trans _ _ _ A0 (adds_trans _ _ _ A1 (adds_trans _ _ _ A12 A)))|].
      intros it fl p [<-|Hit] Hf Hp; [|exact (F it fl p Hit Hf Hp)].
      cbn [item_files] in Hf. inversion Hf. subst fl. destruct Hp as [<-|[]].
      apply (proj1 (proj2 A)). exact In1.
    - cbv zeta in HE. destruct (wild_listing Repaired ds cwd (absr self) abs raw) as [fl0|] eqn:EL; [|discriminate].
      destruct (each_file rc (resolve cwd (absr self)) fl0 (flush s)) as [s1|e] eqn:E1; [|discriminate].
      assert (adds s (flush s)) as A0 by (apply adds_same_op; [exact HI|apply imported_flush|apply op_flush]).
      assert (forall q, In q fl0 -> nd q /\ R q) as Hfl.
      { intros q Hq. split.
        { pose proof EL as EL'. rewrite (wild_listing_spec ds cwd self abs raw Nself) in EL'.
          exact (Hds _ _ q (spec_listing_lookup _ _ _ _ _ EL') Hq). }
        apply (reach_step t ds cwd main self items0 (IWild abs raw) fl0 q); auto.
        - apply Hincl. left. reflexivity.
        - cbn [item_files]. cbv zeta. rewrite EL. reflexivity. }
      destruct (reach_each rc Hrc _ fl0 Hfl (flush s) s1 (proj1 A0) E1) as [A1 In1].
      destruct (IH (fun x Hx => Hincl x (or_intror Hx)) _ s' (proj1 A1) HE) as [A F].
      split; [exact (adds_trans _ _ _ A0 (adds_trans _ _ _ A1 A))|].
      intros it fl p [<-|Hit] Hf Hp; [|exact (F it fl p Hit Hf Hp)].
      cbn [item_files] in Hf. cbv zeta in Hf. rewrite EL in Hf. inversion Hf. subst fl.
      apply (proj1 (proj2 A)). exact (In1 p Hp).
  Qed.

  Lemma reach_file : forall fuel, rec_reach (parse_file Repaired t ds cwd fuel).
  Proof.
    induction fuel as [|f IH]; intros p s s' Np Rp HI HE; cbn [parse_file] in HE; [discriminate|].
    rewrite (self_of_absr Repaired cwd p Np) in HE.
    rewrite (is_imported_absr p s (op s) HI) in HE.
    destruct (seen_in p (op s)) eqn:ES.
    - inversion HE. subst. split; [apply adds_refl; exact HI|]. apply seen_in_in. exact ES.
    - rewrite (resolve_absr cwd p Np) in HE.
      destruct (lookup t p) as [items|] eqn:EL; [|discriminate].
      set (s2 := set_cur p (emit (EvOpen p) (mark (absr p) s))) in *.
      assert (Ist s2) as HI2 by (unfold Ist, s2, op; simpl; rewrite HI; reflexivity).
      destruct (reach_items _ IH p items Np Rp EL items (incl_refl _) s2 s' HI2 HE) as [(I' & A' & N') F].
      assert (In p (op s')) as Inp by (apply A'; unfold s2, op; simpl; left; reflexivity).
      split; [|exact Inp].
      split; [exact I'|]. split.
      + intros x Hx. apply A'. unfold s2, op. simpl. right. exact Hx.
      + intros q Hq Hn. destruct (apath_in_dec q (op s2)) as [H2|H2].
        * unfold s2, op in H2. simpl in H2. destruct H2 as [<-|H2]; [|contradiction].
          split; [exact Rp|]. intros items' it fl x L1 L2 L3 L4.
          rewrite EL in L1. inversion L1. subst items'. exact (F it fl x L2 L3 L4).
        * apply N'; auto.
  Qed.
End ReachProof.

(* The files a project reads are EXACTLY the files its import statements lead to from the main file: every such file is read,
   and nothing else is. *)
Lemma reads_exactly_reachable :
  forall t ds cwd mabs mraw fuel evs,
    no_dotdot cwd = true ->
    forallb (fun kv => forallb no_dotdot (snd kv)) ds = true ->
    parse_project Repaired t ds cwd mabs mraw fuel = Ok evs ->
    forall p, In p (opens evs) <-> reach t ds cwd (resolve cwd (mkR mabs (pynorm mraw))) p.
Proof.
  intros t ds cwd mabs mraw fuel evs Hcwd Hdsb H.
  assert (forall d fl q, lookup ds d = Some fl -> In q fl -> nd q) as Hds.
  { intros d fl q HL Hq. apply lookup_in in HL.
    rewrite forallb_forall in Hdsb. specialize (Hdsb _ HL). simpl in Hdsb.
    rewrite forallb_forall in Hdsb. exact (Hdsb q Hq). }
  unfold parse_project in H. set (pm := mkR mabs (pynorm mraw)) in *.
  assert (nd (resolve cwd pm)) as HP by (apply resolve_nd; exact Hcwd).
  rewrite (parse_file_self t ds cwd fuel pm st0 HP) in H.
  destruct (parse_file Repaired t ds cwd fuel (absr (resolve cwd pm)) st0) as [s'|e] eqn:E; [|discriminate].
  inversion H. subst evs. clear H.
  destruct (reach_file t ds cwd (resolve cwd pm) Hds fuel (resolve cwd pm) st0 s' HP
              (reach_main t ds cwd (resolve cwd pm)) eq_refl E) as [(I' & A' & N') Inm].
  intros p. rewrite opens_rev, <- in_rev. fold (op s'). split.
  - intros Hp. apply (N' p Hp). intros [].
  - intros Hr. induction Hr as [|f items it fl p Hf IHf L1 L2 L3 L4]; [exact Inm|].
    destruct (N' f IHf (fun x => match x with end)) as [_ C]. exact (C items it fl p L1 L2 L3 L4).
Qed.

(* A bystander - a file that is not the main file, that no import statement of a file that is read names, and that lies in the
   listing of no folder a wildcard of such a file names - is never read. *)
Lemma bystander_never_read :
  forall t ds cwd mabs mraw fuel evs b,
    no_dotdot cwd = true ->
    forallb (fun kv => forallb no_dotdot (snd kv)) ds = true ->
    parse_project Repaired t ds cwd mabs mraw fuel = Ok evs ->
    b <> resolve cwd (mkR mabs (pynorm mraw)) ->
    (forall f items it fl, In f (opens evs) -> lookup t f = Some items -> In it items ->
                           item_files ds cwd f it = Ok fl -> ~ In b fl) ->
    ~ In b (opens evs).
Proof.
  intros t ds cwd mabs mraw fuel evs b Hcwd Hds H Hb Hno Hin.
  pose proof (reads_exactly_reachable t ds cwd mabs mraw fuel evs Hcwd Hds H) as RR.
  apply RR in Hin. inversion Hin as [E|f items it fl p Hf L1 L2 L3 L4 E].
  - congruence.
  - subst p. apply RR in Hf. exact (Hno f items it fl Hf L1 L2 L3 L4).
Qed.

(* ------------------------------------------------------------------ the same, for projects given as TEXT (import strings) *)

Lemma lookup_lower : forall (t : srctree) p,
  lookup (lower_tree t) p = match lookup t p with Some its => Some (map lower_item its) | None => None end.
Proof.
  induction t as [|[k v] t IH]; intros p; simpl; auto.
  destruct (path_eqb k p); auto.
Qed.

Lemma src_bystander_never_read :
  forall (t : srctree) ds cwd mabs mraw fuel evs b,
    no_dotdot cwd = true ->
    forallb (fun kv => forallb no_dotdot (snd kv)) ds = true ->
    parse_project_src Repaired t ds cwd mabs mraw fuel = Ok evs ->
    b <> resolve cwd (mkR mabs (pynorm mraw)) ->
    (forall f items s fl, In f (opens evs) -> lookup t f = Some items -> In (SrcImport s) items ->
                          import_files ds cwd f s = Ok fl -> ~ In b fl) ->
    ~ In b (opens evs).
Proof.
  intros t ds cwd mabs mraw fuel evs b Hcwd Hds H Hb Hno.
  apply (bystander_never_read (lower_tree t) ds cwd mabs mraw fuel evs b Hcwd Hds H Hb).
  intros f items it fl Hf L1 L2 L3. rewrite lookup_lower in L1.
  destruct (lookup t f) as [its|] eqn:EL; [|discriminate]. inversion L1. subst items.
  apply in_map_iff in L2. destruct L2 as ([n|n|s] & E & Hs); subst it.
  - simpl in L3. inversion L3. intros [].
  - simpl in L3. inversion L3. intros [].
  - exact (Hno f its s fl Hf EL Hs L3).
Qed.

Lemma src_import_flatten :
  forall (t : srctree) ds cwd mabs mraw fuel,
    no_dotdot cwd = true ->
    forallb (fun kv => forallb no_dotdot (snd kv)) ds = true ->
    length t + 2 <= fuel ->
    match parse_project_src Repaired t ds cwd mabs mraw fuel with
    | Ok evs =>
        flatten (lower_tree t) ds cwd mabs mraw fuel = Ok (items_of evs) /\ NoDup (opens evs)
    | Err e =>
        e <> EFuel /\ flatten (lower_tree t) ds cwd mabs mraw fuel = Err e
    end.
Proof.
  intros t ds cwd mabs mraw fuel H1 H2 H3. unfold parse_project_src.
  apply import_flatten; auto. unfold lower_tree. rewrite map_length. exact H3.
Qed.
