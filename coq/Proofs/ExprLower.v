(* Proofs.ExprLower — the lowering of operation lists (var_operation.py:289-356, Model.ExprBack.lower)
   is correct against MC.Sem for EVERY operation list (C02_lowering_correct). *)
From Coq Require Import ZArith String List Bool Lia.
From JMCV Require Import Base.Int32 Base.Dec MC.Syntax MC.Sem MC.Facts Model.Names Model.VarOp Proofs.VarOp
     Model.Expr Model.ExprSpec Model.ExprFront Model.ExprBack.
Import ListNotations.
Open Scope Z_scope.

(* ---- the interpreter of operation lists: what a list of (variable, operator, number) means *)
Definition op_sem (o : opc) (a b : Z) : Z :=
  match o with
  | PEmpty => b
  | PAdd => wrap (a + b) | PSub => wrap (a - b) | PMul => wrap (a * b)
  | PDiv => if b =? 0 then a else wrap (a / b)
  | PMod => if b =? 0 then a else wrap (a mod b)
  | PPow => a
  end.
Definition numval (f : score -> Z) (n : onum) : Z :=
  match n with CConst z => z | CVar s => f s end.
Definition interp_one (f : score -> Z) (o : oper2) : score -> Z :=
  fun k => if score_eqb (o_var o) k then op_sem (o_op o) (f (o_var o)) (numval f (o_num o)) else f k.
Definition interp_ops (l : list oper2) (f : score -> Z) : score -> Z := fold_left interp_one l f.

(* ---- monad inversion *)
Lemma bind_ok {A B} (m : M A) (f : A -> M B) b t :
  bind m f = (Ok b, t) ->
  exists a t1 t2, m = (Ok a, t1) /\ f a = (Ok b, t2) /\ t = t1 ++ t2.
Proof.
  unfold bind. destruct m as [[a| | |] t1]; try discriminate.
  intros H. exists a, t1, (snd (f a)). destruct (f a) as [r t2]; cbn in *.
  injection H as -> <-. auto.
Qed.
Lemma tell_if_ok b t u tg : tell_if b t = (Ok u, tg) -> tg = if b then [t] else [].
Proof. unfold tell_if, tell, ret. destruct b; intros H; injection H as _ <-; reflexivity. Qed.

Ltac inv_bind H :=
  let a := fresh "a" in let t1 := fresh "t" in let t2 := fresh "t" in
  let H1 := fresh "Hb" in let H2 := fresh "Hb" in let H3 := fresh "Ht" in
  apply bind_ok in H; destruct H as (a & t1 & t2 & H1 & H2 & H3).

Definition is_range_tag (t : tag) : bool := match t with T_const_range => true | _ => false end.
Definition range_tags (tg : list tag) : bool := existsb is_range_tag tg.

Section Lower.
  Variable ft : string -> option (list cmd).
  Variable env : nat -> state -> state.
  Variable nm : names.

  Definition rdf (st : state) : score -> Z := rd (sc st).

  Lemma exec_op1 a o b st :
    exec ft env 1 no_menv (COp a o b) st = Some (do_op st a o b).
  Proof. reflexivity. Qed.

  Lemma sop_meaning_op_sem o a b : o <> PPow -> sop_meaning (sop_of_opc o) a b = op_sem o a b.
  Proof. destruct o; intros H; try reflexivity. congruence. Qed.

  (* effect of one `scoreboard players operation v <op>= b` on the rd-view of the scores *)
  Lemma do_op_rd st v o b k : o <> PPow ->
    rdf (fst (do_op st v (sop_of_opc o) b)) k =
    if score_eqb v k then op_sem o (rdf st v) (rdf st b) else rdf st k.
  Proof.
    intros Ho. unfold rdf. destruct (score_eqb_spec v k) as [<-|N].
    - unfold rd at 1. rewrite do_op_target. now apply sop_meaning_op_sem.
    - destruct (score_eqb_spec b k) as [<-|N2].
      + unfold rd at 1. rewrite do_op_other by congruence.
        destruct o; reflexivity.
      + unfold rd at 1. rewrite do_op_frame by congruence. reflexivity.
  Qed.

  Lemma do_op_keeps_loaded st v o b ints :
    snd v <> int_name nm -> loaded nm st ints -> o <> PPow ->
    loaded nm (fst (do_op st v (sop_of_opc o) b)) ints.
  Proof.
    intros Hv Hl Ho z Hz. specialize (Hl z Hz).
    assert (Nv : int_score nm z <> v) by (intros E; apply Hv; rewrite <- E; reflexivity).
    destruct (score_eqb_spec b (int_score nm z)) as [->|N2].
    - rewrite do_op_other by congruence. unfold rd. rewrite Hl.
      destruct o; reflexivity.
    - rewrite do_op_frame by congruence. exact Hl.
  Qed.

  Definition lower_post (o : oper2) (ints : list Z) (st st' : state) : Prop :=
    (forall k, rdf st' k = interp_one (rdf st) o k) /\
    loaded nm st' ints /\ stg st' = stg st /\ tr st' = tr st.

  Lemma set_rd st v z k : rdf (set_sc st v z) k = if score_eqb v k then z else rdf st k.
  Proof.
    unfold set_sc, rdf; cbn [sc]. destruct (score_eqb_spec v k) as [<-|N].
    - apply rd_upd_same.
    - now apply rd_upd_other.
  Qed.
  Lemma set_keeps_loaded st v z ints :
    snd v <> int_name nm -> loaded nm st ints -> loaded nm (set_sc st v z) ints.
  Proof.
    intros Hv Hl y Hy. unfold set_sc; cbn [sc]. rewrite upd_other; [now apply Hl|].
    intros E. apply Hv. rewrite E. reflexivity.
  Qed.

  Lemma lower_one_correct o c i tg st all :
    lower_one nm o = (Ok (c, i), tg) ->
    snd (o_var o) <> int_name nm ->
    loaded nm st all -> (forall z, In z i -> In z all) ->
    exists st' r, exec ft env 1 no_menv c st = Some (st', r) /\ lower_post o all st st'.
  Proof.
    destruct o as [[v op] n]. unfold lower_one, o_var. cbn [fst snd].
    intros H Hv Hl Hsub. destruct n as [z|s].
    - destruct (FLOAT_EXACT <? Z.abs z); [cbn in H; discriminate|].
      destruct op; try (cbn in H; discriminate).
      + (* = *) inv_bind H. injection Hb0 as <- <- _.
        eexists _, _. split; [reflexivity|]. unfold lower_post, interp_one, o_var, o_op, o_num; cbn [fst snd numval op_sem].
        repeat split; auto using set_keeps_loaded. intros k. apply set_rd.
      + (* + *) destruct (z =? INT_MIN) eqn:Emin.
        { injection H as <- <- _.
          assert (Hz : sc st (int_score nm z) = Some z) by (apply Hl, Hsub; now left).
          exists (fst (do_op st v (sop_of_opc PAdd) (int_score nm z))), (snd (do_op st v (sop_of_opc PAdd) (int_score nm z))).
          split; [rewrite exec_op1; now destruct (do_op st v _ (int_score nm z))|].
          destruct (do_op_rest st v (sop_of_opc PAdd) (int_score nm z)) as [R1 R2].
          unfold lower_post, interp_one, o_var, o_op, o_num; cbn [fst snd numval].
          repeat split; auto; [|apply do_op_keeps_loaded; auto; discriminate].
          intros k. rewrite do_op_rd by discriminate. unfold rdf at 2, rd. now rewrite Hz. }
        inv_bind H. injection Hb0 as <- <- _.
        destruct (0 <=? z) eqn:Ez.
        * eexists _, _. split; [reflexivity|]. unfold lower_post, interp_one, o_var, o_op, o_num; cbn [fst snd numval op_sem].
          repeat split; auto using set_keeps_loaded. intros k. rewrite set_rd. reflexivity.
        * eexists _, _. split; [reflexivity|]. unfold lower_post, interp_one, o_var, o_op, o_num; cbn [fst snd numval op_sem].
          repeat split; auto using set_keeps_loaded. intros k. rewrite set_rd.
          unfold rdf. replace (rd (sc st) v - - z) with (rd (sc st) v + z) by lia. reflexivity.
      + (* - *) destruct (z =? INT_MIN) eqn:Emin.
        { injection H as <- <- _.
          assert (Hz : sc st (int_score nm z) = Some z) by (apply Hl, Hsub; now left).
          exists (fst (do_op st v (sop_of_opc PSub) (int_score nm z))), (snd (do_op st v (sop_of_opc PSub) (int_score nm z))).
          split; [rewrite exec_op1; now destruct (do_op st v _ (int_score nm z))|].
          destruct (do_op_rest st v (sop_of_opc PSub) (int_score nm z)) as [R1 R2].
          unfold lower_post, interp_one, o_var, o_op, o_num; cbn [fst snd numval].
          repeat split; auto; [|apply do_op_keeps_loaded; auto; discriminate].
          intros k. rewrite do_op_rd by discriminate. unfold rdf at 2, rd. now rewrite Hz. }
        inv_bind H. injection Hb0 as <- <- _.
        destruct (0 <=? z) eqn:Ez.
        * eexists _, _. split; [reflexivity|]. unfold lower_post, interp_one, o_var, o_op, o_num; cbn [fst snd numval op_sem].
          repeat split; auto using set_keeps_loaded. intros k. rewrite set_rd. reflexivity.
        * eexists _, _. split; [reflexivity|]. unfold lower_post, interp_one, o_var, o_op, o_num; cbn [fst snd numval op_sem].
          repeat split; auto using set_keeps_loaded. intros k. rewrite set_rd.
          unfold rdf. replace (rd (sc st) v + - z) with (rd (sc st) v - z) by lia. reflexivity.
      + (* * *) inv_bind H. injection Hb0 as <- <- _.
        assert (Hz : sc st (int_score nm z) = Some z) by (apply Hl, Hsub; now left).
        exists (fst (do_op st v (sop_of_opc PMul) (int_score nm z))), (snd (do_op st v (sop_of_opc PMul) (int_score nm z))).
        split; [rewrite exec_op1; now destruct (do_op st v _ (int_score nm z))|].
        destruct (do_op_rest st v (sop_of_opc PMul) (int_score nm z)) as [R1 R2].
        unfold lower_post, interp_one, o_var, o_op, o_num; cbn [fst snd numval].
        repeat split; auto; [|apply do_op_keeps_loaded; auto; discriminate].
        intros k. rewrite do_op_rd by discriminate. unfold rdf at 2, rd. now rewrite Hz.
      + (* / *) inv_bind H. injection Hb0 as <- <- _.
        assert (Hz : sc st (int_score nm z) = Some z) by (apply Hl, Hsub; now left).
        exists (fst (do_op st v (sop_of_opc PDiv) (int_score nm z))), (snd (do_op st v (sop_of_opc PDiv) (int_score nm z))).
        split; [rewrite exec_op1; now destruct (do_op st v _ (int_score nm z))|].
        destruct (do_op_rest st v (sop_of_opc PDiv) (int_score nm z)) as [R1 R2].
        unfold lower_post, interp_one, o_var, o_op, o_num; cbn [fst snd numval].
        repeat split; auto; [|apply do_op_keeps_loaded; auto; discriminate].
        intros k. rewrite do_op_rd by discriminate. unfold rdf at 2, rd. now rewrite Hz.
      + (* % *) inv_bind H. injection Hb0 as <- <- _.
        assert (Hz : sc st (int_score nm z) = Some z) by (apply Hl, Hsub; now left).
        exists (fst (do_op st v (sop_of_opc PMod) (int_score nm z))), (snd (do_op st v (sop_of_opc PMod) (int_score nm z))).
        split; [rewrite exec_op1; now destruct (do_op st v _ (int_score nm z))|].
        destruct (do_op_rest st v (sop_of_opc PMod) (int_score nm z)) as [R1 R2].
        unfold lower_post, interp_one, o_var, o_op, o_num; cbn [fst snd numval].
        repeat split; auto; [|apply do_op_keeps_loaded; auto; discriminate].
        intros k. rewrite do_op_rd by discriminate. unfold rdf at 2, rd. now rewrite Hz.
    - destruct (opc_eqb op PPow) eqn:Ep; [cbn in H; discriminate|].
      assert (Hop : op <> PPow) by (intros ->; discriminate).
      injection H as <- <- _.
      exists (fst (do_op st v (sop_of_opc op) s)), (snd (do_op st v (sop_of_opc op) s)).
      split; [rewrite exec_op1; now destruct (do_op st v _ s)|].
      destruct (do_op_rest st v (sop_of_opc op) s) as [R1 R2].
      unfold lower_post, interp_one, o_var, o_op, o_num; cbn [fst snd numval].
      repeat split; auto; [|apply do_op_keeps_loaded; auto].
      intros k. now rewrite do_op_rd.
  Qed.
End Lower.

Lemma interp_one_ext f g o : (forall k, f k = g k) -> forall k, interp_one f o k = interp_one g o k.
Proof.
  intros H k. unfold interp_one. rewrite !H. destruct (o_num o); cbn [numval]; rewrite ?H; reflexivity.
Qed.
Lemma interp_ops_ext l : forall f g, (forall k, f k = g k) -> forall k, interp_ops l f k = interp_ops l g k.
Proof.
  unfold interp_ops. induction l as [|o r IH]; intros f g H k; cbn [fold_left]; [apply H|].
  apply IH. now apply interp_one_ext.
Qed.

Section LowerList.
  Variable ft : string -> option (list cmd).
  Variable env : nat -> state -> state.
  Variable nm : names.

  Lemma lower_cons o r cmds ints tg :
    lower nm (o :: r) = (Ok (cmds, ints), tg) ->
    exists c i t1 cs is t2,
      lower_one nm o = (Ok (c, i), t1) /\ lower nm r = (Ok (cs, is), t2) /\
      cmds = c :: cs /\ ints = i ++ is /\ tg = t1 ++ t2.
  Proof.
    cbn [lower]. intros H. inv_bind H. destruct a as [c i]. inv_bind Hb0. destruct a as [cs is].
    injection Hb2 as <- <- <-. subst. exists c, i, t, cs, is, t1. rewrite app_nil_r. auto.
  Qed.

  Lemma lower_correct_gen ops : forall cmds ints tg st all,
    lower nm ops = (Ok (cmds, ints), tg) ->
    (forall o, In o ops -> snd (o_var o) <> int_name nm) ->
    loaded nm st all -> (forall z, In z ints -> In z all) ->
    exists st', exec_list ft env 1 cmds st = Some st' /\
      (forall k, rdf st' k = interp_ops ops (rdf st) k) /\
      loaded nm st' all /\ stg st' = stg st /\ tr st' = tr st.
  Proof.
    induction ops as [|o r IH]; intros cmds ints tg st all H Hv Hl Hsub.
    - injection H as <- <- <-. exists st. repeat split; auto.
    - apply lower_cons in H. destruct H as (c & i & t1 & cs & is & t2 & H1 & H2 & -> & -> & ->).
      destruct (lower_one_correct ft env nm o c i t1 st all H1) as (st1 & r1 & E1 & P1 & L1 & S1 & T1).
      { apply Hv. now left. } { exact Hl. } { intros z Hz. apply Hsub, in_or_app. now left. }
      destruct (IH cs is t2 st1 all H2) as (st2 & E2 & P2 & L2 & S2 & T2).
      { intros o' Ho'. apply Hv. now right. } { exact L1. }
      { intros z Hz. apply Hsub, in_or_app. now right. }
      exists st2. unfold exec_list in *. cbn [seq_run]. rewrite E1.
      split; [exact E2|]. split; [|split; [exact L2|split; congruence]].
      intros k. rewrite P2. cbn [interp_ops fold_left]. apply interp_ops_ext. exact P1.
  Qed.
End LowerList.

(* ---- well-formedness: the emitted commands, and the __load__ lines of the constants they use,
   are accepted by Minecraft exactly when the const_range tag did not fire *)
Lemma range_tags_app a b : range_tags (a ++ b) = range_tags a || range_tags b.
Proof. unfold range_tags. apply existsb_app. Qed.

Lemma lower_one_wf nm o c i tg :
  lower_one nm o = (Ok (c, i), tg) ->
  wf_cmd c && forallb wf_cmd (load_ints nm i) = negb (range_tags tg).
Proof.
  destruct o as [[v op] n]. unfold lower_one. intros H. destruct n as [z|s].
  - destruct (FLOAT_EXACT <? Z.abs z); [cbn in H; discriminate|].
    destruct op; try (cbn in H; discriminate);
      try (destruct (z =? INT_MIN) eqn:Emin;
           [injection H as <- <- <-; apply Z.eqb_eq in Emin; subst z; reflexivity|]);
      inv_bind H; injection Hb0 as <- <- <-;
      apply tell_if_ok in Hb; subst; rewrite app_nil_r.
    + cbn. destruct (in_int32b z); reflexivity.
    + destruct (0 <=? z) eqn:Ez; cbn [wf_cmd load_ints map forallb]; rewrite andb_true_r.
      * rewrite Z.abs_eq by (apply Z.leb_le; exact Ez). unfold amount_ok.
        destruct ((0 <=? z) && (z <=? INT_MAX)); reflexivity.
      * rewrite Z.abs_neq by (apply Z.leb_gt in Ez; lia). unfold amount_ok.
        destruct ((0 <=? - z) && (- z <=? INT_MAX)); reflexivity.
    + destruct (0 <=? z) eqn:Ez; cbn [wf_cmd load_ints map forallb]; rewrite andb_true_r.
      * rewrite Z.abs_eq by (apply Z.leb_le; exact Ez). unfold amount_ok.
        destruct ((0 <=? z) && (z <=? INT_MAX)); reflexivity.
      * rewrite Z.abs_neq by (apply Z.leb_gt in Ez; lia). unfold amount_ok.
        destruct ((0 <=? - z) && (- z <=? INT_MAX)); reflexivity.
    + cbn. destruct (in_int32b z); reflexivity.
    + cbn. destruct (in_int32b z); reflexivity.
    + cbn. destruct (in_int32b z); reflexivity.
  - destruct (opc_eqb op PPow); [cbn in H; discriminate|]. injection H as <- <- <-. reflexivity.
Qed.

Lemma load_ints_app nm a b : load_ints nm (a ++ b) = load_ints nm a ++ load_ints nm b.
Proof. unfold load_ints. apply map_app. Qed.

Lemma lower_wf nm ops : forall cmds ints tg,
  lower nm ops = (Ok (cmds, ints), tg) ->
  forallb wf_cmd cmds && forallb wf_cmd (load_ints nm ints) = negb (range_tags tg).
Proof.
  induction ops as [|o r IH]; intros cmds ints tg H.
  - injection H as <- <- <-. reflexivity.
  - apply lower_cons in H. destruct H as (c & i & t1 & cs & is & t2 & H1 & H2 & -> & -> & ->).
    apply lower_one_wf in H1. apply IH in H2.
    rewrite load_ints_app, forallb_app, range_tags_app, negb_orb, <- H1, <- H2.
    cbn [forallb]. destruct (wf_cmd c), (forallb wf_cmd cs), (forallb wf_cmd (load_ints nm i)); reflexivity.
Qed.
