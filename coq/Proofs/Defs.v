(* Proofs.Defs — no definition is lost or overwritten by the placement machine (property C08). *)
From Coq Require Import String Ascii List Bool Arith Lia.
From JMCV Require Import Model.ResLoc Model.Defs Proofs.ResLoc.
Import ListNotations.
Open Scope string_scope.

(* ------------------------------------------------------------------ induction over definition trees *)
Section ItemInd.
  Variable P : item -> Prop.
  Hypothesis Hf : forall name mk inner, Forall P inner -> P (IFunc name mk inner).
  Hypothesis Hc : forall name ms, Forall P ms -> P (IClass name ms).
  Hypothesis Hn : forall t n mk, P (INew t n mk).
  Hypothesis Hp : forall t n mk, P (IGenPriv t n mk).
  Hypothesis Hj : forall t n mk, P (IGenJson t n mk).
  Hypothesis Ha : forall pre inner, Forall P inner -> P (IAt pre inner).
  Fixpoint item_ind' (it : item) : P it :=
    match it with
    | IFunc name mk inner =>
        Hf name mk inner ((fix go (l : list item) : Forall P l :=
                            match l with [] => Forall_nil P | x :: r => Forall_cons x (item_ind' x) (go r) end) inner)
    | IClass name ms =>
        Hc name ms ((fix go (l : list item) : Forall P l :=
                       match l with [] => Forall_nil P | x :: r => Forall_cons x (item_ind' x) (go r) end) ms)
    | INew t n mk => Hn t n mk
    | IGenPriv t n mk => Hp t n mk
    | IGenJson t n mk => Hj t n mk
    | IAt pre inner =>
        Ha pre inner ((fix go (l : list item) : Forall P l :=
                         match l with [] => Forall_nil P | x :: r => Forall_cons x (item_ind' x) (go r) end) inner)
    end.
End ItemInd.

(* ------------------------------------------------------------------ association lists *)
Section D.
  Context {V : Type}.
  Implicit Types l : list (string * V).
  Lemma dget_none_notin k l : dget k l = None -> ~ In k (map fst l).
  Proof.
    induction l as [|[k' v] r IH]; simpl; [tauto|].
    destruct (String.eqb k k') eqn:E; [discriminate|]. intros H [H1|H1].
    - apply String.eqb_neq in E. congruence.
    - now apply IH.
  Qed.
  Lemma dset_fresh k v l : dget k l = None -> dset k v l = (l ++ [(k, v)])%list.
  Proof.
    induction l as [|[k' v'] r IH]; simpl; [reflexivity|].
    destruct (String.eqb k k'); [discriminate|]. intros H. now rewrite IH.
  Qed.
  Lemma dget_some_in k v l : dget k l = Some v -> In (k, v) l.
  Proof.
    induction l as [|[k' v'] r IH]; simpl; [discriminate|].
    destruct (String.eqb k k') eqn:E; intros H; [apply String.eqb_eq in E; inversion H; subst; now left|right; auto].
  Qed.
  Lemma dset_keys k v l : dget k l <> None -> map fst (dset k v l) = map fst l.
  Proof.
    induction l as [|[k' v'] r IH]; simpl; [congruence|].
    destruct (String.eqb k k') eqn:E; simpl; [apply String.eqb_eq in E; now subst|]. intros H. now rewrite IH.
  Qed.
  Lemma dset_In_replace k v l x : NoDup (map fst l) -> dget k l <> None ->
    (In x (dset k v l) <-> (x = (k, v) \/ (In x l /\ fst x <> k))).
  Proof.
    induction l as [|[k' v'] r IH]; simpl; intros ND H; [congruence|].
    inversion ND as [|? ? Hnot ND']; subst.
    destruct (String.eqb k k') eqn:E.
    - apply String.eqb_eq in E. subst k'. simpl. split.
      + intros [<-|Hin]; [now left|]. right. split; [now right|]. intros <-. apply Hnot. now apply in_map.
      + intros [->|[[<-|Hin] Hne]]; [now left|simpl in Hne; congruence|now right].
    - apply String.eqb_neq in E. simpl. rewrite (IH ND' H). split.
      + intros [<-|[->|[Hin Hne]]]; [right; split; [now left|simpl; congruence]|now left|right; split; [now right|assumption]].
      + intros [->|[[<-|Hin] Hne]]; [right; now left|now left|right; right; now split].
  Qed.
End D.

Lemma NoDup_snoc {A} (l : list A) (k : A) : NoDup l -> ~ In k l -> NoDup (l ++ [k]).
Proof.
  induction l as [|a r IH]; simpl; intros ND H; [constructor; [tauto|constructor]|].
  inversion ND; subst. constructor.
  - rewrite in_app_iff. simpl. intros [H1|[H1|[]]]; [tauto|subst; tauto].
  - apply IH; tauto.
Qed.

(* ------------------------------------------------------------------ extension of a placement state *)
Definition triple := (bool * string * nat)%type.
Definition ukeys (st : dstate) : Prop := NoDup (map fst (funs st)) /\ NoDup (map fst (jsons st)).
Record ext (a b : dstate) (D : list triple) : Prop := mkExt {
  e_in : forall x, In x (placed b) <-> In x (placed a) \/ In x D;
  e_uk : ukeys a -> ukeys b
}.

Lemma ext_refl a : ext a a [].
Proof. constructor; [intros x; simpl; tauto|auto]. Qed.
Lemma ext_trans a b c D1 D2 : ext a b D1 -> ext b c D2 -> ext a c (D1 ++ D2).
Proof.
  intros [i1 u1] [i2 u2]. constructor; [|auto].
  intros x. rewrite i2, i1, in_app_iff. tauto.
Qed.

Lemma placed_in_fun st p m : In (false, p, m) (placed st) <-> In (p, m) (funs st).
Proof.
  unfold placed. rewrite in_app_iff. split.
  - intros [H|H]; apply in_map_iff in H as [[k v] [E Hin]]; inversion E; subst; assumption.
  - intros H. left. apply in_map_iff. exists (p, m). auto.
Qed.
Lemma placed_in_json st p m : In (true, p, m) (placed st) <-> exists u, In (p, (m, u)) (jsons st).
Proof.
  unfold placed. rewrite in_app_iff. split.
  - intros [H|H]; apply in_map_iff in H as [[k v] [E Hin]]; inversion E; subst. destruct v as [m' u]. simpl. eauto.
  - intros [u H]. right. apply in_map_iff. exists (p, (m, u)). auto.
Qed.

Lemma ext_fun_fresh st p mk :
  dget p (funs st) = None -> ext st (mkDS (dset p mk (funs st)) (jsons st)) [(false, p, mk)].
Proof.
  intros H. rewrite (dset_fresh _ _ _ H). constructor.
  - intros [[j q] m]. unfold placed. simpl. rewrite !in_app_iff, map_app, in_app_iff. simpl. tauto.
  - intros [U1 U2]. split; [|assumption]. simpl. rewrite map_app. simpl.
    apply NoDup_snoc; [assumption|]. now apply dget_none_notin.
Qed.

Lemma ext_json_fresh st p mk u :
  dget p (jsons st) = None -> ext st (mkDS (funs st) (dset p (mk, u) (jsons st))) [(true, p, mk)].
Proof.
  intros H. rewrite (dset_fresh _ _ _ H). constructor.
  - intros [[j q] m]. unfold placed. simpl. rewrite !in_app_iff, map_app, in_app_iff. simpl. tauto.
  - intros [U1 U2]. split; [assumption|]. simpl. rewrite map_app. simpl.
    apply NoDup_snoc; [assumption|]. now apply dget_none_notin.
Qed.

(* re-inserting the same content at an existing json path changes nothing visible *)
Lemma ext_json_same st p mk u u' :
  dget p (jsons st) = Some (mk, u) -> ukeys st ->
  forall x, In x (placed (mkDS (funs st) (dset p (mk, u') (jsons st)))) <-> In x (placed st) \/ In x [(true, p, mk)].
Proof.
  intros H [_ U2] [[j q] m]. destruct j.
  - rewrite !placed_in_json. simpl. split.
    + intros [w Hw]. apply dset_In_replace in Hw; [|assumption|congruence].
      destruct Hw as [E|[Hin _]]; [inversion E; subst; right; now left|left; eauto].
    + intros [[w Hw]|[E|[]]].
      * destruct (string_dec q p) as [->|N].
        -- assert (m = mk).
           { apply dget_some_in in H. clear - H Hw U2.
             induction (jsons st) as [|[k v] r IH]; [contradiction|]. simpl in U2. inversion U2; subst.
             destruct H as [H|H], Hw as [Hw|Hw].
             - congruence.
             - inversion H; subst. exfalso. apply H2. change p with (fst (p, (m, w))). now apply in_map.
             - inversion Hw; subst. exfalso. apply H2. change p with (fst (p, (mk, u))). now apply in_map.
             - auto. }
           subst. exists u'. apply dset_In_replace; [assumption|congruence|now left].
        -- exists w. apply dset_In_replace; [assumption|congruence|]. right. split; [assumption|simpl; congruence].
      * inversion E; subst. exists u'. apply dset_In_replace; [assumption|congruence|now left].
  - rewrite !placed_in_fun. simpl. split; [tauto|]. intros [H1|[E|[]]]; [assumption|discriminate].
Qed.

(* ------------------------------------------------------------------ the nested loops are place_list / docs_list *)
Lemma go_place d fx prefix ctx l : forall s,
  (fix go (l : list item) (s : dstate) : derr + dstate :=
     match l with
     | [] => inr s
     | x :: r => match place_item d fx prefix ctx x s with inl e => inl e | inr s' => go r s' end
     end) l s = place_list d fx prefix ctx l s.
Proof. induction l as [|x r IH]; intros s; simpl; [reflexivity|]. destruct (place_item d fx prefix ctx x s); auto. Qed.
Lemma go_docs d fx prefix ctx l :
  (fix go (l : list item) : list triple :=
     match l with [] => [] | x :: r => (docs_item d fx prefix ctx x ++ go r)%list end) l = docs_list d fx prefix ctx l.
Proof. induction l as [|x r IH]; simpl; [reflexivity|]. now rewrite IH. Qed.

Definition side_item (fx : fixes) (it : item) : bool := (fx_nested fx || no_nested it) && (fx_gendup fx || no_gen it).

Lemma side_item_inner fx name mk inner :
  side_item fx (IFunc name mk inner) = true -> forallb (side_item fx) inner = true /\ (fx_nested fx = true \/ inner = []).
Proof.
  unfold side_item. simpl. intros H. apply andb_true_iff in H as [H1 H2]. split.
  - apply forallb_forall. intros x Hx. apply andb_true_iff. split.
    + apply orb_true_iff in H1 as [->|H1]; [reflexivity|]. destruct inner; [contradiction|discriminate].
    + apply orb_true_iff in H2 as [->|H2]; [reflexivity|]. rewrite forallb_forall in H2. rewrite (H2 _ Hx). apply orb_true_r.
  - apply orb_true_iff in H1 as [H1|H1]; [now left|]. right. destruct inner; [reflexivity|discriminate].
Qed.
Lemma side_item_members fx name ms :
  side_item fx (IClass name ms) = true -> forallb (side_item fx) ms = true.
Proof.
  unfold side_item. simpl. intros H. apply andb_true_iff in H as [H1 H2].
  apply forallb_forall. intros x Hx. apply andb_true_iff. split.
  - apply orb_true_iff in H1 as [->|H1]; [reflexivity|]. rewrite forallb_forall in H1. rewrite (H1 _ Hx). apply orb_true_r.
  - apply orb_true_iff in H2 as [->|H2]; [reflexivity|]. rewrite forallb_forall in H2. rewrite (H2 _ Hx). apply orb_true_r.
Qed.

Lemma side_item_at fx pre inner :
  side_item fx (IAt pre inner) = true -> forallb (side_item fx) inner = true.
Proof.
  unfold side_item. simpl. intros H. apply andb_true_iff in H as [H1 H2].
  apply forallb_forall. intros x Hx. apply andb_true_iff. split.
  - apply orb_true_iff in H1 as [->|H1]; [reflexivity|]. rewrite forallb_forall in H1. rewrite (H1 _ Hx). apply orb_true_r.
  - apply orb_true_iff in H2 as [->|H2]; [reflexivity|]. rewrite forallb_forall in H2. rewrite (H2 _ Hx). apply orb_true_r.
Qed.

Definition item_ok (d : dcfg) (fx : fixes) (it : item) : Prop :=
  forall prefix ctx st st', place_item d fx prefix ctx it st = inr st' -> side_item fx it = true -> ukeys st ->
                            ext st st' (docs_item d fx prefix ctx it).

Lemma list_ok d fx l : Forall (item_ok d fx) l ->
  forall prefix ctx st st', place_list d fx prefix ctx l st = inr st' -> forallb (side_item fx) l = true -> ukeys st ->
                            ext st st' (docs_list d fx prefix ctx l).
Proof.
  induction 1 as [|x r Hx Hr IH]; simpl; intros prefix ctx st st' H S U.
  - inversion H; subst. apply ext_refl.
  - destruct (place_item d fx prefix ctx x st) as [e|s1] eqn:E; [discriminate|].
    apply andb_true_iff in S as [S1 S2].
    pose proof (Hx _ _ _ _ E S1 U) as X1. eapply ext_trans; [exact X1|]. apply IH; auto. apply (e_uk _ _ _ X1 U).
Qed.

Lemma dmem_false {V} k (l : list (string * V)) : dmem k l = false -> dget k l = None.
Proof. unfold dmem. destruct (dget k l); [discriminate|reflexivity]. Qed.

Lemma gen_insert_ok fx path mk st st' :
  gen_insert fx path mk st = inr st' -> fx_gendup fx = true -> ukeys st -> ext st st' [(true, path, mk)].
Proof.
  unfold gen_insert. intros H G U. destruct (dget path (jsons st)) as [[m u]|] eqn:E.
  - rewrite G in H. simpl in H. destruct (Nat.eqb m mk) eqn:Em; [|discriminate]. apply Nat.eqb_eq in Em. subst m.
    inversion H; subst. constructor.
    + eapply ext_json_same; eauto.
    + intros [U1 U2]. split; [assumption|]. simpl. rewrite dset_keys; [assumption|congruence].
  - inversion H; subst. now apply ext_json_fresh.
Qed.

Theorem place_item_ok d fx : forall it, item_ok d fx it.
Proof.
  induction it as [name mk inner IHin|name ms IHms|t n mk|t n mk|t n mk|pre inner IHin] using item_ind'; intros prefix ctx st st' H S U.
  - (* function *)
    simpl in H. simpl docs_item. unfold bindd in H. destruct (conv_d fx true name) as [e|p] eqn:Ec; [discriminate|].
    unfold ok_or_nil. destruct (check_func d (prefix ++ p) st) eqn:Ck; [discriminate|].
    rewrite go_place in H. rewrite go_docs.
    destruct (place_list d fx prefix CFunc inner st) as [e|st1] eqn:Ei; [discriminate|].
    destruct (side_item_inner _ _ _ _ S) as [Si Sn].
    pose proof (list_ok _ _ _ IHin _ _ _ _ Ei Si U) as X1.
    destruct (fx_nested fx && dmem (prefix ++ p) (funs st1)) eqn:En; [discriminate|]. inversion H; subst st'. clear H.
    eapply ext_trans; [exact X1|]. apply ext_fun_fresh.
    destruct Sn as [Sn| ->].
    + rewrite Sn in En. simpl in En. now apply dmem_false.
    + simpl in Ei. inversion Ei; subst st1. unfold check_func in Ck.
      destruct (String.prefix (d_private d ++ "/") (prefix ++ p)); [discriminate|].
      destruct (String.eqb (prefix ++ p) (d_load d)); [discriminate|].
      destruct (dmem (prefix ++ p) (funs st)) eqn:Dm; [discriminate|]. now apply dmem_false.
  - (* class *)
    simpl in H. simpl docs_item. destruct ctx; try discriminate;
      (unfold bindd in H; destruct (conv_d fx true name) as [e|cp] eqn:Ec; [discriminate|];
       unfold ok_or_nil; rewrite go_place in H; rewrite go_docs;
       eapply list_ok; eauto using side_item_members).
  - (* new *)
    simpl in H. simpl docs_item. unfold place_new in H. unfold ok_or_nil.
    destruct (new_path d fx match ctx with CFunc => "" | _ => prefix end t n) as [e|[jp jn]] eqn:En; [discriminate|].
    destruct (has_upper jp); [discriminate|].
    destruct (String.prefix (d_private d ++ "/") jp || fx_privjson fx && String.prefix (d_private d ++ "/") jn); [discriminate|].
    destruct (dget jp (jsons st)) as [[m [|]]|] eqn:Eg; try discriminate; [destruct (fx_gendup fx); discriminate|].
    inversion H; subst. simpl. now apply ext_json_fresh.
  - (* add_private_json *)
    simpl in H. simpl docs_item. destruct ctx; try discriminate.
    unfold side_item in S. simpl in S. apply andb_true_iff in S as [_ S]. rewrite orb_false_r in S.
    eapply gen_insert_ok; eauto.
  - simpl in H. simpl docs_item. destruct ctx; try discriminate.
    unfold side_item in S. simpl in S. apply andb_true_iff in S as [_ S]. rewrite orb_false_r in S.
    eapply gen_insert_ok; eauto.
  - (* expansion of a @lazy call *)
    simpl in H. simpl docs_item. destruct ctx; try discriminate;
      (rewrite go_place in H; rewrite go_docs; eapply list_ok; eauto using side_item_at).
Qed.

Lemma side_forall fx prog : side fx prog = true -> forallb (side_item fx) prog = true.
Proof.
  unfold side. intros H. apply andb_true_iff in H as [H1 H2]. apply forallb_forall. intros x Hx. apply andb_true_iff. split.
  - apply orb_true_iff in H1 as [->|H1]; [reflexivity|]. rewrite forallb_forall in H1. rewrite (H1 _ Hx). apply orb_true_r.
  - apply orb_true_iff in H2 as [->|H2]; [reflexivity|]. rewrite forallb_forall in H2. rewrite (H2 _ Hx). apply orb_true_r.
Qed.

(* the placed definitions are exactly the documented ones, and no two share a path *)
Theorem place_exact d fx prog st :
  place d fx prog = inr st -> side fx prog = true ->
  (forall x, In x (placed st) <-> In x (docs d fx prog)) /\ ukeys st.
Proof.
  unfold place, docs. intros H S.
  assert (U0 : ukeys (mkDS [] [])) by (split; constructor).
  pose proof (list_ok d fx prog (proj2 (Forall_forall _ _) (fun x _ => place_item_ok d fx x)) _ _ _ _ H (side_forall _ _ S) U0) as X.
  split; [|exact (e_uk _ _ _ X U0)]. intros x. rewrite (e_in _ _ _ X). simpl. tauto.
Qed.

Lemma ukeys_functional st j p m1 m2 : ukeys st -> In (j, p, m1) (placed st) -> In (j, p, m2) (placed st) -> m1 = m2.
Proof.
  intros [U1 U2] H1 H2. destruct j.
  - apply placed_in_json in H1 as [u1 H1]. apply placed_in_json in H2 as [u2 H2].
    clear U1. induction (jsons st) as [|[k v] r IH]; [contradiction|]. simpl in U2. inversion U2; subst.
    destruct H1 as [H1|H1], H2 as [H2|H2].
    + congruence.
    + inversion H1; subst. exfalso. apply H3. change p with (fst (p, (m2, u2))). now apply in_map.
    + inversion H2; subst. exfalso. apply H3. change p with (fst (p, (m1, u1))). now apply in_map.
    + auto.
  - apply placed_in_fun in H1. apply placed_in_fun in H2.
    clear U2. induction (funs st) as [|[k v] r IH]; [contradiction|]. simpl in U1. inversion U1; subst.
    destruct H1 as [H1|H1], H2 as [H2|H2].
    + congruence.
    + inversion H1; subst. exfalso. apply H3. change p with (fst (p, m2)). now apply in_map.
    + inversion H2; subst. exfalso. apply H3. change p with (fst (p, m1)). now apply in_map.
    + auto.
Qed.

(* ------------------------------------------------------------------ repaired behaviour never ends in an internal error *)
Definition not_crash (r : derr + dstate) : Prop := r <> inl DCrash.

Lemma crash_free d fx : fx_gendup fx = true ->
  forall it prefix ctx st, not_crash (place_item d fx prefix ctx it st).
Proof.
  intros G. induction it as [name mk inner IHin|name ms IHms|t n mk|t n mk|t n mk|pre inner IHat] using item_ind'; intros prefix ctx st.
  - simpl. unfold bindd, conv_d. destruct (convention (fx_strict fx) true "" name); [intros H; discriminate|].
    destruct (check_func d (prefix ++ s) st) eqn:Ck.
    + unfold check_func in Ck. intros H. inversion H; subst.
      destruct (String.prefix _ _); [discriminate|]. destruct (String.eqb _ _); [discriminate|].
      destruct (dmem _ _); [discriminate|]. destruct (String.eqb _ _); discriminate.
    + rewrite go_place.
      assert (L : forall l s0, Forall (fun it => forall prefix ctx st, not_crash (place_item d fx prefix ctx it st)) l ->
                               not_crash (place_list d fx prefix CFunc l s0)).
      { induction l as [|x r IHl]; intros s0 F; simpl; [intros H; discriminate|].
        inversion F; subst. destruct (place_item d fx prefix CFunc x s0) eqn:E.
        - intros H. apply (H1 prefix CFunc s0). rewrite E. congruence.
        - now apply IHl. }
      specialize (L inner st IHin). destruct (place_list d fx prefix CFunc inner st); [exact L|].
      destruct (fx_nested fx && dmem (prefix ++ s) (funs d0)); intros H; discriminate.
  - simpl. destruct ctx; try (intros H; discriminate);
      (unfold bindd, conv_d; destruct (convention (fx_strict fx) true "" name); [intros H; discriminate|]; rewrite go_place;
       generalize st; induction ms as [|x r IHl]; intros s0; simpl; [intros H; discriminate|];
       inversion IHms; subst; destruct (place_item d fx _ CClass x s0) eqn:E;
       [intros H; apply (H1 (prefix ++ s ++ "/") CClass s0); rewrite E; congruence|now apply IHl]).
  - simpl. unfold place_new. destruct (new_path d fx _ t n) as [e|[jp jn]] eqn:En.
    + unfold new_path, conv_d in En. intros H. inversion H; subst.
      destruct (convention (fx_strict fx) false "" t); [discriminate|]. destruct (norm_type d s); [|discriminate].
      destruct (convention (fx_strict fx) false "" n); [discriminate|].
      destruct (split_first ch_slash _) as [f [r|]]; destruct (mem_str f (d_overrides d)); discriminate.
    + destruct (has_upper jp); [intros H; discriminate|]. destruct (_ || _); [intros H; discriminate|].
      destruct (dget jp (jsons st)) as [[m [|]]|]; try (intros H; discriminate). rewrite G. intros H; discriminate.
  - simpl. destruct ctx; try (intros H; discriminate). unfold gen_insert.
    destruct (dget _ _) as [[m u]|]; [destruct (_ && _)|]; intros H; discriminate.
  - simpl. destruct ctx; try (intros H; discriminate). unfold gen_insert.
    destruct (dget _ _) as [[m u]|]; [destruct (_ && _)|]; intros H; discriminate.
  - simpl. destruct ctx; try (intros H; discriminate);
      (rewrite go_place; generalize st; induction inner as [|x r IHl]; intros s0; simpl; [intros H; discriminate|];
       inversion IHat; subst; destruct (place_item d fx pre CFunc x s0) eqn:E;
       [intros H; apply (H1 pre CFunc s0); rewrite E; congruence|now apply IHl]).
Qed.

Lemma place_crash_free d fx prog : fx_gendup fx = true -> place d fx prog <> inl DCrash.
Proof.
  intros G. unfold place. generalize (mkDS [] []). induction prog as [|x r IH]; intros s0; simpl; [discriminate|].
  destruct (place_item d fx "" CTop x s0) eqn:E; [|apply IH].
  intros H. apply (crash_free d fx G x "" CTop s0). rewrite E. congruence.
Qed.
