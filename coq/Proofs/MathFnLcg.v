(* Proofs.MathFnLcg — arithmetic of the generator and rejection test of math_random
   (pure arithmetic on Z; no Minecraft semantics here).  Property C20.
   1. what `tmp = result - result % bound + bound; matches ..0` really tests (with wrap-around);
   2. every seed reaches an accepted seed: the 2^29-fold iterate of the generator is
      x -> x -/+ 2^30 (mod 2^32), so four of them visit all four quarters of int32. *)
From Coq Require Import ZArith Lia List Bool.
From JMCV Require Import Base.Int32 Model.MathFn.
Import ListNotations.
Open Scope Z_scope.

Lemma wrap_shift x k : in_int32 (x + k * 4294967296) -> wrap x = x + k * 4294967296.
Proof. intros H. rewrite (wrap_eq_of_congr x _ k eq_refl). now apply wrap_id. Qed.

Lemma wrap_add_both x y : wrap (wrap x + wrap y) = wrap (x + y).
Proof. now rewrite wrap_add_l, wrap_add_r. Qed.

Lemma wrap_mul_r x y : wrap (x * wrap y) = wrap (x * y).
Proof. rewrite (Z.mul_comm x), wrap_mul_l. f_equal; lia. Qed.

(* ------------------------------------------------------------------ the rejection test *)
(* the value of __math__.tmp when the test is made, for fresh seed s and bound b *)
Definition tmp_of (b s : Z) : Z := wrap (wrap (s - wrap (s mod b)) + b).

Lemma tmp_of_eq b s : 1 <= b <= INT_MAX -> tmp_of b s = wrap (s - s mod b + b).
Proof.
  intros Hb. unfold tmp_of. pose proof (Z.mod_pos_bound s b ltac:(lia)) as Hr.
  rewrite (wrap_id (s mod b)) by (unfold in_int32, INT_MIN, INT_MAX in *; lia).
  now rewrite wrap_add_l.
Qed.

(* accepted seed: tmp is the (positive) start of the next block *)
Lemma tmp_acc b s : 1 <= b <= INT_MAX -> lcg_acc b s -> tmp_of b s = s - s mod b + b /\ 0 < tmp_of b s.
Proof.
  intros Hb [H0 H1]. rewrite tmp_of_eq by exact Hb.
  pose proof (Z.mod_pos_bound s b ltac:(lia)) as Hr.
  assert (Hle : s mod b <= s) by (apply Z.mod_le; lia).
  rewrite wrap_id by (unfold in_int32, INT_MIN, INT_MAX in *; lia). lia.
Qed.

(* rejected seed: negative, or in the last incomplete block (the sum wraps around) *)
Lemma tmp_rej b s : 1 <= b <= INT_MAX -> in_int32 s -> ~ lcg_acc b s -> tmp_of b s <= 0.
Proof.
  intros Hb Hs Hn. rewrite tmp_of_eq by exact Hb. unfold lcg_acc in Hn.
  pose proof (Z.mod_pos_bound s b ltac:(lia)) as Hr.
  pose proof (Z.div_mod s b ltac:(lia)) as Hdm.
  unfold in_int32, INT_MIN, INT_MAX in *.
  destruct (Z_lt_le_dec s 0) as [Hneg|Hpos].
  - (* s < 0: s - r + b = b * (s/b + 1) <= 0, and it is in range *)
    assert (Hq : s / b <= -1).
    { assert (s / b < 0) by (apply Z.div_lt_upper_bound; lia). lia. }
    assert (s - s mod b + b <= 0) by nia.
    rewrite wrap_id by (unfold in_int32, INT_MIN, INT_MAX; lia). lia.
  - assert (Hov : 2147483647 < s - s mod b + b) by lia.
    assert (Hle : s mod b <= s) by (apply Z.mod_le; lia).
    rewrite (wrap_shift _ (-1)) by (unfold in_int32, INT_MIN, INT_MAX; lia). lia.
Qed.

(* seeds in the first quarter are accepted for every bound *)
Lemma acc_small b v : 1 <= b <= INT_MAX -> 0 <= v < 1073741824 -> lcg_acc b v.
Proof.
  intros Hb Hv. unfold lcg_acc, INT_MAX in *. split; [lia|].
  pose proof (Z.mod_pos_bound v b ltac:(lia)) as Hr.
  destruct (Z_le_gt_dec b 1073741824); [lia|].
  rewrite Z.mod_small by lia. lia.
Qed.

(* ------------------------------------------------------------------ affine maps mod 2^32 *)
Definition aff (A C x : Z) : Z := wrap (A * x + C).

Lemma lcg_aff x : lcg x = aff LCG_A LCG_C x.
Proof. unfold lcg, aff. rewrite wrap_add_l. f_equal. lia. Qed.

Lemma aff_comp A C A' C' x : aff A C (aff A' C' x) = aff (wrap (A * A')) (wrap (A * C' + C)) x.
Proof.
  unfold aff.
  rewrite <- (wrap_add_l (A * wrap (A' * x + C'))), wrap_mul_r, wrap_add_l.
  rewrite <- (wrap_add_both (wrap (A * A') * x)), wrap_mul_l, wrap_wrap, wrap_add_both.
  f_equal. lia.
Qed.

(* coefficients of the 2^m-fold iterate, by repeated squaring *)
Fixpoint coef (m : nat) : Z * Z :=
  match m with
  | O => (LCG_A, LCG_C)
  | S m' => let '(A, C) := coef m' in (wrap (A * A), wrap (A * C + C))
  end.
Fixpoint p2 (m : nat) : positive := match m with O => xH | S m' => xO (p2 m') end.

Lemma iter_p2 m : forall x, Pos.iter lcg x (p2 m) = aff (fst (coef m)) (snd (coef m)) x.
Proof.
  induction m as [|m IH]; intros x.
  - cbn. apply lcg_aff.
  - cbn [p2 Pos.iter coef]. rewrite !IH. destruct (coef m) as [A C]. cbn [fst snd].
    apply aff_comp.
Qed.

Definition G : positive := p2 29.
Definition jump (x : Z) : Z := aff (-2147483647) (-1073741824) x.

Lemma iter_G x : Pos.iter lcg x G = jump x.
Proof.
  unfold G. rewrite iter_p2.
  replace (coef 29) with (-2147483647, -1073741824) by (vm_compute; reflexivity).
  reflexivity.
Qed.

Lemma jump_even x : Z.even x = true -> jump x = wrap (x - 1073741824).
Proof.
  intros H. apply Z.even_spec in H. destruct H as [k ->]. unfold jump, aff.
  apply (wrap_eq_of_congr _ _ k). lia.
Qed.
Lemma jump_odd x : Z.even x = false -> jump x = wrap (x + 1073741824).
Proof.
  intros H. rewrite <- Z.negb_odd in H. apply negb_false_iff, Z.odd_spec in H.
  destruct H as [k ->]. unfold jump, aff.
  apply (wrap_eq_of_congr _ _ (k + 1)). lia.
Qed.

Lemma wrap_even x : Z.even (wrap x) = Z.even x.
Proof.
  destruct (wrap_congr x) as [k ->].
  replace (x + k * 4294967296) with (x + 2 * (k * 2147483648)) by lia.
  now rewrite Z.even_add_mul_2.
Qed.

Definition small (v : Z) : Prop := 0 <= v < 1073741824.

(* one of x, jump x, jump^2 x, jump^3 x lies in the first quarter *)
Lemma jump_hits x : in_int32 x ->
  small x \/ small (jump x) \/ small (jump (jump x)) \/ small (jump (jump (jump x))).
Proof.
  intros Hx. unfold in_int32, INT_MIN, INT_MAX in Hx.
  destruct (Z.even x) eqn:E.
  - assert (E1 : jump x = wrap (x - 1073741824)) by (apply jump_even; exact E).
    assert (Ev1 : Z.even (jump x) = true).
    { rewrite E1, wrap_even. replace (x - 1073741824) with (x + 2 * (-536870912)) by lia.
      now rewrite Z.even_add_mul_2. }
    assert (E2 : jump (jump x) = wrap (x - 2147483648)).
    { rewrite (jump_even _ Ev1), E1, wrap_sub_l. f_equal. lia. }
    assert (Ev2 : Z.even (jump (jump x)) = true).
    { rewrite E2, wrap_even. replace (x - 2147483648) with (x + 2 * (-1073741824)) by lia.
      now rewrite Z.even_add_mul_2. }
    assert (E3 : jump (jump (jump x)) = wrap (x - 3221225472)).
    { rewrite (jump_even _ Ev2), E2, wrap_sub_l. f_equal. lia. }
    rewrite E3, E2, E1. unfold small.
    destruct (Z_lt_le_dec x (-1073741824)).
    { right; right; left. rewrite (wrap_shift _ 1) by (unfold in_int32, INT_MIN, INT_MAX; lia). lia. }
    destruct (Z_lt_le_dec x 0).
    { right; right; right. rewrite (wrap_shift _ 1) by (unfold in_int32, INT_MIN, INT_MAX; lia). lia. }
    destruct (Z_lt_le_dec x 1073741824).
    { left. lia. }
    right; left. rewrite (wrap_shift _ 0) by (unfold in_int32, INT_MIN, INT_MAX; lia). lia.
  - assert (E1 : jump x = wrap (x + 1073741824)) by (apply jump_odd; exact E).
    assert (Ev1 : Z.even (jump x) = false).
    { rewrite E1, wrap_even. replace (x + 1073741824) with (x + 2 * 536870912) by lia.
      now rewrite Z.even_add_mul_2. }
    assert (E2 : jump (jump x) = wrap (x + 2147483648)).
    { rewrite (jump_odd _ Ev1), E1, wrap_add_l. f_equal. lia. }
    assert (Ev2 : Z.even (jump (jump x)) = false).
    { rewrite E2, wrap_even. replace (x + 2147483648) with (x + 2 * 1073741824) by lia.
      now rewrite Z.even_add_mul_2. }
    assert (E3 : jump (jump (jump x)) = wrap (x + 3221225472)).
    { rewrite (jump_odd _ Ev2), E2, wrap_add_l. f_equal. lia. }
    rewrite E3, E2, E1. unfold small.
    destruct (Z_lt_le_dec x (-1073741824)).
    { right; right; left. rewrite (wrap_shift _ 0) by (unfold in_int32, INT_MIN, INT_MAX; lia). lia. }
    destruct (Z_lt_le_dec x 0).
    { right; left. rewrite (wrap_shift _ 0) by (unfold in_int32, INT_MIN, INT_MAX; lia). lia. }
    destruct (Z_lt_le_dec x 1073741824).
    { left. lia. }
    right; right; right. rewrite (wrap_shift _ (-1)) by (unfold in_int32, INT_MIN, INT_MAX; lia). lia.
Qed.

(* ------------------------------------------------------------------ every seed reaches an accepted one *)
Lemma reaches_iter b p : forall x, lcg_reaches b (Pos.iter lcg x p) -> lcg_reaches b x.
Proof.
  induction p as [|p IH] using Pos.peano_ind; intros x H.
  - cbn in H. now apply lr_later.
  - rewrite Pos.iter_succ in H. apply IH. now apply lr_later.
Qed.

Lemma acc_iter b p : forall x, lcg_acc b (Pos.iter lcg x p) -> lcg_reaches b x.
Proof.
  destruct p as [|p _] using Pos.peano_ind; intros x H.
  - cbn in H. now apply lr_now.
  - rewrite Pos.iter_succ in H. eapply reaches_iter. apply lr_now. exact H.
Qed.

Lemma lcg_in_range s : in_int32 (lcg s).
Proof. apply wrap_range. Qed.

Theorem lcg_always_reaches b s : 1 <= b <= INT_MAX -> lcg_reaches b s.
Proof.
  intros Hb. set (x1 := lcg s).
  destruct (jump_hits x1 (lcg_in_range s)) as [H|[H|[H|H]]]; apply (acc_small b _ Hb) in H.
  - now apply lr_now.
  - apply lr_later. fold x1. apply (acc_iter b G). now rewrite iter_G.
  - apply lr_later. fold x1. apply (reaches_iter b G). rewrite iter_G.
    apply (acc_iter b G). now rewrite iter_G.
  - apply lr_later. fold x1. apply (reaches_iter b G). rewrite iter_G.
    apply (reaches_iter b G). rewrite iter_G.
    apply (acc_iter b G). now rewrite iter_G.
Qed.
