(* Proofs.ExprOps — tree_to_operations on the trees of the arithmetic fragment (variables — also the
   target — at the leaves, operators + - * / %, the constant -1 of the `E1 - E2` rewrite): the
   operation list computes the value of the tree into the returned temporary and never touches a
   live temporary or a user variable (tto_general: no injection, or the target does not occur);
   when the target occurs once, on the leftmost path, it is read once, before it is written
   (tto_spine). *)
From Coq Require Import ZArith String List Bool Lia.
From JMCV Require Import Base.Int32 Base.Dec MC.Syntax Model.Names Model.VarOp Model.Expr Model.ExprSpec
     Model.ExprFront Model.ExprBack Proofs.ExprLower.
Import ListNotations.
Open Scope Z_scope.

Definition arith_opc (o : opc) : bool :=
  match o with PAdd | PSub | PMul | PDiv | PMod => true | _ => false end.
(* operators of emitted triples: also the plain assignment *)
Definition arith_opc_e (o : opc) : bool :=
  match o with PPow => false | _ => true end.

(* a 32-bit constant *)
Definition cnum (n : num) : bool := match n with NConst z => in_int32b z | _ => false end.

Fixpoint gtree (t : num) : bool :=
  match t with
  | NVar _ => true
  | NExpr c o l r => opc_eqb c o && arith_opc o && gtree l && (gtree r || (is_expr l && cnum r))
  | _ => false
  end.

Fixpoint tvars (t : num) : list score :=
  match t with
  | NVar s => [s]
  | NExpr _ _ l r => tvars l ++ tvars r
  | _ => []
  end.

Fixpoint teval (f : score -> Z) (t : num) : Z :=
  match t with
  | NVar s => f s
  | NConst z => z
  | NTemp _ => 0
  | NExpr _ o l r => op_sem o (teval f l) (teval f r)
  end.

Lemma teval_ext f g t : (forall s, In s (tvars t) -> f s = g s) -> teval f t = teval g t.
Proof.
  induction t as [z|s|i|c o l IHl r IHr]; intros H; cbn [teval]; try reflexivity.
  - apply H. now left.
  - rewrite IHl, IHr; [reflexivity| |]; intros s Hs; apply H; cbn [tvars]; apply in_or_app; auto.
Qed.

(* ---- renaming of temporaries into scores *)
Definition ren_var (rho : nat -> score) (n : num) : score :=
  match n with NTemp k => rho k | NVar s => s | _ => (EmptyString, EmptyString) end.
Definition ren_num (rho : nat -> score) (n : num) : onum :=
  match n with NTemp k => CVar (rho k) | NVar s => CVar s | NConst z => CConst z | NExpr _ _ _ _ => CConst 0 end.
Definition ren_op (rho : nat -> score) (o : oper) : oper2 :=
  (ren_var rho (fst (fst o)), snd (fst o), ren_num rho (snd o)).

Lemma interp_ops_app l1 l2 f : interp_ops (l1 ++ l2) f = interp_ops l2 (interp_ops l1 f).
Proof. unfold interp_ops. apply fold_left_app. Qed.

(* ---- allocator invariants *)
Definition Inv (st : tstate) : Prop :=
  NoDup (t_free st) /\ (forall k, In k (t_free st) -> (1 <= k <= t_max st)%nat).
(* temporaries an evaluation started in st may write *)
Definition avail (st : tstate) (k : nat) : Prop := In k (t_free st) \/ (t_max st < k)%nat.

Lemma insort_in i l x : In x (insort i l) <-> x = i \/ In x l.
Proof.
  induction l as [|j r IH]; cbn [insort]; [cbn; intuition congruence|].
  destruct (Nat.ltb i j); cbn [In]; [intuition congruence|]. rewrite IH. intuition congruence.
Qed.
Lemma insort_nodup i l : ~ In i l -> NoDup l -> NoDup (insort i l).
Proof.
  induction l as [|j r IH]; intros Hn Hd; cbn [insort]; [constructor; [intros []|constructor]|].
  destruct (Nat.ltb i j); [constructor; assumption|].
  inversion Hd as [|? ? Hj Hr]; subst. constructor.
  - rewrite insort_in. intros [->|H]; [apply Hn; now left|contradiction].
  - apply IH; [intros H; apply Hn; now right|assumption].
Qed.

Lemma avail_ge1 st k : Inv st -> avail st k -> (1 <= k)%nat.
Proof. intros [_ H] [Hk|Hk]; [apply H in Hk|]; lia. Qed.

Lemma new_variable_spec st k st' :
  Inv st -> new_variable st = (k, st') ->
  avail st k /\ (k <= t_max st')%nat /\ Inv st' /\ ~ In k (t_free st') /\
  (t_max st <= t_max st')%nat /\ (forall j, In j (t_free st') -> In j (t_free st)) /\
  t_ops st' = t_ops st /\ t_out st' = t_out st /\
  (forall j, avail st' j -> avail st j) /\ (forall j, avail st j -> j = k \/ avail st' j).
Proof.
  intros [Hd Hb]. unfold new_variable, fresh_variable. destruct (t_free st) as [|i fr] eqn:E.
  - intros [= <- <-]. cbn [t_max t_free t_ops t_out]. unfold avail, Inv. rewrite E. cbn [t_max t_free].
    repeat apply conj.
    + right. lia.
    + lia.
    + constructor.
    + intros j [].
    + intros [].
    + lia.
    + intros j [].
    + reflexivity.
    + reflexivity.
    + intros j [[]|Hj]. right. lia.
    + intros j [[]|Hj]. destruct (Nat.eq_dec j (S (t_max st))); [now left|right; right; lia].
  - intros [= <- <-]. cbn [t_max t_free t_ops t_out]. unfold avail, Inv. rewrite E. cbn [t_max t_free].
    inversion Hd as [|? ? Hi Hfr]; subst.
    assert (Hbi := Hb i (or_introl eq_refl)).
    repeat apply conj.
    + left. now left.
    + lia.
    + assumption.
    + intros j Hj. apply Hb. now right.
    + assumption.
    + lia.
    + intros j Hj. now right.
    + reflexivity.
    + reflexivity.
    + intros j [Hj|Hj]; [left; now right|now right].
    + intros j [[->|Hj]|Hj]; [now left|right; now left|right; now right].
Qed.

Lemma free_var_spec st j :
  Inv st -> ~ In j (t_free st) -> (1 <= j <= t_max st)%nat ->
  Inv (free_var j st) /\ (forall x, In x (t_free (free_var j st)) <-> x = j \/ In x (t_free st)).
Proof.
  intros [Hd Hb] Hn Hj. unfold free_var, Inv. cbn [t_free t_max]. split; [split|].
  - now apply insort_nodup.
  - intros k Hk. apply insort_in in Hk. destruct Hk as [->|Hk]; auto.
  - intros x. apply insort_in.
Qed.

Lemma bind_ok_nil {A B} (a : A) (f : A -> M B) : bind (Ok a, []) f = f a.
Proof. unfold bind. cbn. destruct (f a). reflexivity. Qed.

Definition rho_ok (rho : nat -> score) (vars : list score) : Prop :=
  (forall k k', (1 <= k)%nat -> (1 <= k')%nat -> rho k = rho k' -> k = k') /\
  (forall s k, In s vars -> (1 <= k)%nat -> s <> rho k).

Definition res_post (first : bool) (node res : num) (st st' : tstate) : Prop :=
  match node with
  | NExpr _ _ _ _ =>
      exists k, res = NTemp k /\ avail st k /\ (k <= t_max st')%nat /\ ~ In k (t_free st') /\
                t_out st' = (if first then Some k else t_out st)
  | _ => res = node /\ st' = st
  end.

(* the temporaries an evaluation from st to st' may write: available in st, created up to st' *)
Definition sem_post (node res : num) (st st' : tstate) (new : list oper) : Prop :=
  forall rho f, rho_ok rho (tvars node) ->
    (forall s, (forall k, avail st k -> (k <= t_max st')%nat -> s <> rho k) ->
               interp_ops (map (ren_op rho) new) f s = f s) /\
    numval (interp_ops (map (ren_op rho) new) f) (ren_num rho res) = teval f node.

(* every emitted triple has a temporary on the left and a variable / temporary / constant on the right *)
Definition is_vt (n : num) : bool := match n with NVar _ | NTemp _ => true | NConst z => in_int32b z | _ => false end.
Definition is_temp (n : num) : bool := match n with NTemp _ => true | _ => false end.
Definition op_shape (o : oper) : bool :=
  is_temp (fst (fst o)) && is_vt (snd o) && arith_opc_e (snd (fst o)).

Definition tto_post (cj : bool) (out : score) (node : num) (first : bool) (st : tstate) : Prop :=
  exists res st' new,
    tto out cj node first st = (Ok (res, st'), []) /\
    t_ops st' = rev new ++ t_ops st /\ Inv st' /\ (t_max st <= t_max st')%nat /\
    (forall k, In k (t_free st') -> avail st k) /\
    res_post first node res st st' /\ sem_post node res st st' new /\ forallb op_shape new = true.

Lemma avail_mono st st' : (t_max st <= t_max st')%nat -> (forall k, In k (t_free st') -> avail st k) ->
  forall k, avail st' k -> avail st k.
Proof. intros Hm Hf k [Hk|Hk]; [now apply Hf|right; lia]. Qed.

Lemma rho_ok_sub rho v1 v2 : (forall s, In s v2 -> In s v1) -> rho_ok rho v1 -> rho_ok rho v2.
Proof. intros Hs [H1 H2]. split; [exact H1|]. intros s k Hin. apply H2. now apply Hs. Qed.

Lemma rho_ok_l rho c o l r : rho_ok rho (tvars (NExpr c o l r)) -> rho_ok rho (tvars l).
Proof. apply rho_ok_sub. intros s Hs. cbn [tvars]. apply in_or_app. now left. Qed.
Lemma rho_ok_r rho c o l r : rho_ok rho (tvars (NExpr c o l r)) -> rho_ok rho (tvars r).
Proof. apply rho_ok_sub. intros s Hs. cbn [tvars]. apply in_or_app. now right. Qed.

(* the result of the right operand *)
Lemma res_cases r resr st1 st2 :
  (gtree r || cnum r) = true -> res_post false r resr st1 st2 ->
  (exists s', r = NVar s' /\ resr = NVar s' /\ st2 = st1) \/
  (exists z, r = NConst z /\ resr = NConst z /\ st2 = st1) \/
  (is_expr r = true /\ exists j, resr = NTemp j /\ avail st1 j /\ (j <= t_max st2)%nat /\ ~ In j (t_free st2) /\
             t_out st2 = t_out st1).
Proof.
  destruct r; cbn [gtree cnum res_post orb]; try discriminate; intros _ H.
  - right. left. destruct H as [-> ->]. eauto.
  - left. destruct H as [-> ->]. eauto.
  - right. right. split; [reflexivity|exact H].
Qed.

Lemma interp_one_other f o s : o_var o <> s -> interp_one f o s = f s.
Proof. intros H. unfold interp_one. now rewrite score_eqb_neq. Qed.
Lemma interp_one_same f o : interp_one f o (o_var o) = op_sem (o_op o) (f (o_var o)) (numval f (o_num o)).
Proof. unfold interp_one. now rewrite score_eqb_refl. Qed.

Lemma map_ren_app rho (a b : list oper) : map (ren_op rho) (a ++ b) = map (ren_op rho) a ++ map (ren_op rho) b.
Proof. apply map_app. Qed.

Ltac post_split := refine (conj _ (conj _ (conj _ (conj _ (conj _ (conj _ (conj _ _))))))).

Lemma tto_expr out can_inject content oper l r first st :
  tto out can_inject (NExpr content oper l r) first st =
  ('(lv, st1) <- tto out can_inject l false st ;;
   '(rv, st2) <- tto out can_inject r false st1 ;;
   match lv with
   | NTemp i =>
       let st3 := if first then set_out i st2 else st2 in
       let st4 := free_if_temp rv st3 in
       if opc_eqb content PPow then pow_ops lv rv st4
       else ret (lv, push (lv, oper, rv) st4)
   | _ =>
       match lv, rv with
       | NConst a, NConst b =>
           v <- fold_node content a b ;;
           if first then
             let '(k, st3) := new_variable st2 in
             ret (NConst v, push (NTemp k, PEmpty, NConst v) (set_out k st3))
           else ret (NConst v, st2)
       | _, _ =>
           let copy := negb can_inject || differs_from_output out lv in
           let '(k, st3) := if copy then new_variable st2 else fresh_variable st2 in
           let st4 := if first then set_out k st3 else st3 in
           let st5 := free_if_temp rv st4 in
           let st6 := if copy then push (NTemp k, PEmpty, lv) st5 else st5 in
           if opc_eqb content PPow then pow_ops (NTemp k) rv st6
           else ret (NTemp k, push (NTemp k, oper, rv) st6)
       end
   end).
Proof. reflexivity. Qed.

Lemma tto_nonexpr out cj n first st : is_expr n = false -> tto out cj n first st = (Ok (n, st), []).
Proof. destruct n; cbn; try discriminate; reflexivity. Qed.

Lemma arith_not_pow o : arith_opc o = true -> opc_eqb o PPow = false.
Proof. destruct o; cbn; congruence. Qed.

(* the subtree is evaluated with a copy of its leftmost leaf: no injection, or the target does not occur *)
Definition copying (cj : bool) (out : score) (t : num) : Prop := cj = false \/ count_out out t = O.

Lemma copying_l cj out c o l r : copying cj out (NExpr c o l r) -> copying cj out l.
Proof. intros [H|H]; [now left|right]. cbn [count_out] in H. lia. Qed.
Lemma copying_r cj out c o l r : copying cj out (NExpr c o l r) -> copying cj out r.
Proof. intros [H|H]; [now left|right]. cbn [count_out] in H. lia. Qed.
Lemma copying_leaf cj out s : copying cj out (NVar s) -> negb cj || differs_from_output out (NVar s) = true.
Proof.
  intros [->|H]; [reflexivity|]. cbn [count_out differs_from_output] in *.
  destruct (score_eqb s out); [discriminate|]. now rewrite orb_true_r.
Qed.

Lemma tto_general out cj node :
  gtree node = true -> copying cj out node -> forall ft st, Inv st -> tto_post cj out node ft st.
Proof.
  induction node as [z|s|i|c o l IHl r IHr]; cbn [gtree]; try discriminate.
  - (* leaf *)
    intros _ _ ft st HI. exists (NVar s), st, []. cbn [rev app].
    post_split; auto.
    + intros k Hk. now left.
    + split; reflexivity.
    + intros rho f Hr. split; [intros; reflexivity|reflexivity].
  - (* operation *)
    intros Hc Hcp ft st HI.
    apply andb_true_iff in Hc. destruct Hc as [Hc Hcr]. apply andb_true_iff in Hc. destruct Hc as [Hc Hcl].
    apply andb_true_iff in Hc. destruct Hc as [Hco Har].
    assert (c = o) as -> by (destruct c, o; cbn in Hco; congruence).
    pose proof (arith_not_pow o Har) as Hpow.
    assert (Hare : arith_opc_e o = true) by (destruct o; cbn in Har |- *; congruence).
    destruct (IHl Hcl (copying_l _ _ _ _ _ _ Hcp) false st HI) as (resl & st1 & newl & El & Ol & I1 & M1 & F1 & Rl & Sl & Shl).
    assert (Hr' : exists resr st2 newr,
               tto out cj r false st1 = (Ok (resr, st2), []) /\
               t_ops st2 = rev newr ++ t_ops st1 /\ Inv st2 /\ (t_max st1 <= t_max st2)%nat /\
               (forall k, In k (t_free st2) -> avail st1 k) /\
               res_post false r resr st1 st2 /\ sem_post r resr st1 st2 newr /\ forallb op_shape newr = true).
    { destruct (gtree r) eqn:Gr.
      - exact (IHr eq_refl (copying_r _ _ _ _ _ _ Hcp) false st1 I1).
      - cbn [orb] in Hcr. apply andb_true_iff in Hcr. destruct Hcr as [_ Hk].
        destruct r as [z| | |]; try discriminate.
        exists (NConst z), st1, []. cbn [rev app]. post_split; auto.
        + intros k Hk'. now left.
        + split; reflexivity.
        + intros rho f Hr. split; [intros; reflexivity|reflexivity]. }
    destruct Hr' as (resr & st2 & newr & Er & Or & I2 & M2 & F2 & Rr & Sr & Shr).
    assert (Hcr' : (gtree r || cnum r) = true).
    { destruct (gtree r); [reflexivity|]. cbn [orb] in Hcr |- *. now apply andb_true_iff in Hcr. }
    pose proof (avail_mono st st1 M1 F1) as A1.
    pose proof (avail_mono st1 st2 M2 F2) as A2.
    pose proof (tto_expr out cj o o l r ft st) as Ht. rewrite El, bind_ok_nil, Er, bind_ok_nil in Ht.
    cbv beta iota zeta in Ht. unfold tto_post.
    destruct l as [zl|sl|il|cl ol ll rl]; cbn [gtree] in Hcl; try discriminate.
    + (* left operand is a variable: a new temporary is initialised with it *)
      destruct Rl as [-> ->]. clear IHl.
      assert (Gr : gtree r = true).
      { destruct (gtree r); [reflexivity|]. cbn in Hcr. discriminate. }
      destruct (new_variable st2) as [k st3] eqn:En.
      destruct (new_variable_spec st2 k st3 I2 En) as (Ak & Kmax & I3 & Kfree & M3 & F3 & O3 & Out3 & A3 & A3').
      pose proof (copying_leaf cj out sl (copying_l _ _ _ _ _ _ Hcp)) as Hsl.
      cbv beta iota zeta in Ht. rewrite Hsl in Ht. cbv beta iota zeta in Ht. rewrite Hpow in Ht.
      destruct (res_cases r resr st st2 Hcr' Rr) as [(s' & -> & -> & ->)|[(z & -> & _)|(_ & j & -> & Aj & Jmax & Jfree & Outj)]];
        [|discriminate Gr|].
      * (* right operand is a variable *)
        cbn [free_if_temp] in Ht.
        exists (NTemp k), (push (NTemp k, o, NVar s') (push (NTemp k, PEmpty, NVar sl) (if ft then set_out k st3 else st3))),
               [(NTemp k, PEmpty, NVar sl); (NTemp k, o, NVar s')].
        clear Er.
        post_split.
        -- exact Ht.
        -- destruct ft; cbn [push set_out t_ops]; rewrite O3; reflexivity.
        -- destruct ft; exact I3.
        -- destruct ft; cbn [push set_out t_max]; lia.
        -- intros x Hx. left. apply F3. destruct ft; exact Hx.
        -- cbn [res_post]. exists k. repeat apply conj; auto.
           ++ destruct ft; cbn [push set_out t_max]; lia.
           ++ destruct ft; exact Kfree.
           ++ destruct ft; cbn [push set_out t_out]; [reflexivity|exact Out3].
        -- intros rho f [Hinj Hdis]. cbn [map]. unfold ren_op. cbn [ren_var ren_num fst snd].
           unfold interp_ops. cbn [fold_left].
           assert (K1 : (1 <= k)%nat) by (exact (avail_ge1 _ _ I2 Ak)).
           assert (Ns : sl <> rho k) by (apply Hdis; [cbn [tvars]; apply in_or_app; left; now left|exact K1]).
           assert (Ns' : s' <> rho k) by (apply Hdis; [cbn [tvars]; apply in_or_app; right; now left|exact K1]).
           split.
           ++ intros s Hs. assert (s <> rho k).
              { apply Hs; [exact Ak|]. destruct ft; cbn [push set_out t_max]; exact Kmax. }
              rewrite !interp_one_other by (cbn; congruence). reflexivity.
           ++ cbn [numval]. rewrite interp_one_same. cbn [o_var o_op o_num fst snd numval].
              rewrite (interp_one_other _ _ s') by (cbn; congruence).
              rewrite interp_one_same. cbn [o_var o_op o_num fst snd numval op_sem teval]. reflexivity.
        -- cbn. rewrite Hare. reflexivity.
      * (* right operand is an operation: its temporary j is released *)
        cbn [free_if_temp] in Ht.
        assert (Jge : (1 <= j)%nat) by (exact (avail_ge1 _ _ HI Aj)).
        assert (Hkj : k <> j).
        { intros ->. destruct Ak as [Hk|Hk]; [contradiction|lia]. }
        set (st4 := if ft then set_out k st3 else st3) in *.
        assert (I4 : Inv st4) by (subst st4; destruct ft; exact I3).
        assert (F4 : t_free st4 = t_free st3) by (subst st4; destruct ft; reflexivity).
        assert (M4 : t_max st4 = t_max st3) by (subst st4; destruct ft; reflexivity).
        assert (O4 : t_ops st4 = t_ops st3) by (subst st4; destruct ft; reflexivity).
        destruct (free_var_spec st4 j I4) as [I5 F5].
        { rewrite F4. intros H. apply Jfree. now apply F3. }
        { rewrite M4. lia. }
        exists (NTemp k), (push (NTemp k, o, NTemp j) (push (NTemp k, PEmpty, NVar sl) (free_var j st4))),
               (newr ++ [(NTemp k, PEmpty, NVar sl); (NTemp k, o, NTemp j)]).
        post_split.
        -- exact Ht.
        -- cbn [push free_var t_ops]. rewrite O4, O3, Or. rewrite rev_app_distr. reflexivity.
        -- exact I5.
        -- cbn [push free_var t_max]. rewrite M4. lia.
        -- intros x Hx. cbn [push t_free] in Hx. apply F5 in Hx. destruct Hx as [->|Hx]; [exact Aj|].
           rewrite F4 in Hx. apply F2. now apply F3.
        -- cbn [res_post]. exists k. repeat apply conj.
           ++ reflexivity.
           ++ now apply A2.
           ++ cbn [push free_var t_max]. rewrite M4. exact Kmax.
           ++ cbn [push t_free]. intros Hx. apply F5 in Hx. destruct Hx as [Hx|Hx]; [contradiction|].
              rewrite F4 in Hx. contradiction.
           ++ cbn [push free_var t_out]. subst st4. destruct ft; cbn [set_out t_out]; [reflexivity|].
              rewrite Out3. exact Outj.
        -- intros rho f Hr. pose proof Hr as [Hinj Hdis].
           destruct (Sr rho f (rho_ok_r _ _ _ _ _ Hr)) as [Fr Vr].
           rewrite map_ren_app, interp_ops_app. set (f2 := interp_ops (map (ren_op rho) newr) f) in *.
           cbn [map]. unfold ren_op. cbn [ren_var ren_num fst snd]. unfold interp_ops. cbn [fold_left].
           assert (K1 : (1 <= k)%nat) by (exact (avail_ge1 _ _ I2 Ak)).
           assert (Ns : sl <> rho k) by (apply Hdis; [cbn [tvars]; apply in_or_app; left; now left|exact K1]).
           assert (Nj : rho k <> rho j) by (intros E; apply Hkj; apply Hinj; auto).
           split.
           ++ intros s Hs. assert (s <> rho k).
              { apply Hs; [now apply A2|]. cbn [push free_var t_max]. rewrite M4. exact Kmax. }
              rewrite !interp_one_other by (cbn; congruence). apply Fr.
              intros k' Ak' Bk'. apply Hs; [exact Ak'|]. cbn [push free_var t_max]. rewrite M4. lia.
           ++ cbn [numval]. rewrite interp_one_same. cbn [o_var o_op o_num fst snd numval].
              rewrite (interp_one_other _ _ (rho j)) by (cbn; congruence).
              rewrite interp_one_same. cbn [o_var o_op o_num fst snd numval op_sem teval].
              cbn [ren_num numval] in Vr. rewrite Vr. f_equal.
              apply Fr. intros k' Hk' _. apply Hdis; [cbn [tvars]; apply in_or_app; left; now left|].
              exact (avail_ge1 _ _ HI Hk').
        -- rewrite forallb_app, Shr. cbn. rewrite Hare. reflexivity.
    + (* left operand is an operation: its temporary receives the result *)
      cbn [res_post] in Rl. destruct Rl as (i & -> & Ai & Imax & Ifree & Outi).
      assert (Ige : (1 <= i)%nat) by (exact (avail_ge1 _ _ HI Ai)).
      assert (NAi : ~ avail st1 i) by (intros [H|H]; [contradiction|lia]).
      cbv beta iota zeta in Ht. rewrite Hpow in Ht.
      set (st3 := if ft then set_out i st2 else st2) in *.
      assert (I3 : Inv st3) by (subst st3; destruct ft; exact I2).
      assert (F3 : t_free st3 = t_free st2) by (subst st3; destruct ft; reflexivity).
      assert (M3 : t_max st3 = t_max st2) by (subst st3; destruct ft; reflexivity).
      assert (O3 : t_ops st3 = t_ops st2) by (subst st3; destruct ft; reflexivity).
      assert (Out3 : t_out st3 = if ft then Some i else t_out st2) by (subst st3; destruct ft; reflexivity).
      destruct (res_cases r resr st1 st2 Hcr' Rr) as [(s' & -> & -> & ->)|[(z & -> & -> & ->)|(_ & j & -> & Aj & Jmax & Jfree & Outj)]].
      * cbn [free_if_temp] in Ht.
        exists (NTemp i), (push (NTemp i, o, NVar s') st3), (newl ++ [(NTemp i, o, NVar s')]).
        clear Er.
        post_split.
        -- exact Ht.
        -- cbn [push t_ops]. rewrite O3, Ol, rev_app_distr. reflexivity.
        -- exact I3.
        -- cbn [push t_max]. rewrite M3. exact M1.
        -- intros x Hx. cbn [push t_free] in Hx. rewrite F3 in Hx. now apply F1.
        -- cbn [res_post]. exists i. repeat apply conj; auto.
           ++ cbn [push t_max]. rewrite M3. exact Imax.
           ++ cbn [push t_free]. rewrite F3. exact Ifree.
           ++ cbn [push t_out]. rewrite Out3. destruct ft; [reflexivity|exact Outi].
        -- intros rho f Hr. pose proof Hr as [Hinj Hdis].
           destruct (Sl rho f (rho_ok_l _ _ _ _ _ Hr)) as [Fl Vl].
           rewrite map_ren_app, interp_ops_app. set (f1 := interp_ops (map (ren_op rho) newl) f) in *.
           cbn [map]. unfold ren_op. cbn [ren_var ren_num fst snd]. unfold interp_ops. cbn [fold_left].
           assert (Ns' : s' <> rho i) by (apply Hdis; [cbn [tvars]; apply in_or_app; right; now left|exact Ige]).
           split.
           ++ intros s Hs. assert (s <> rho i).
              { apply Hs; [exact Ai|]. cbn [push t_max]. rewrite M3. exact Imax. }
              rewrite interp_one_other by (cbn; congruence). apply Fl.
              intros k' Ak' Bk'. apply Hs; [exact Ak'|]. cbn [push t_max]. rewrite M3. exact Bk'.
           ++ cbn [numval]. rewrite interp_one_same. cbn [o_var o_op o_num fst snd numval op_sem teval].
              cbn [ren_num numval] in Vl. rewrite Vl. f_equal.
              apply Fl. intros k' Hk' _. apply Hdis; [cbn [tvars]; apply in_or_app; right; now left|].
              exact (avail_ge1 _ _ HI Hk').
        -- rewrite forallb_app, Shl. cbn. rewrite Hare. reflexivity.
      * (* right operand is a constant *)
        cbn [free_if_temp] in Ht.
        exists (NTemp i), (push (NTemp i, o, NConst z) st3), (newl ++ [(NTemp i, o, NConst z)]).
        clear Er.
        post_split.
        -- exact Ht.
        -- cbn [push t_ops]. rewrite O3, Ol, rev_app_distr. reflexivity.
        -- exact I3.
        -- cbn [push t_max]. rewrite M3. exact M1.
        -- intros x Hx. cbn [push t_free] in Hx. rewrite F3 in Hx. now apply F1.
        -- cbn [res_post]. exists i. repeat apply conj; auto.
           ++ cbn [push t_max]. rewrite M3. exact Imax.
           ++ cbn [push t_free]. rewrite F3. exact Ifree.
           ++ cbn [push t_out]. rewrite Out3. destruct ft; [reflexivity|exact Outi].
        -- intros rho f Hr. pose proof Hr as [Hinj Hdis].
           destruct (Sl rho f (rho_ok_l _ _ _ _ _ Hr)) as [Fl Vl].
           rewrite map_ren_app, interp_ops_app. set (f1 := interp_ops (map (ren_op rho) newl) f) in *.
           cbn [map]. unfold ren_op. cbn [ren_var ren_num fst snd]. unfold interp_ops. cbn [fold_left].
           split.
           ++ intros s Hs. assert (s <> rho i).
              { apply Hs; [exact Ai|]. cbn [push t_max]. rewrite M3. exact Imax. }
              rewrite interp_one_other by (cbn; congruence). apply Fl.
              intros k' Ak' Bk'. apply Hs; [exact Ak'|]. cbn [push t_max]. rewrite M3. exact Bk'.
           ++ cbn [numval]. rewrite interp_one_same. cbn [o_var o_op o_num fst snd numval op_sem teval].
              cbn [ren_num numval] in Vl. rewrite Vl. reflexivity.
        -- assert (Hz : in_int32b z = true) by exact Hcr'.
           rewrite forallb_app, Shl. unfold op_shape. cbn [forallb is_temp is_vt fst snd andb]. now rewrite Hz, Hare.
      * cbn [free_if_temp] in Ht.
        assert (Jge : (1 <= j)%nat) by (exact (avail_ge1 _ _ I1 Aj)).
        assert (Hij : i <> j) by (intros ->; contradiction).
        destruct (free_var_spec st3 j I3) as [I5 F5].
        { rewrite F3. exact Jfree. } { rewrite M3. lia. }
        exists (NTemp i), (push (NTemp i, o, NTemp j) (free_var j st3)), (newl ++ newr ++ [(NTemp i, o, NTemp j)]).
        post_split.
        -- exact Ht.
        -- cbn [push free_var t_ops]. rewrite O3, Or, Ol. rewrite !rev_app_distr. cbn [rev app].
           rewrite <- !app_assoc. reflexivity.
        -- exact I5.
        -- cbn [push free_var t_max]. rewrite M3. lia.
        -- intros x Hx. cbn [push t_free] in Hx. apply F5 in Hx. destruct Hx as [->|Hx]; [now apply A1|].
           rewrite F3 in Hx. apply A1. now apply F2.
        -- cbn [res_post]. exists i. repeat apply conj; auto.
           ++ cbn [push free_var t_max]. rewrite M3. lia.
           ++ cbn [push t_free]. intros Hx. apply F5 in Hx. destruct Hx as [Hx|Hx]; [contradiction|].
              rewrite F3 in Hx. apply NAi. now apply F2.
           ++ cbn [push free_var t_out]. rewrite Out3. destruct ft; [reflexivity|]. rewrite Outj. exact Outi.
        -- intros rho f Hr. pose proof Hr as [Hinj Hdis].
           destruct (Sl rho f (rho_ok_l _ _ _ _ _ Hr)) as [Fl Vl].
           rewrite !map_ren_app, !interp_ops_app. set (f1 := interp_ops (map (ren_op rho) newl) f) in *.
           destruct (Sr rho f1 (rho_ok_r _ _ _ _ _ Hr)) as [Fr Vr].
           set (f2 := interp_ops (map (ren_op rho) newr) f1) in *.
           cbn [map]. unfold ren_op. cbn [ren_var ren_num fst snd]. unfold interp_ops. cbn [fold_left].
           assert (Nj : rho i <> rho j) by (intros E; apply Hij; apply Hinj; auto).
           split.
           ++ intros s Hs. assert (s <> rho i).
              { apply Hs; [exact Ai|]. cbn [push free_var t_max]. rewrite M3. lia. }
              rewrite interp_one_other by (cbn; congruence).
              unfold f2. rewrite Fr.
              ** apply Fl. intros k' Ak' Bk'. apply Hs; [exact Ak'|]. cbn [push free_var t_max]. rewrite M3. lia.
              ** intros k' Ak' Bk'. apply Hs; [now apply A1|]. cbn [push free_var t_max]. rewrite M3. exact Bk'.
           ++ cbn [numval]. rewrite interp_one_same. cbn [o_var o_op o_num fst snd numval op_sem teval].
              cbn [ren_num numval] in Vl, Vr. rewrite Vr.
              assert (E2 : f2 (rho i) = f1 (rho i)).
              { apply Fr. intros k' Hk' _ E. apply Hinj in E; [subst k'; contradiction|exact Ige|exact (avail_ge1 _ _ I1 Hk')]. }
              rewrite E2, Vl. f_equal.
              apply teval_ext. intros s Hs. apply Fl. intros k' Hk' _.
              apply Hdis; [cbn [tvars]; apply in_or_app; now right|exact (avail_ge1 _ _ HI Hk')].
        -- rewrite !forallb_app, Shl, Shr. cbn. rewrite Hare. reflexivity.
Qed.

(* ------------------------------------------------------------------ the target on the leftmost path *)
(* the target is the leftmost leaf of the tree and occurs nowhere else: what search_for_output_in_tree
   arranges when it allows the injection of a target that occurs once *)
Fixpoint spine (out : score) (t : num) : bool :=
  match t with
  | NExpr c o l r =>
      opc_eqb c o && arith_opc o &&
      match l with
      | NVar s => score_eqb s out && gtree r
      | _ => spine out l && (gtree r || cnum r)
      end && Nat.eqb (count_out out r) 0
  | _ => false
  end.

Definition rho_spine (rho : nat -> score) (out : score) (k : nat) (vars : list score) : Prop :=
  (forall a b, (1 <= a)%nat -> (1 <= b)%nat -> rho a = rho b -> a = b) /\
  (forall s j, In s vars -> s <> out -> (1 <= j)%nat -> s <> rho j) /\
  rho k = out.

Definition sem_spine (out : score) (node : num) (k : nat) (st st' : tstate) (new : list oper) : Prop :=
  forall rho f, rho_spine rho out k (tvars node) ->
    (forall s, s <> out -> (forall j, avail st j -> (j <= t_max st')%nat -> s <> rho j) ->
               interp_ops (map (ren_op rho) new) f s = f s) /\
    interp_ops (map (ren_op rho) new) f out = teval f node.

Definition spine_post (out : score) (node : num) (first : bool) (st : tstate) : Prop :=
  exists k st' new,
    tto out true node first st = (Ok (NTemp k, st'), []) /\
    t_ops st' = rev new ++ t_ops st /\ Inv st' /\ (t_max st <= t_max st')%nat /\
    (forall j, In j (t_free st') -> avail st j) /\
    (avail st k /\ (k <= t_max st')%nat /\ ~ In k (t_free st') /\
     t_out st' = (if first then Some k else t_out st)) /\
    sem_spine out node k st st' new /\ forallb op_shape new = true.

Lemma interp_one_same' f v o n : interp_one f (v, o, n) v = op_sem o (f v) (numval f n).
Proof. unfold interp_one. cbn [o_var o_op o_num fst snd]. now rewrite score_eqb_refl. Qed.

Lemma interp_snoc1 l x g : interp_ops (l ++ [x]) g = interp_one (interp_ops l g) x.
Proof. rewrite interp_ops_app. reflexivity. Qed.

Lemma rev_app_self_nil {A} (l X : list A) : X = rev l ++ X -> l = [].
Proof.
  intros H. apply (f_equal (@length A)) in H. rewrite app_length, rev_length in H.
  destruct l; [reflexivity|cbn in H; lia].
Qed.

Lemma count0_notin out t : count_out out t = O -> ~ In out (tvars t).
Proof.
  induction t as [z|s|i|c o l IHl r IHr]; cbn [count_out tvars]; intros H Hin; try (destruct Hin; fail).
  - destruct Hin as [<-|[]]. now rewrite score_eqb_refl in H.
  - apply in_app_or in Hin. destruct Hin; [apply IHl|apply IHr]; auto; lia.
Qed.

Lemma fresh_variable_spec st k st' :
  Inv st -> fresh_variable st = (k, st') ->
  k = S (t_max st) /\ Inv st' /\ ~ In k (t_free st') /\ t_max st' = S (t_max st) /\
  t_free st' = t_free st /\ t_ops st' = t_ops st /\ t_out st' = t_out st.
Proof.
  intros [Hd Hb]. unfold fresh_variable. intros [= <- <-]. cbn [t_max t_free t_ops t_out].
  repeat apply conj; try reflexivity.
  - exact Hd.
  - cbn [t_free t_max]. intros j Hj. apply Hb in Hj. lia.
  - intros H. apply Hb in H. lia.
Qed.

(* the right operand of a node on the spine: evaluated by tto_general (the target does not occur) *)
Lemma right_operand out r st1 :
  (gtree r || cnum r) = true -> count_out out r = O -> Inv st1 ->
  exists resr st2 newr,
    tto out true r false st1 = (Ok (resr, st2), []) /\
    t_ops st2 = rev newr ++ t_ops st1 /\ Inv st2 /\ (t_max st1 <= t_max st2)%nat /\
    (forall k, In k (t_free st2) -> avail st1 k) /\
    res_post false r resr st1 st2 /\ sem_post r resr st1 st2 newr /\ forallb op_shape newr = true.
Proof.
  intros Hg Hc I1. destruct (gtree r) eqn:Gr.
  - exact (tto_general out true r Gr (or_intror Hc) false st1 I1).
  - cbn [orb] in Hg. destruct r as [z| | |]; try discriminate.
    exists (NConst z), st1, []. cbn [rev app]. post_split; auto.
    + intros k Hk'. now left.
    + split; reflexivity.
    + intros rho f Hr. split; [intros; reflexivity|reflexivity].
Qed.

Lemma rho_spine_ok rho out k vars vars' :
  rho_spine rho out k vars -> (forall s, In s vars' -> In s vars) -> ~ In out vars' -> rho_ok rho vars'.
Proof.
  intros (Hinj & Hdis & _) Hsub Hno. split; [exact Hinj|].
  intros s j Hs Hj. apply Hdis; [now apply Hsub| |exact Hj]. intros ->. contradiction.
Qed.

Lemma tto_spine out node :
  spine out node = true -> forall ft st, Inv st -> spine_post out node ft st.
Proof.
  induction node as [z|s|i|c o l IHl r IHr]; cbn [spine]; try discriminate.
  intros Hc ft st HI.
  apply andb_true_iff in Hc. destruct Hc as [Hc Hcnt]. apply andb_true_iff in Hc. destruct Hc as [Hc Hl].
  apply andb_true_iff in Hc. destruct Hc as [Hco Har].
  apply Nat.eqb_eq in Hcnt.
  assert (c = o) as -> by (destruct c, o; cbn in Hco; congruence).
  pose proof (arith_not_pow o Har) as Hpow.
  assert (Hare : arith_opc_e o = true) by (destruct o; cbn in Har |- *; congruence).
  pose proof (count0_notin out r Hcnt) as Hnor.
  pose proof (tto_expr out true o o l r ft st) as Ht.
  unfold spine_post.
  destruct l as [zl|sl|il|cl ol ll rl]; try discriminate.
  - (* the target itself: the temporary that takes it over is new, nothing is copied *)
    clear IHl. apply andb_true_iff in Hl. destruct Hl as [Hso Gr].
    assert (sl = out) as -> by (destruct (score_eqb_spec sl out); congruence). clear Hso.
    destruct (right_operand out r st) as (resr & st2 & newr & Er & Or & I2 & M2 & F2 & Rr & Sr & Shr);
      [now rewrite Gr|exact Hcnt|exact HI|].
    pose proof (avail_mono st st2 M2 F2) as A2.
    rewrite (tto_nonexpr out true (NVar out) false st eq_refl), bind_ok_nil, Er, bind_ok_nil in Ht.
    cbv beta iota zeta in Ht. cbn [differs_from_output negb orb] in Ht. rewrite score_eqb_refl in Ht.
    cbn [negb] in Ht. cbv beta iota zeta in Ht.
    destruct (fresh_variable st2) as [k st3] eqn:En.
    destruct (fresh_variable_spec st2 k st3 I2 En) as (Ek & I3 & Kfree & M3 & F3 & O3 & Out3).
    rewrite Hpow in Ht.
    assert (K1 : (1 <= k)%nat) by lia.
    assert (Hcr' : (gtree r || cnum r) = true) by now rewrite Gr.
    destruct (res_cases r resr st st2 Hcr' Rr) as [(s' & -> & -> & ->)|[(z & -> & _)|(_ & j & -> & Aj & Jmax & Jfree & Outj)]];
      [|discriminate Gr|].
    + (* right operand is a variable *)
      cbn [free_if_temp] in Ht.
      exists k, (push (NTemp k, o, NVar s') (if ft then set_out k st3 else st3)), [(NTemp k, o, NVar s')].
      post_split.
      * exact Ht.
      * destruct ft; cbn [push set_out t_ops]; rewrite O3; reflexivity.
      * destruct ft; exact I3.
      * destruct ft; cbn [push set_out t_max]; lia.
      * intros x Hx. left. rewrite <- F3. destruct ft; exact Hx.
      * repeat apply conj.
        -- right. lia.
        -- destruct ft; cbn [push set_out t_max]; lia.
        -- destruct ft; exact Kfree.
        -- destruct ft; cbn [push set_out t_out]; [reflexivity|exact Out3].
      * intros rho f (Hinj & Hdis & Hk). cbn [map]. unfold ren_op. cbn [ren_var ren_num fst snd].
        unfold interp_ops. cbn [fold_left]. rewrite Hk.
        split.
        -- intros s Hs' _. apply interp_one_other. cbn. congruence.
        -- assert (s' <> out).
           { intros ->. apply Hnor. now left. }
           rewrite interp_one_same'. cbn [numval teval]. reflexivity.
      * cbn. rewrite Hare. reflexivity.
    + (* right operand is an operation: its temporary j is released *)
      cbn [free_if_temp] in Ht.
      assert (Jge : (1 <= j)%nat) by (exact (avail_ge1 _ _ HI Aj)).
      assert (Hkj : k <> j) by lia.
      set (st4 := if ft then set_out k st3 else st3) in *.
      assert (I4 : Inv st4) by (subst st4; destruct ft; exact I3).
      assert (F4 : t_free st4 = t_free st3) by (subst st4; destruct ft; reflexivity).
      assert (M4 : t_max st4 = t_max st3) by (subst st4; destruct ft; reflexivity).
      assert (O4 : t_ops st4 = t_ops st3) by (subst st4; destruct ft; reflexivity).
      destruct (free_var_spec st4 j I4) as [I5 F5].
      { rewrite F4, F3. exact Jfree. }
      { rewrite M4. lia. }
      exists k, (push (NTemp k, o, NTemp j) (free_var j st4)), (newr ++ [(NTemp k, o, NTemp j)]).
      post_split.
      * exact Ht.
      * cbn [push free_var t_ops]. rewrite O4, O3, Or. rewrite rev_app_distr. reflexivity.
      * exact I5.
      * cbn [push free_var t_max]. rewrite M4. lia.
      * intros x Hx. cbn [push t_free] in Hx. apply F5 in Hx. destruct Hx as [->|Hx]; [exact Aj|].
        rewrite F4, F3 in Hx. now apply F2.
      * repeat apply conj.
        -- right. lia.
        -- cbn [push free_var t_max]. rewrite M4. lia.
        -- cbn [push t_free]. intros Hx. apply F5 in Hx. destruct Hx as [Hx|Hx]; [contradiction|].
           rewrite F4 in Hx. contradiction.
        -- cbn [push free_var t_out]. subst st4. destruct ft; cbn [set_out t_out]; [reflexivity|].
           rewrite Out3. exact Outj.
      * intros rho f Hrs. pose proof Hrs as (Hinj & Hdis & Hk).
        assert (Hro : rho_ok rho (tvars r)).
        { apply (rho_spine_ok rho out k _ _ Hrs); [|exact Hnor]. intros s0 Hs0. cbn [tvars]. now right. }
        destruct (Sr rho f Hro) as [Fr Vr].
        rewrite map_ren_app, interp_ops_app. set (f2 := interp_ops (map (ren_op rho) newr) f) in *.
        cbn [map]. unfold ren_op. cbn [ren_var ren_num fst snd]. unfold interp_ops. cbn [fold_left]. rewrite Hk.
        assert (Nj : out <> rho j) by (rewrite <- Hk; intros E; apply Hkj; apply Hinj; auto).
        assert (Eout : f2 out = f out).
        { apply Fr. intros j' Aj' Bj' E. rewrite <- Hk in E. apply Hinj in E; [lia|exact K1|exact (avail_ge1 _ _ HI Aj')]. }
        split.
        -- intros s Hs Hs'. rewrite interp_one_other by (cbn; congruence). apply Fr.
           intros j' Aj' Bj'. apply Hs'; [exact Aj'|]. cbn [push free_var t_max]. rewrite M4. lia.
        -- rewrite interp_one_same'. cbn [numval teval].
           cbn [ren_num numval] in Vr. rewrite Vr, Eout. reflexivity.
      * rewrite forallb_app, Shr. cbn. rewrite Hare. reflexivity.
  - (* further up the leftmost path: the temporary of the left operand receives the result *)
    apply andb_true_iff in Hl. destruct Hl as [Hsp Hcr'].
    destruct (IHl Hsp false st HI) as (k & st1 & newl & El & Ol & I1 & M1 & F1 & (Ak & Kmax & Kfree & Outk) & Sl & Shl).
    destruct (right_operand out r st1 Hcr' Hcnt I1) as (resr & st2 & newr & Er & Or & I2 & M2 & F2 & Rr & Sr & Shr).
    pose proof (avail_mono st st1 M1 F1) as A1.
    pose proof (avail_mono st1 st2 M2 F2) as A2.
    rewrite El, bind_ok_nil, Er, bind_ok_nil in Ht. cbv beta iota zeta in Ht. rewrite Hpow in Ht.
    assert (Kge : (1 <= k)%nat) by (exact (avail_ge1 _ _ HI Ak)).
    assert (NAk : ~ avail st1 k) by (intros [H|H]; [contradiction|lia]).
    set (st3 := if ft then set_out k st2 else st2) in *.
    assert (I3 : Inv st3) by (subst st3; destruct ft; exact I2).
    assert (F3 : t_free st3 = t_free st2) by (subst st3; destruct ft; reflexivity).
    assert (M3 : t_max st3 = t_max st2) by (subst st3; destruct ft; reflexivity).
    assert (O3 : t_ops st3 = t_ops st2) by (subst st3; destruct ft; reflexivity).
    assert (Out3 : t_out st3 = if ft then Some k else t_out st2) by (subst st3; destruct ft; reflexivity).
    (* meaning of the two parts, for any renaming that sends k to the target *)
    assert (Hsem : forall rho f, rho_spine rho out k (tvars (NExpr o o (NExpr cl ol ll rl) r)) ->
              let f1 := interp_ops (map (ren_op rho) newl) f in
              let f2 := interp_ops (map (ren_op rho) newr) f1 in
              (forall s, s <> out -> (forall j, avail st j -> (j <= t_max st2)%nat -> s <> rho j) -> f2 s = f s) /\
              f2 out = teval f (NExpr cl ol ll rl) /\
              numval f2 (ren_num rho resr) = teval f r).
    { intros rho f Hrs f1 f2. pose proof Hrs as (Hinj & Hdis & Hk).
      assert (Hrl : rho_spine rho out k (tvars (NExpr cl ol ll rl))).
      { split; [exact Hinj|split; [|exact Hk]]. intros s j Hs. apply Hdis. cbn [tvars]. apply in_or_app. now left. }
      assert (Hro : rho_ok rho (tvars r)).
      { apply (rho_spine_ok rho out k _ _ Hrs); [|exact Hnor]. intros s Hs. cbn [tvars]. apply in_or_app. now right. }
      destruct (Sl rho f Hrl) as [Fl Vl]. fold f1 in Fl, Vl.
      destruct (Sr rho f1 Hro) as [Fr Vr]. fold f2 in Fr, Vr.
      split; [|split].
      - intros s Hs Hs'. rewrite Fr.
        + apply Fl; [exact Hs|]. intros j Aj Bj. apply Hs'; [exact Aj|lia].
        + intros j Aj Bj. apply Hs'; [now apply A1|exact Bj].
      - rewrite Fr; [exact Vl|].
        intros j Aj Bj E. rewrite <- Hk in E. apply Hinj in E; [subst j; contradiction|exact Kge|exact (avail_ge1 _ _ I1 Aj)].
      - rewrite Vr. apply teval_ext. intros s Hs.
        assert (s <> out) by (intros ->; contradiction).
        apply Fl; [assumption|]. intros j Aj _. apply Hdis; [cbn [tvars]; apply in_or_app; now right|assumption|exact (avail_ge1 _ _ HI Aj)]. }
    destruct (res_cases r resr st1 st2 Hcr' Rr) as [(s' & -> & -> & ->)|[(z & -> & -> & ->)|(_ & j & -> & Aj & Jmax & Jfree & Outj)]].
    + cbn [free_if_temp] in Ht.
      pose proof (rev_app_self_nil _ _ Or) as ->.
      exists k, (push (NTemp k, o, NVar s') st3), (newl ++ [(NTemp k, o, NVar s')]).
      post_split.
      * exact Ht.
      * cbn [push t_ops]. rewrite O3, Ol, rev_app_distr. reflexivity.
      * exact I3.
      * cbn [push t_max]. rewrite M3. exact M1.
      * intros x Hx. cbn [push t_free] in Hx. rewrite F3 in Hx. now apply F1.
      * repeat apply conj; auto.
        -- cbn [push t_max]. rewrite M3. exact Kmax.
        -- cbn [push t_free]. rewrite F3. exact Kfree.
        -- cbn [push t_out]. rewrite Out3. destruct ft; [reflexivity|exact Outk].
      * intros rho f Hrs. destruct (Hsem rho f Hrs) as (Fr & Vo & Vr). destruct Hrs as (Hinj & Hdis & Hk).
        cbn [map app interp_ops fold_left] in Fr, Vo, Vr.
        rewrite map_ren_app.
        change (map (ren_op rho) [(NTemp k, o, NVar s')]) with [(rho k, o, CVar s')]. rewrite interp_snoc1, Hk.
        split.
        -- intros s Hs Hs'. rewrite interp_one_other by (cbn; congruence). apply Fr; [exact Hs|].
           intros j Aj Bj. apply Hs'; [exact Aj|]. cbn [push t_max]. rewrite M3. exact Bj.
        -- rewrite interp_one_same'. cbn [numval teval].
           cbn [ren_num numval] in Vr. rewrite Vo, Vr. reflexivity.
      * rewrite forallb_app, Shl. cbn. rewrite Hare. reflexivity.
    + cbn [free_if_temp] in Ht.
      pose proof (rev_app_self_nil _ _ Or) as ->.
      exists k, (push (NTemp k, o, NConst z) st3), (newl ++ [(NTemp k, o, NConst z)]).
      post_split.
      * exact Ht.
      * cbn [push t_ops]. rewrite O3, Ol, rev_app_distr. reflexivity.
      * exact I3.
      * cbn [push t_max]. rewrite M3. exact M1.
      * intros x Hx. cbn [push t_free] in Hx. rewrite F3 in Hx. now apply F1.
      * repeat apply conj; auto.
        -- cbn [push t_max]. rewrite M3. exact Kmax.
        -- cbn [push t_free]. rewrite F3. exact Kfree.
        -- cbn [push t_out]. rewrite Out3. destruct ft; [reflexivity|exact Outk].
      * intros rho f Hrs. destruct (Hsem rho f Hrs) as (Fr & Vo & Vr). destruct Hrs as (Hinj & Hdis & Hk).
        cbn [map app interp_ops fold_left] in Fr, Vo, Vr.
        rewrite map_ren_app.
        change (map (ren_op rho) [(NTemp k, o, NConst z)]) with [(rho k, o, CConst z)]. rewrite interp_snoc1, Hk.
        split.
        -- intros s Hs Hs'. rewrite interp_one_other by (cbn; congruence). apply Fr; [exact Hs|].
           intros j Aj Bj. apply Hs'; [exact Aj|]. cbn [push t_max]. rewrite M3. exact Bj.
        -- rewrite interp_one_same'. cbn [numval teval].
           rewrite Vo. reflexivity.
      * assert (Hz : in_int32b z = true) by exact Hcr'.
        rewrite forallb_app, Shl. unfold op_shape. cbn [forallb is_temp is_vt fst snd andb]. now rewrite Hz, Hare.
    + cbn [free_if_temp] in Ht.
      assert (Jge : (1 <= j)%nat) by (exact (avail_ge1 _ _ I1 Aj)).
      assert (Hkj : k <> j) by (intros ->; contradiction).
      destruct (free_var_spec st3 j I3) as [I5 F5].
      { rewrite F3. exact Jfree. } { rewrite M3. lia. }
      exists k, (push (NTemp k, o, NTemp j) (free_var j st3)), (newl ++ newr ++ [(NTemp k, o, NTemp j)]).
      post_split.
      * exact Ht.
      * cbn [push free_var t_ops]. rewrite O3, Or, Ol. rewrite !rev_app_distr. cbn [rev app].
        rewrite <- !app_assoc. reflexivity.
      * exact I5.
      * cbn [push free_var t_max]. rewrite M3. lia.
      * intros x Hx. cbn [push t_free] in Hx. apply F5 in Hx. destruct Hx as [->|Hx]; [now apply A1|].
        rewrite F3 in Hx. apply A1. now apply F2.
      * repeat apply conj; auto.
        -- cbn [push free_var t_max]. rewrite M3. lia.
        -- cbn [push t_free]. intros Hx. apply F5 in Hx. destruct Hx as [Hx|Hx]; [contradiction|].
           rewrite F3 in Hx. apply NAk. now apply F2.
        -- cbn [push free_var t_out]. rewrite Out3. destruct ft; [reflexivity|]. rewrite Outj. exact Outk.
      * intros rho f Hrs. destruct (Hsem rho f Hrs) as (Fr & Vo & Vr). destruct Hrs as (Hinj & Hdis & Hk).
        rewrite app_assoc, map_ren_app.
        change (map (ren_op rho) [(NTemp k, o, NTemp j)]) with [(rho k, o, CVar (rho j))].
        rewrite interp_snoc1, map_ren_app, interp_ops_app, Hk.
        assert (Nj : out <> rho j) by (rewrite <- Hk; intros E; apply Hkj; apply Hinj; auto).
        split.
        -- intros s Hs Hs'. rewrite interp_one_other by (cbn; congruence). apply Fr; [exact Hs|].
           intros j' Aj' Bj'. apply Hs'; [exact Aj'|]. cbn [push free_var t_max]. rewrite M3. exact Bj'.
        -- rewrite interp_one_same'. cbn [numval teval].
           cbn [ren_num numval] in Vr. rewrite Vo, Vr. reflexivity.
      * rewrite !forallb_app, Shl, Shr. cbn. rewrite Hare. reflexivity.
Qed.
