(* Proofs.ExprOps — tree_to_operations on clean trees (variables other than the target at the leaves,
   operators + - * / %): the operation list computes the value of the tree into the returned
   temporary, never touches a live temporary or a user variable, and fires no tag. *)
From Coq Require Import ZArith String List Bool Lia.
From JMCV Require Import Base.Int32 Base.Dec MC.Syntax Model.Names Model.VarOp Model.Expr Model.ExprSpec
     Model.ExprFront Model.ExprBack Proofs.ExprLower.
Import ListNotations.
Open Scope Z_scope.

Definition arith_opc (o : opc) : bool :=
  match o with PAdd | PSub | PMul | PDiv | PMod => true | _ => false end.

Fixpoint ctree (out : score) (t : num) : bool :=
  match t with
  | NVar s => negb (score_eqb s out)
  | NExpr c o l r => opc_eqb c o && arith_opc o && ctree out l && ctree out r
  | _ => false
  end.

Fixpoint tvars (t : num) : list score :=
  match t with
  | NVar s => [s]
  | NExpr _ _ l r => tvars l ++ tvars r
  | _ => []
  end.

Fixpoint teval (f : score -> Z) (t : num) : Z :=
  match t with
  | NVar s => f s
  | NConst z => z
  | NTemp _ => 0
  | NExpr _ o l r => op_sem o (teval f l) (teval f r)
  end.

Lemma teval_ext f g t : (forall s, In s (tvars t) -> f s = g s) -> teval f t = teval g t.
Proof.
  induction t as [z|s|i|c o l IHl r IHr]; intros H; cbn [teval]; try reflexivity.
  - apply H. now left.
  - rewrite IHl, IHr; [reflexivity| |]; intros s Hs; apply H; cbn [tvars]; apply in_or_app; auto.
Qed.

(* ---- renaming of temporaries into scores *)
Definition ren_var (rho : nat -> score) (n : num) : score :=
  match n with NTemp k => rho k | NVar s => s | _ => (EmptyString, EmptyString) end.
Definition ren_num (rho : nat -> score) (n : num) : onum :=
  match n with NTemp k => CVar (rho k) | NVar s => CVar s | NConst z => CConst z | NExpr _ _ _ _ => CConst 0 end.
Definition ren_op (rho : nat -> score) (o : oper) : oper2 :=
  (ren_var rho (fst (fst o)), snd (fst o), ren_num rho (snd o)).

Lemma interp_ops_app l1 l2 f : interp_ops (l1 ++ l2) f = interp_ops l2 (interp_ops l1 f).
Proof. unfold interp_ops. apply fold_left_app. Qed.

(* ---- allocator invariants *)
Definition Inv (st : tstate) : Prop :=
  NoDup (t_free st) /\ (forall k, In k (t_free st) -> (1 <= k <= t_max st)%nat).
(* temporaries an evaluation started in st may write *)
Definition avail (st : tstate) (k : nat) : Prop := In k (t_free st) \/ (t_max st < k)%nat.

Lemma insort_in i l x : In x (insort i l) <-> x = i \/ In x l.
Proof.
  induction l as [|j r IH]; cbn [insort]; [cbn; intuition congruence|].
  destruct (Nat.ltb i j); cbn [In]; [intuition congruence|]. rewrite IH. intuition congruence.
Qed.
Lemma insort_nodup i l : ~ In i l -> NoDup l -> NoDup (insort i l).
Proof.
  induction l as [|j r IH]; intros Hn Hd; cbn [insort]; [constructor; [intros []|constructor]|].
  destruct (Nat.ltb i j); [constructor; assumption|].
  inversion Hd as [|? ? Hj Hr]; subst. constructor.
  - rewrite insort_in. intros [->|H]; [apply Hn; now left|contradiction].
  - apply IH; [intros H; apply Hn; now right|assumption].
Qed.

Lemma avail_ge1 st k : Inv st -> avail st k -> (1 <= k)%nat.
Proof. intros [_ H] [Hk|Hk]; [apply H in Hk|]; lia. Qed.

Lemma new_variable_spec st k st' :
  Inv st -> new_variable st = (k, st') ->
  avail st k /\ (k <= t_max st')%nat /\ Inv st' /\ ~ In k (t_free st') /\
  (t_max st <= t_max st')%nat /\ (forall j, In j (t_free st') -> In j (t_free st)) /\
  t_ops st' = t_ops st /\ t_out st' = t_out st /\
  (forall j, avail st' j -> avail st j) /\ (forall j, avail st j -> j = k \/ avail st' j).
Proof.
  intros [Hd Hb]. unfold new_variable. destruct (t_free st) as [|i fr] eqn:E.
  - intros [= <- <-]. cbn [t_max t_free t_ops t_out]. unfold avail, Inv. rewrite E. cbn [t_max t_free].
    repeat apply conj.
    + right. lia.
    + lia.
    + constructor.
    + intros j [].
    + intros [].
    + lia.
    + intros j [].
    + reflexivity.
    + reflexivity.
    + intros j [[]|Hj]. right. lia.
    + intros j [[]|Hj]. destruct (Nat.eq_dec j (S (t_max st))); [now left|right; right; lia].
  - intros [= <- <-]. cbn [t_max t_free t_ops t_out]. unfold avail, Inv. rewrite E. cbn [t_max t_free].
    inversion Hd as [|? ? Hi Hfr]; subst.
    assert (Hbi := Hb i (or_introl eq_refl)).
    repeat apply conj.
    + left. now left.
    + lia.
    + assumption.
    + intros j Hj. apply Hb. now right.
    + assumption.
    + lia.
    + intros j Hj. now right.
    + reflexivity.
    + reflexivity.
    + intros j [Hj|Hj]; [left; now right|now right].
    + intros j [[->|Hj]|Hj]; [now left|right; now left|right; now right].
Qed.

Lemma free_var_spec st j :
  Inv st -> ~ In j (t_free st) -> (1 <= j <= t_max st)%nat ->
  Inv (free_var j st) /\ (forall x, In x (t_free (free_var j st)) <-> x = j \/ In x (t_free st)).
Proof.
  intros [Hd Hb] Hn Hj. unfold free_var, Inv. cbn [t_free t_max]. split; [split|].
  - now apply insort_nodup.
  - intros k Hk. apply insort_in in Hk. destruct Hk as [->|Hk]; auto.
  - intros x. apply insort_in.
Qed.

Lemma bind_ok_nil {A B} (a : A) (f : A -> M B) : bind (Ok a, []) f = f a.
Proof. unfold bind. cbn. destruct (f a). reflexivity. Qed.

Definition rho_ok (rho : nat -> score) (vars : list score) : Prop :=
  (forall k k', (1 <= k)%nat -> (1 <= k')%nat -> rho k = rho k' -> k = k') /\
  (forall s k, In s vars -> (1 <= k)%nat -> s <> rho k).

Definition res_post (first : bool) (node res : num) (st st' : tstate) : Prop :=
  match node with
  | NExpr _ _ _ _ =>
      exists k, res = NTemp k /\ avail st k /\ (k <= t_max st')%nat /\ ~ In k (t_free st') /\
                t_out st' = (if first then Some k else t_out st)
  | _ => res = node /\ st' = st
  end.

Definition sem_post (node res : num) (st : tstate) (new : list oper) : Prop :=
  forall rho f, rho_ok rho (tvars node) ->
    (forall s, (forall k, avail st k -> s <> rho k) -> interp_ops (map (ren_op rho) new) f s = f s) /\
    numval (interp_ops (map (ren_op rho) new) f) (ren_num rho res) = teval f node.

(* every emitted triple has a variable/temporary on the left and a variable/temporary on the right *)
Definition is_vt (n : num) : bool := match n with NVar _ | NTemp _ => true | _ => false end.
Definition is_temp (n : num) : bool := match n with NTemp _ => true | _ => false end.
Definition op_shape (o : oper) : bool :=
  is_temp (fst (fst o)) && is_vt (snd o) && negb (opc_eqb (snd (fst o)) PPow).

Definition tto_post (out : score) (node : num) (first : bool) (st : tstate) : Prop :=
  exists res st' new,
    tto out true node first st = (Ok (res, st'), []) /\
    t_ops st' = rev new ++ t_ops st /\ Inv st' /\ (t_max st <= t_max st')%nat /\
    (forall k, In k (t_free st') -> avail st k) /\
    res_post first node res st st' /\ sem_post node res st new /\ forallb op_shape new = true.

Lemma avail_mono st st' : (t_max st <= t_max st')%nat -> (forall k, In k (t_free st') -> avail st k) ->
  forall k, avail st' k -> avail st k.
Proof. intros Hm Hf k [Hk|Hk]; [now apply Hf|right; lia]. Qed.

Lemma rho_ok_sub rho v1 v2 : (forall s, In s v2 -> In s v1) -> rho_ok rho v1 -> rho_ok rho v2.
Proof. intros Hs [H1 H2]. split; [exact H1|]. intros s k Hin. apply H2. now apply Hs. Qed.

Lemma rho_ok_l rho c o l r : rho_ok rho (tvars (NExpr c o l r)) -> rho_ok rho (tvars l).
Proof. apply rho_ok_sub. intros s Hs. cbn [tvars]. apply in_or_app. now left. Qed.
Lemma rho_ok_r rho c o l r : rho_ok rho (tvars (NExpr c o l r)) -> rho_ok rho (tvars r).
Proof. apply rho_ok_sub. intros s Hs. cbn [tvars]. apply in_or_app. now right. Qed.

(* the result of a clean subtree *)
Lemma res_cases out r resr st1 st2 :
  ctree out r = true -> res_post false r resr st1 st2 ->
  (exists s', r = NVar s' /\ resr = NVar s' /\ st2 = st1) \/
  (exists j, resr = NTemp j /\ avail st1 j /\ (j <= t_max st2)%nat /\ ~ In j (t_free st2) /\
             t_out st2 = t_out st1).
Proof.
  destruct r; cbn [ctree res_post]; try discriminate; intros _ H.
  - left. destruct H as [-> ->]. eauto.
  - right. exact H.
Qed.

Lemma interp_one_other f o s : o_var o <> s -> interp_one f o s = f s.
Proof. intros H. unfold interp_one. now rewrite score_eqb_neq. Qed.
Lemma interp_one_same f o : interp_one f o (o_var o) = op_sem (o_op o) (f (o_var o)) (numval f (o_num o)).
Proof. unfold interp_one. now rewrite score_eqb_refl. Qed.

Lemma map_ren_app rho (a b : list oper) : map (ren_op rho) (a ++ b) = map (ren_op rho) a ++ map (ren_op rho) b.
Proof. apply map_app. Qed.

Lemma tto_leaf out s first st : tto out true (NVar s) first st = (Ok (NVar s, st), []).
Proof. reflexivity. Qed.

Ltac post_split := refine (conj _ (conj _ (conj _ (conj _ (conj _ (conj _ (conj _ _))))))).

Lemma tto_expr out can_inject content oper l r first st :
  tto out can_inject (NExpr content oper l r) first st =
  ('(lv, st1) <- tto out can_inject l false st ;;
   '(rv, st2) <- tto out can_inject r false st1 ;;
   match lv with
   | NTemp i =>
       let st3 := if first then set_out i st2 else st2 in
       let st4 := free_if_temp rv st3 in
       if opc_eqb content PPow then pow_ops lv rv st4
       else ret (lv, push (lv, oper, rv) st4)
   | _ =>
       match lv, rv with
       | NConst a, NConst b =>
           tell_if (negb (opc_eqb content oper)) T_sub_rewrite_fold ;;;
           v <- py_eval2 a content b ;;
           if first then
             let '(k, st3) := new_variable st2 in
             ret (NConst v, push (NTemp k, PEmpty, NConst v) (set_out k st3))
           else ret (NConst v, st2)
       | _, _ =>
           let '(k, st3) := new_variable st2 in
           let st4 := if first then set_out k st3 else st3 in
           let st5 := free_if_temp rv st4 in
           let copy := negb can_inject || differs_from_output out lv in
           let st6 := if copy then push (NTemp k, PEmpty, lv) st5 else st5 in
           tell_if (negb copy && match t_free st2 with [] => false | _ => true end)
                   T_inject_reused_temp ;;;
           if opc_eqb content PPow then pow_ops (NTemp k) rv st6
           else ret (NTemp k, push (NTemp k, oper, rv) st6)
       end
   end).
Proof. reflexivity. Qed.

Lemma tto_clean out node : ctree out node = true -> forall ft st, Inv st -> tto_post out node ft st.
Proof.
  induction node as [z|s|i|c o l IHl r IHr]; cbn [ctree]; try discriminate.
  - (* leaf *)
    intros Hs ft st HI. exists (NVar s), st, []. cbn [rev app].
    post_split; auto.
    + intros k Hk. now left.
    + split; reflexivity.
    + intros rho f Hr. split; [intros; reflexivity|reflexivity].
  - (* operation *)
    intros Hc ft st HI.
    apply andb_true_iff in Hc. destruct Hc as [Hc Hcr]. apply andb_true_iff in Hc. destruct Hc as [Hc Hcl].
    apply andb_true_iff in Hc. destruct Hc as [Hco Har].
    assert (c = o) as -> by (destruct c, o; cbn in Hco; congruence).
    assert (Hpow : opc_eqb o PPow = false) by (destruct o; cbn in Har; congruence || reflexivity).
    destruct (IHl Hcl false st HI) as (resl & st1 & newl & El & Ol & I1 & M1 & F1 & Rl & Sl & Shl).
    destruct (IHr Hcr false st1 I1) as (resr & st2 & newr & Er & Or & I2 & M2 & F2 & Rr & Sr & Shr).
    pose proof (avail_mono st st1 M1 F1) as A1.
    pose proof (avail_mono st1 st2 M2 F2) as A2.
    pose proof (tto_expr out true o o l r ft st) as Ht. rewrite El, bind_ok_nil, Er, bind_ok_nil in Ht.
    cbv beta iota zeta in Ht. unfold tto_post.
    destruct l as [zl|sl|il|cl ol ll rl]; cbn [ctree] in Hcl; try discriminate.
    + (* left operand is a variable: a new temporary is initialised with it *)
      destruct Rl as [-> ->]. cbn [tto] in El. clear IHl.
      destruct (new_variable st2) as [k st3] eqn:En.
      destruct (new_variable_spec st2 k st3 I2 En) as (Ak & Kmax & I3 & Kfree & M3 & F3 & O3 & Out3 & A3 & A3').
      assert (Hsl : differs_from_output out (NVar sl) = true) by exact Hcl.
      cbv beta iota zeta in Ht.
      rewrite Hsl in Ht. cbn [negb orb andb] in Ht. rewrite Hpow in Ht.
      unfold tell_if in Ht. cbv beta iota in Ht. unfold ret at 1 in Ht. rewrite bind_ok_nil in Ht.
      destruct (res_cases out r resr st st2 Hcr Rr) as [(s' & -> & -> & ->)|(j & -> & Aj & Jmax & Jfree & Outj)].
      * (* right operand is a variable *)
        cbn [free_if_temp] in Ht.
        exists (NTemp k), (push (NTemp k, o, NVar s') (push (NTemp k, PEmpty, NVar sl) (if ft then set_out k st3 else st3))),
               [(NTemp k, PEmpty, NVar sl); (NTemp k, o, NVar s')].
        clear Er.
        post_split.
        -- exact Ht.
        -- destruct ft; cbn [push set_out t_ops]; rewrite O3; reflexivity.
        -- destruct ft; exact I3.
        -- destruct ft; cbn [push set_out t_max]; lia.
        -- intros x Hx. left. apply F3. destruct ft; exact Hx.
        -- cbn [res_post]. exists k. repeat apply conj; auto.
           ++ destruct ft; cbn [push set_out t_max]; lia.
           ++ destruct ft; exact Kfree.
           ++ destruct ft; cbn [push set_out t_out]; [reflexivity|exact Out3].
        -- intros rho f [Hinj Hdis]. cbn [map]. unfold ren_op. cbn [ren_var ren_num fst snd].
           unfold interp_ops. cbn [fold_left].
           assert (K1 : (1 <= k)%nat) by (exact (avail_ge1 _ _ I2 Ak)).
           assert (Ns : sl <> rho k) by (apply Hdis; [cbn [tvars]; apply in_or_app; left; now left|exact K1]).
           assert (Ns' : s' <> rho k) by (apply Hdis; [cbn [tvars]; apply in_or_app; right; now left|exact K1]).
           split.
           ++ intros s Hs. assert (s <> rho k) by (apply Hs; exact Ak).
              rewrite !interp_one_other by (cbn; congruence). reflexivity.
           ++ cbn [numval]. rewrite interp_one_same. cbn [o_var o_op o_num fst snd numval].
              rewrite (interp_one_other _ _ s') by (cbn; congruence).
              rewrite interp_one_same. cbn [o_var o_op o_num fst snd numval op_sem teval]. reflexivity.
        -- cbn. rewrite Hpow. reflexivity.
      * (* right operand is an operation: its temporary j is released *)
        cbn [free_if_temp] in Ht.
        assert (Jge : (1 <= j)%nat) by (exact (avail_ge1 _ _ HI Aj)).
        assert (Hkj : k <> j).
        { intros ->. destruct Ak as [Hk|Hk]; [contradiction|lia]. }
        set (st4 := if ft then set_out k st3 else st3) in *.
        assert (I4 : Inv st4) by (subst st4; destruct ft; exact I3).
        assert (F4 : t_free st4 = t_free st3) by (subst st4; destruct ft; reflexivity).
        assert (M4 : t_max st4 = t_max st3) by (subst st4; destruct ft; reflexivity).
        assert (O4 : t_ops st4 = t_ops st3) by (subst st4; destruct ft; reflexivity).
        destruct (free_var_spec st4 j I4) as [I5 F5].
        { rewrite F4. intros H. apply Jfree. now apply F3. }
        { rewrite M4. lia. }
        exists (NTemp k), (push (NTemp k, o, NTemp j) (push (NTemp k, PEmpty, NVar sl) (free_var j st4))),
               (newr ++ [(NTemp k, PEmpty, NVar sl); (NTemp k, o, NTemp j)]).
        post_split.
        -- exact Ht.
        -- cbn [push free_var t_ops]. rewrite O4, O3, Or. rewrite rev_app_distr. reflexivity.
        -- exact I5.
        -- cbn [push free_var t_max]. rewrite M4. lia.
        -- intros x Hx. cbn [push t_free] in Hx. apply F5 in Hx. destruct Hx as [->|Hx]; [exact Aj|].
           rewrite F4 in Hx. apply F2. now apply F3.
        -- cbn [res_post]. exists k. repeat apply conj.
           ++ reflexivity.
           ++ now apply A2.
           ++ cbn [push free_var t_max]. rewrite M4. exact Kmax.
           ++ cbn [push t_free]. intros Hx. apply F5 in Hx. destruct Hx as [Hx|Hx]; [contradiction|].
              rewrite F4 in Hx. contradiction.
           ++ cbn [push free_var t_out]. subst st4. destruct ft; cbn [set_out t_out]; [reflexivity|].
              rewrite Out3. exact Outj.
        -- intros rho f Hr. pose proof Hr as [Hinj Hdis].
           destruct (Sr rho f (rho_ok_r _ _ _ _ _ Hr)) as [Fr Vr].
           rewrite map_ren_app, interp_ops_app. set (f2 := interp_ops (map (ren_op rho) newr) f) in *.
           cbn [map]. unfold ren_op. cbn [ren_var ren_num fst snd]. unfold interp_ops. cbn [fold_left].
           assert (K1 : (1 <= k)%nat) by (exact (avail_ge1 _ _ I2 Ak)).
           assert (Ns : sl <> rho k) by (apply Hdis; [cbn [tvars]; apply in_or_app; left; now left|exact K1]).
           assert (Nj : rho k <> rho j) by (intros E; apply Hkj; apply Hinj; auto).
           split.
           ++ intros s Hs. assert (s <> rho k) by (apply Hs; now apply A2).
              rewrite !interp_one_other by (cbn; congruence). apply Fr. exact Hs.
           ++ cbn [numval]. rewrite interp_one_same. cbn [o_var o_op o_num fst snd numval].
              rewrite (interp_one_other _ _ (rho j)) by (cbn; congruence).
              rewrite interp_one_same. cbn [o_var o_op o_num fst snd numval op_sem teval].
              cbn [ren_num numval] in Vr. rewrite Vr. f_equal.
              apply Fr. intros k' Hk'. apply Hdis; [cbn [tvars]; apply in_or_app; left; now left|].
              exact (avail_ge1 _ _ HI Hk').
        -- rewrite forallb_app, Shr. cbn. rewrite Hpow. reflexivity.
    + (* left operand is an operation: its temporary receives the result *)
      cbn [res_post] in Rl. destruct Rl as (i & -> & Ai & Imax & Ifree & Outi).
      assert (Ige : (1 <= i)%nat) by (exact (avail_ge1 _ _ HI Ai)).
      assert (NAi : ~ avail st1 i) by (intros [H|H]; [contradiction|lia]).
      cbv beta iota zeta in Ht. rewrite Hpow in Ht.
      set (st3 := if ft then set_out i st2 else st2) in *.
      assert (I3 : Inv st3) by (subst st3; destruct ft; exact I2).
      assert (F3 : t_free st3 = t_free st2) by (subst st3; destruct ft; reflexivity).
      assert (M3 : t_max st3 = t_max st2) by (subst st3; destruct ft; reflexivity).
      assert (O3 : t_ops st3 = t_ops st2) by (subst st3; destruct ft; reflexivity).
      assert (Out3 : t_out st3 = if ft then Some i else t_out st2) by (subst st3; destruct ft; reflexivity).
      destruct (res_cases out r resr st1 st2 Hcr Rr) as [(s' & -> & -> & ->)|(j & -> & Aj & Jmax & Jfree & Outj)].
      * cbn [free_if_temp] in Ht.
        exists (NTemp i), (push (NTemp i, o, NVar s') st3), (newl ++ [(NTemp i, o, NVar s')]).
        clear Er.
        post_split.
        -- exact Ht.
        -- cbn [push t_ops]. rewrite O3, Ol, rev_app_distr. reflexivity.
        -- exact I3.
        -- cbn [push t_max]. rewrite M3. exact M1.
        -- intros x Hx. cbn [push t_free] in Hx. rewrite F3 in Hx. now apply F1.
        -- cbn [res_post]. exists i. repeat apply conj; auto.
           ++ cbn [push t_max]. rewrite M3. exact Imax.
           ++ cbn [push t_free]. rewrite F3. exact Ifree.
           ++ cbn [push t_out]. rewrite Out3. destruct ft; [reflexivity|exact Outi].
        -- intros rho f Hr. pose proof Hr as [Hinj Hdis].
           destruct (Sl rho f (rho_ok_l _ _ _ _ _ Hr)) as [Fl Vl].
           rewrite map_ren_app, interp_ops_app. set (f1 := interp_ops (map (ren_op rho) newl) f) in *.
           cbn [map]. unfold ren_op. cbn [ren_var ren_num fst snd]. unfold interp_ops. cbn [fold_left].
           assert (Ns' : s' <> rho i) by (apply Hdis; [cbn [tvars]; apply in_or_app; right; now left|exact Ige]).
           split.
           ++ intros s Hs. assert (s <> rho i) by (apply Hs; exact Ai).
              rewrite interp_one_other by (cbn; congruence). apply Fl. exact Hs.
           ++ cbn [numval]. rewrite interp_one_same. cbn [o_var o_op o_num fst snd numval op_sem teval].
              cbn [ren_num numval] in Vl. rewrite Vl. f_equal.
              apply Fl. intros k' Hk'. apply Hdis; [cbn [tvars]; apply in_or_app; right; now left|].
              exact (avail_ge1 _ _ HI Hk').
        -- rewrite forallb_app, Shl. cbn. rewrite Hpow. reflexivity.
      * cbn [free_if_temp] in Ht.
        assert (Jge : (1 <= j)%nat) by (exact (avail_ge1 _ _ I1 Aj)).
        assert (Hij : i <> j) by (intros ->; contradiction).
        destruct (free_var_spec st3 j I3) as [I5 F5].
        { rewrite F3. exact Jfree. } { rewrite M3. lia. }
        exists (NTemp i), (push (NTemp i, o, NTemp j) (free_var j st3)), (newl ++ newr ++ [(NTemp i, o, NTemp j)]).
        post_split.
        -- exact Ht.
        -- cbn [push free_var t_ops]. rewrite O3, Or, Ol. rewrite !rev_app_distr. cbn [rev app].
           rewrite <- !app_assoc. reflexivity.
        -- exact I5.
        -- cbn [push free_var t_max]. rewrite M3. lia.
        -- intros x Hx. cbn [push t_free] in Hx. apply F5 in Hx. destruct Hx as [->|Hx]; [now apply A1|].
           rewrite F3 in Hx. apply A1. now apply F2.
        -- cbn [res_post]. exists i. repeat apply conj; auto.
           ++ cbn [push free_var t_max]. rewrite M3. lia.
           ++ cbn [push t_free]. intros Hx. apply F5 in Hx. destruct Hx as [Hx|Hx]; [contradiction|].
              rewrite F3 in Hx. apply NAi. now apply F2.
           ++ cbn [push free_var t_out]. rewrite Out3. destruct ft; [reflexivity|]. rewrite Outj. exact Outi.
        -- intros rho f Hr. pose proof Hr as [Hinj Hdis].
           destruct (Sl rho f (rho_ok_l _ _ _ _ _ Hr)) as [Fl Vl].
           rewrite !map_ren_app, !interp_ops_app. set (f1 := interp_ops (map (ren_op rho) newl) f) in *.
           destruct (Sr rho f1 (rho_ok_r _ _ _ _ _ Hr)) as [Fr Vr].
           set (f2 := interp_ops (map (ren_op rho) newr) f1) in *.
           cbn [map]. unfold ren_op. cbn [ren_var ren_num fst snd]. unfold interp_ops. cbn [fold_left].
           assert (Nj : rho i <> rho j) by (intros E; apply Hij; apply Hinj; auto).
           split.
           ++ intros s Hs. assert (s <> rho i) by (apply Hs; exact Ai).
              rewrite interp_one_other by (cbn; congruence).
              unfold f2. rewrite Fr by (intros k' Hk'; apply Hs; now apply A1). apply Fl. exact Hs.
           ++ cbn [numval]. rewrite interp_one_same. cbn [o_var o_op o_num fst snd numval op_sem teval].
              cbn [ren_num numval] in Vl, Vr. rewrite Vr.
              assert (E2 : f2 (rho i) = f1 (rho i)).
              { apply Fr. intros k' Hk' E. apply Hinj in E; [subst k'; contradiction|exact Ige|exact (avail_ge1 _ _ I1 Hk')]. }
              rewrite E2, Vl. f_equal.
              apply teval_ext. intros s Hs. apply Fl. intros k' Hk'.
              apply Hdis; [cbn [tvars]; apply in_or_app; now right|exact (avail_ge1 _ _ HI Hk')].
        -- rewrite !forallb_app, Shl, Shr. cbn. rewrite Hpow. reflexivity.
Qed.
