(* Proofs.LitBase — list/prefix/hexadecimal lemmas for the C09 model. *)
From Coq Require Import ZArith Bool String Ascii List Lia.
From JMCV Require Import Model.Lit.
Import ListNotations.
Open Scope Z_scope.

Ltac zdm := Z.div_mod_to_equations; lia.

(* ------------------------------------------------------------------ str_eqb / prefixb *)
Lemma str_eqb_refl s : str_eqb s s = true.
Proof. induction s as [|c s IH]; cbn; [reflexivity|]. now rewrite Z.eqb_refl, IH. Qed.

Lemma str_eqb_eq a b : str_eqb a b = true -> a = b.
Proof.
  revert b; induction a as [|x a IH]; intros [|y b] H; cbn in H; try discriminate; [reflexivity|].
  apply andb_true_iff in H as [H1 H2]. apply Z.eqb_eq in H1. subst. f_equal. now apply IH.
Qed.

Lemma prefixb_app p s : prefixb p (p ++ s) = true.
Proof. induction p as [|c p IH]; cbn; [reflexivity|]. now rewrite Z.eqb_refl, IH. Qed.

Lemma prefixb_nil_r p : prefixb p [] = match p with [] => true | _ => false end.
Proof. destruct p; reflexivity. Qed.

(* a test no longer than q is decided by q alone *)
Lemma prefixb_app_long t q l :
  (length t <= length q)%nat -> prefixb t (q ++ l) = prefixb t q.
Proof.
  revert q; induction t as [|x t IH]; intros q H; [reflexivity|].
  destruct q as [|y q]; cbn in H; [lia|]. cbn. rewrite IH by lia. reflexivity.
Qed.

Lemma prefixb_hd_neq t x q : match t with c :: _ => c <> x | [] => False end -> prefixb t (x :: q) = false.
Proof.
  destruct t as [|c t]; intros H; [contradiction|]. cbn.
  destruct (c =? x) eqn:E; [apply Z.eqb_eq in E; contradiction|reflexivity].
Qed.

Lemma skipn_app_long {A} n (q l : list A) : (n <= length q)%nat -> skipn n (q ++ l) = skipn n q ++ l.
Proof.
  revert q; induction n as [|n IH]; intros q H; [reflexivity|].
  destruct q as [|y q]; cbn in H; [lia|]. cbn. apply IH. lia.
Qed.

Lemma skipn_length_app {A} (p s : list A) : skipn (length p) (p ++ s) = s.
Proof. induction p; cbn; auto. Qed.

Lemma strip_prefix_app p s : strip_prefix p (p ++ s) = Some s.
Proof. unfold strip_prefix. now rewrite prefixb_app, skipn_length_app. Qed.

Lemma memz_false_forall c s : memz c s = false -> Forall (fun x => x <> c) s.
Proof.
  induction s as [|y s IH]; cbn; intros H; constructor.
  - apply orb_false_iff in H as [H _]. apply Z.eqb_neq in H. congruence.
  - apply IH. now apply orb_false_iff in H as [_ H].
Qed.

(* ------------------------------------------------------------------ replace_all *)
Lemma replace_go_no_occ pat rep s :
  pat <> [] -> occurs pat s = false -> replace_go pat rep O s = s.
Proof.
  intros Hp. induction s as [|c s IH]; cbn; intros H; [reflexivity|].
  apply orb_false_iff in H as [H1 H2].
  change (match pat with [] => true | x :: p' => (x =? c) && prefixb p' s end) with (prefixb pat (c :: s)).
  rewrite H1. f_equal. now apply IH.
Qed.

Lemma replace_all_no_occ pat rep s :
  pat <> [] -> occurs pat s = false -> replace_all pat rep s = s.
Proof. apply replace_go_no_occ. Qed.

(* ------------------------------------------------------------------ hexadecimal *)
Lemma hexval_hexdigit d : 0 <= d < 16 -> hexval (hexdigit d) = Some d.
Proof.
  intros H.
  assert (d = 0 \/ d = 1 \/ d = 2 \/ d = 3 \/ d = 4 \/ d = 5 \/ d = 6 \/ d = 7 \/ d = 8 \/ d = 9 \/
          d = 10 \/ d = 11 \/ d = 12 \/ d = 13 \/ d = 14 \/ d = 15) as E by lia.
  repeat (destruct E as [E|E]; [subst; reflexivity|]). subst; reflexivity.
Qed.

Lemma hexdigit_range d : 0 <= d < 16 -> 48 <= hexdigit d <= 57 \/ 97 <= hexdigit d <= 102.
Proof. intros H. unfold hexdigit. destruct (d <? 10) eqn:E; [apply Z.ltb_lt in E|apply Z.ltb_ge in E]; lia. Qed.

Lemma mod16_range n : 0 <= n mod 16 < 16.
Proof. apply Z.mod_pos_bound. lia. Qed.

Lemma read_hex_digit k acc d rest :
  0 <= d < 16 -> read_hex (S k) acc (hexdigit d :: rest) = read_hex k (acc * 16 + d) rest.
Proof. intros H. cbn [read_hex]. now rewrite hexval_hexdigit. Qed.

Lemma read_hex2 n rest : 0 <= n < 256 -> read_hex 2 0 (hex2 n ++ rest) = Some (n, rest).
Proof.
  intros H. unfold hex2. cbn [app].
  rewrite !read_hex_digit by apply mod16_range. cbn [read_hex]. f_equal. f_equal. zdm.
Qed.

Lemma read_hex4_acc acc n rest :
  0 <= n < 65536 -> read_hex 4 acc (hex4 n ++ rest) = Some (acc * 65536 + n, rest).
Proof.
  intros H. unfold hex4. cbn [app].
  rewrite !read_hex_digit by apply mod16_range. cbn [read_hex]. f_equal. f_equal. zdm.
Qed.

Lemma read_hex4 n rest : 0 <= n < 65536 -> read_hex 4 0 (hex4 n ++ rest) = Some (n, rest).
Proof. intros H. rewrite read_hex4_acc by assumption. f_equal. Qed.

Lemma read_hex_split a b acc s :
  read_hex (a + b) acc s = match read_hex a acc s with Some (v, r) => read_hex b v r | None => None end.
Proof.
  revert acc s; induction a as [|a IH]; intros acc s; cbn; [reflexivity|].
  destruct s as [|c r]; [reflexivity|]. destruct (hexval c); [apply IH|reflexivity].
Qed.

Lemma read_hex8 n rest : 0 <= n < 4294967296 -> read_hex 8 0 (hex8 n ++ rest) = Some (n, rest).
Proof.
  intros H. unfold hex8. rewrite <- app_assoc.
  change 8%nat with (4 + 4)%nat. rewrite read_hex_split.
  rewrite read_hex4_acc by zdm. rewrite read_hex4_acc by zdm. f_equal. f_equal. zdm.
Qed.

(* ------------------------------------------------------------------ lit *)
Lemma length_lit_pos s : s <> EmptyString -> lit s <> [].
Proof. destruct s; [congruence|discriminate]. Qed.
