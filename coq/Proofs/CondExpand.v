(* Proofs.CondExpand — `if (<formula>) expand { c1; c2; … }` (Model.CondExpand) against MC.Sem:
   every command of the batch is guarded by its own fresh evaluation of the formula.
   Built on C03's guard_iff (Proofs.CondFormula) and the fuel-free view of MC.Sem
   (Proofs.IfElseBase: steps / runs).  Property C03. *)
From Coq Require Import ZArith String List Bool Lia.
From JMCV Require Import Base.Int32 Base.Dec MC.Syntax MC.Sem MC.Facts Model.Names Model.PrivAlloc
     Model.Cond Model.CondExpand Proofs.CondBase Proofs.Cond Proofs.CondFormula.
From JMCV Require Model.IfElse Proofs.IfElseBase.
Import ListNotations.

Module B := JMCV.Proofs.IfElseBase.
Module IE := JMCV.Model.IfElse.

Lemma mods_of_mif (cs : list cond) : IE.mods_of cs = map mif cs.
Proof. reflexivity. Qed.
Lemma tests_hold_conds st (cs : list cond) : B.tests_hold st cs = conds_true st cs.
Proof. reflexivity. Qed.

Section Expand.
  Variable ft : string -> option (list cmd).
  Variable env : nat -> state -> state.

  (* Source meaning of `if (test) expand { batch }`: the commands in order, each run iff the
     test holds of the state it is reached in.  T = the side effect of evaluating the test
     (the theorem says: it changes `__logic__N` scores only). *)
  Inductive expand_sem (test : state -> bool) (T : state -> state)
    : list (list cmd) -> state -> state -> Prop :=
  | XNil st : expand_sem test T [] st st
  | XSkip lines r st st' :
      test st = false -> expand_sem test T r (T st) st' -> expand_sem test T (lines :: r) st st'
  | XRun lines r st st2 st' :
      test st = true -> B.runs ft env lines (T st) st2 -> expand_sem test T r st2 st' ->
      expand_sem test T (lines :: r) st st'.

  (* what running the precommand lines does to a state *)
  Definition test_effect (pcs : list cmd) (st : state) : state :=
    match exec_list ft env 2 pcs st with Some s => s | None => st end.

  Lemma guard_facts nm wrapped f pcs cs st :
    parse_condition nm (source_tokens wrapped f) = Some (pcs, cs) -> formula_ok nm f ->
    exec_list ft env 2 pcs st = Some (test_effect pcs st) /\
    (forall s, user_score nm s -> sc (test_effect pcs st) s = sc st s) /\
    stg (test_effect pcs st) = stg st /\ tr (test_effect pcs st) = tr st /\
    conds_true (test_effect pcs st) cs = eval st f.
  Proof.
    intros E Ok.
    destruct (guard_iff ft env nm wrapped f pcs cs O st E Ok) as [_ [st1 [X1 [X2 [X3 [X4 X5]]]]]].
    unfold test_effect. rewrite X1. repeat split; auto.
    rewrite exec_guarded_ext in X5.
    destruct (conds_true st1 cs), (eval st f); try reflexivity; inversion X5.
  Qed.

  (* the line a command of the batch ends in, and what it does *)
  Lemma expand_one_shape nm pcs cs (it : xitem) :
    fst it <> [] ->
    (length (fst it) <> 1%nat -> ft (priv_fn nm EXPAND (snd it)) = Some (fst it)) ->
    exists g, fst (expand_one nm pcs cs it) = pcs ++ [g] /\
      forall st1 mid, B.steps ft env g st1 mid <->
                      (if conds_true st1 cs then B.runs ft env (fst it) st1 mid else mid = st1).
  Proof.
    destruct it as [lines k]. cbn [fst snd]. intros Hne Hft.
    destruct lines as [|c [|c2 r]]; [congruence| |].
    - (* one line *)
      assert (G : forall st1 mid, B.steps ft env (guarded cs c) st1 mid <->
                   (if conds_true st1 cs then B.runs ft env [c] st1 mid else mid = st1)).
      { intros st1 mid. unfold guarded. rewrite <- mods_of_mif, B.steps_guard, tests_hold_conds.
        destruct (conds_true st1 cs); [symmetry; apply B.runs_single|reflexivity]. }
      destruct c; try (eexists; split; [reflexivity|exact G]).
      (* an `execute`: merged at the junction *)
      eexists; split; [reflexivity|]. intros st1 mid.
      change (CExecute (map mif cs ++ ms) c) with (IE.merge1 (IE.mods_of cs) (CExecute ms c)).
      rewrite B.steps_merge1_guard, tests_hold_conds.
      destruct (conds_true st1 cs); [symmetry; apply B.runs_single|reflexivity].
    - (* several lines: a function *)
      assert (G : forall st1 mid, B.steps ft env (guarded cs (call_func nm EXPAND k)) st1 mid <->
                   (if conds_true st1 cs then B.runs ft env (c :: c2 :: r) st1 mid else mid = st1)).
      { intros st1 mid. unfold guarded, call_func. rewrite <- mods_of_mif, B.steps_guard, tests_hold_conds.
        destruct (conds_true st1 cs); [|reflexivity].
        apply B.steps_call. apply Hft. cbn. lia. }
      destruct c; (eexists; split; [reflexivity|exact G]).
  Qed.

  Theorem expand_guard_iff nm wrapped f pcs cs :
    parse_condition nm (source_tokens wrapped f) = Some (pcs, cs) -> formula_ok nm f ->
    (forall st, (forall s, user_score nm s -> sc (test_effect pcs st) s = sc st s) /\
                stg (test_effect pcs st) = stg st /\ tr (test_effect pcs st) = tr st) /\
    forall batch : list xitem,
      (forall it, In it batch ->
                  fst it <> [] /\
                  (length (fst it) <> 1%nat -> ft (priv_fn nm EXPAND (snd it)) = Some (fst it))) ->
      forall st st',
        B.runs ft env (fst (expand_code nm pcs cs batch)) st st' <->
        expand_sem (fun s => eval s f) (test_effect pcs) (map fst batch) st st'.
  Proof.
    intros E Ok. split.
    { intros st. destruct (guard_facts nm wrapped f pcs cs st E Ok) as (_ & a & b & c & _). auto. }
    unfold expand_code. cbn [fst].
    induction batch as [|it r IH]; intros Hb st st'.
    - cbn [flat_map map]. rewrite B.runs_nil. split.
      + intros ->. constructor.
      + inversion 1. reflexivity.
    - cbn [flat_map map]. rewrite B.runs_app.
      destruct (Hb it (or_introl eq_refl)) as [Hne Hft].
      destruct (expand_one_shape nm pcs cs it Hne Hft) as [g [Eg Hg]]. rewrite Eg.
      destruct (guard_facts nm wrapped f pcs cs st E Ok) as (X1 & _ & _ & _ & X5).
      assert (Hr : forall x, In x r -> fst x <> [] /\
                     (length (fst x) <> 1%nat -> ft (priv_fn nm EXPAND (snd x)) = Some (fst x))).
      { intros x Hx. apply Hb. now right. }
      specialize (IH Hr).
      split.
      + intros (mid & H1 & H2). apply B.runs_app in H1. destruct H1 as (s1 & Hp & Hs).
        assert (s1 = test_effect pcs st).
        { eapply B.runs_det; [exact Hp|]. exists 2%nat. exact X1. }
        subst s1. apply B.runs_single in Hs. apply Hg in Hs. rewrite X5 in Hs.
        apply IH in H2. destruct (eval st f) eqn:Ev.
        * eapply XRun; eauto.
        * subst mid. apply XSkip; auto.
      + intros H. inversion H as [|lines r' s s' Ht Hrest|lines r' s s2 s' Ht Hrun Hrest]; subst.
        * exists (test_effect pcs st). split.
          -- apply B.runs_app. exists (test_effect pcs st). split; [exists 2%nat; exact X1|].
             apply B.runs_single, Hg. rewrite X5. cbn beta in Ht. rewrite Ht. reflexivity.
          -- apply IH. exact Hrest.
        * exists s2. split.
          -- apply B.runs_app. exists (test_effect pcs st). split; [exists 2%nat; exact X1|].
             apply B.runs_single, Hg. rewrite X5. cbn beta in Ht. rewrite Ht. exact Hrun.
          -- apply IH. exact Hrest.
  Qed.

  (* the trace form for a batch of abstract one-line commands `CExt n` (each an arbitrary
     sub-program: it may overwrite `__logic__N`, e.g. by evaluating a condition of its own, and
     any user score): always terminates, in the state the source meaning gives *)
  Fixpoint expand_ext (test : state -> bool) (T : state -> state) (ns : list nat) (st : state) : state :=
    match ns with
    | [] => st
    | n :: r => expand_ext test T r (if test st then log (env n (T st)) (EExt n) else T st)
    end.

  Lemma expand_sem_ext test T ns st st' :
    expand_sem test T (map (fun n => [CExt n]) ns) st st' <-> st' = expand_ext test T ns st.
  Proof.
    revert st. induction ns as [|n r IH]; intros st; cbn [map expand_ext].
    - split; [inversion 1; reflexivity|intros ->; constructor].
    - split.
      + inversion 1 as [|l r' s s' Ht Hrest|l r' s s2 s' Ht Hrun Hrest]; subst; rewrite Ht.
        * now apply IH.
        * apply B.runs_single, B.steps_ext in Hrun. subst s2. now apply IH.
      + intros ->. destruct (test st) eqn:Ht.
        * eapply XRun; [exact Ht| |apply IH; reflexivity].
          apply B.runs_single, B.steps_ext. reflexivity.
        * apply XSkip; [exact Ht|]. apply IH. reflexivity.
  Qed.

  Corollary expand_ext_runs nm wrapped f pcs cs ns st :
    parse_condition nm (source_tokens wrapped f) = Some (pcs, cs) -> formula_ok nm f ->
    forall st',
      B.runs ft env (fst (expand_code nm pcs cs (map (fun n => ([CExt n], O)) ns))) st st' <->
      st' = expand_ext (fun s => eval s f) (test_effect pcs) ns st.
  Proof.
    intros E Ok st'.
    destruct (expand_guard_iff nm wrapped f pcs cs E Ok) as [_ H].
    rewrite H.
    - rewrite map_map. cbn [fst]. apply expand_sem_ext.
    - intros it Hi. apply in_map_iff in Hi. destruct Hi as (n & <- & _). cbn [fst snd length].
      split; [discriminate|]. intros C. now elim C.
  Qed.
End Expand.
