(* Proofs.ExprCtx — a multi-command statement in a one-command position (Model.ExprCtx).  Property C02. *)
From Coq Require Import ZArith String List Bool Lia.
From JMCV Require Import Base.Int32 Base.Dec MC.Syntax MC.Sem MC.Facts MC.Print Model.Names
     Model.Expr Model.ExprSpec Model.ExprFront Model.ExprBack Model.ExprCtx
     Model.VarOp Proofs.VarOp Proofs.ExprLower Proofs.ExprParse Proofs.ExprOps Proofs.ExprRefute Proofs.ExprClean.
Import ListNotations.
Open Scope Z_scope.

(* ------------------------------------------------------------------ `execute <tests> run …` in MC.Sem *)
Lemma apply_stores_nil r st : apply_stores [] r st = st.
Proof. reflexivity. Qed.

Lemma run_mods_guard g st k :
  run_mods (mods_of_guard g) [] st k = if guard_holds st g then k st else Some (st, r_fail).
Proof.
  induction g as [|[pos t] g IH]; cbn [mods_of_guard map run_mods guard_holds forallb fst snd].
  - destruct (k st) as [[s r]|]; reflexivity.
  - destruct (Bool.eqb pos (test_true st t)); cbn [andb]; [exact IH|reflexivity].
Qed.

Lemma run_mods_guard_app g ms st k :
  run_mods (mods_of_guard g ++ ms) [] st k =
  if guard_holds st g then run_mods ms [] st k else Some (st, r_fail).
Proof.
  induction g as [|[pos t] g IH]; cbn [mods_of_guard map app run_mods guard_holds forallb fst snd].
  - reflexivity.
  - destruct (Bool.eqb pos (test_true st t)); cbn [andb]; [exact IH|reflexivity].
Qed.

Section Exec.
  Variable ft : string -> option (list cmd).
  Variable env : nat -> state -> state.

  (* one command under the tests: it runs iff they hold (also when `execute A run execute B` is merged) *)
  Lemma exec_under_false g c fuel menv st :
    guard_holds st g = false -> exec ft env (S fuel) menv (exec_under g c) st = Some (st, r_fail).
  Proof.
    intros Hg. destruct c; cbn [exec_under exec]; try (rewrite run_mods_guard, Hg; reflexivity).
    rewrite run_mods_guard_app, Hg. reflexivity.
  Qed.

  Lemma exec_under_true g c fuel menv st r :
    guard_holds st g = true -> exec ft env fuel menv c st = Some r ->
    exec ft env (S fuel) menv (exec_under g c) st = Some r.
  Proof.
    intros Hg H. destruct c; cbn [exec_under]; try (cbn [exec]; rewrite run_mods_guard, Hg; exact H).
    eapply exec_mono with (n := fuel); [|lia].
    destruct fuel as [|fuel]; [discriminate|]. cbn [exec] in *. rewrite run_mods_guard_app, Hg. exact H.
  Qed.

  Lemma exec_under_inv g c fuel menv st r :
    guard_holds st g = true -> exec ft env fuel menv (exec_under g c) st = Some r ->
    exec ft env fuel menv c st = Some r.
  Proof.
    intros Hg H. destruct fuel as [|fuel]; [discriminate|].
    destruct c; cbn [exec_under] in H;
      try (cbn [exec] in H; rewrite run_mods_guard, Hg in H; eapply exec_mono; [exact H|lia]).
    cbn [exec] in *. rewrite run_mods_guard_app, Hg in H. exact H.
  Qed.

  (* the private function under the tests *)
  Lemma exec_under_call g p body fuel menv st :
    ft p = Some body ->
    exec ft env (S (S fuel)) menv (CExecute (mods_of_guard g) (CCall p)) st =
    if guard_holds st g then call_res (exec_list ft env fuel body st) else Some (st, r_fail).
  Proof.
    intros Hp. cbn [exec]. rewrite run_mods_guard. rewrite Hp. reflexivity.
  Qed.

  Lemma exec_list_single fuel c st :
    exec_list ft env fuel [c] st = match exec ft env fuel no_menv c st with Some (st', _) => Some st' | None => None end.
  Proof. unfold exec_list. cbn [seq_run]. destruct (exec ft env fuel no_menv c st) as [[s r]|]; reflexivity. Qed.

  (* THE CONTEXT THEOREM.  `wrap_under` (one command when the lowering is one command, otherwise ONE call of
     a private function holding all of them) does nothing at all when a test of the prefix fails, and
     otherwise does exactly what the whole lowering does (it terminates iff the lowering does, in the
     same state). *)
  Theorem context_execute nm g count cmds c defs :
    wrap_under nm g count cmds = (c, defs) ->
    (forall d, In d defs -> ft (fst d) = Some (snd d)) ->
    forall st,
      (guard_holds st g = false -> forall fuel, exec ft env (S fuel) no_menv c st = Some (st, r_fail)) /\
      (guard_holds st g = true -> forall st',
         (exists fuel r, exec ft env fuel no_menv c st = Some (st', r)) <->
         (exists fuel, exec_list ft env fuel cmds st = Some st')).
  Proof.
    intros Hw Hd st. unfold wrap_under in Hw.
    assert (Multi : forall p, c = CExecute (mods_of_guard g) (CCall p) -> ft p = Some cmds ->
              (guard_holds st g = false -> forall fuel, exec ft env (S fuel) no_menv c st = Some (st, r_fail)) /\
              (guard_holds st g = true -> forall st',
                 (exists fuel r, exec ft env fuel no_menv c st = Some (st', r)) <->
                 (exists fuel, exec_list ft env fuel cmds st = Some st'))).
    { intros p -> Hp. split.
      - intros Hg fuel. cbn [exec]. rewrite run_mods_guard, Hg. reflexivity.
      - intros Hg st'. split.
        + intros (fuel & r & H). destruct fuel as [|[|fuel]]; [discriminate| |].
          * cbn [exec] in H. rewrite run_mods_guard, Hg in H. discriminate.
          * rewrite (exec_under_call _ _ _ _ _ _ Hp), Hg in H. unfold call_res in H.
            destruct (exec_list ft env fuel cmds st) as [s|] eqn:E; [|discriminate].
            injection H as <- _. eauto.
        + intros (fuel & H). exists (S (S fuel)), (r_ok 0).
          rewrite (exec_under_call _ _ _ _ _ _ Hp), Hg, H. reflexivity. }
    destruct cmds as [|c0 [|c1 rest]].
    - injection Hw as <- <-. apply (Multi _ eq_refl). apply (Hd (_, [])). left; reflexivity.
    - injection Hw as <- <-. split.
      + intros Hg fuel. apply exec_under_false, Hg.
      + intros Hg st'. split.
        * intros (fuel & r & H). apply exec_under_inv in H; [|exact Hg].
          exists fuel. rewrite exec_list_single, H. reflexivity.
        * intros (fuel & H). rewrite exec_list_single in H.
          destruct (exec ft env fuel no_menv c0 st) as [[s r]|] eqn:E; [|discriminate]. injection H as ->.
          exists (S fuel), r. apply exec_under_true; assumption.
    - injection Hw as <- <-. apply (Multi _ eq_refl). apply (Hd (_, _)). left; reflexivity.
  Qed.
End Exec.

(* ------------------------------------------------------------------ what the lowering consists of *)
(* scoreboard commands only: no call, no execute — their meaning does not depend on fuel (>= 1), menv, ft *)
Definition is_sb (c : cmd) : bool :=
  match c with CSet _ _ | CAdd _ _ | CRemove _ _ | COp _ _ _ => true | _ => false end.

Lemma lower_one_sb nm o c i tg : lower_one nm o = (Ok (c, i), tg) -> is_sb c = true.
Proof.
  destruct o as [[v op] n]. unfold lower_one. intros H. destruct n as [z|s].
  - destruct (FLOAT_EXACT <? Z.abs z); [cbn in H; discriminate|].
    destruct op; try (cbn in H; discriminate);
      try (destruct (z =? INT_MIN); [injection H as <- _ _; reflexivity|]);
      inv_bind H; injection Hb0 as <- _ _; try reflexivity; destruct (0 <=? z); reflexivity.
  - destruct (opc_eqb op PPow); [cbn in H; discriminate|]. injection H as <- _ _. reflexivity.
Qed.

Lemma lower_sb nm ops : forall cmds ints tg,
  lower nm ops = (Ok (cmds, ints), tg) -> forallb is_sb cmds = true.
Proof.
  induction ops as [|o r IH]; intros cmds ints tg H.
  - injection H as <- _ _. reflexivity.
  - apply lower_cons in H. destruct H as (c & i & t1 & cs & is & t2 & H1 & H2 & -> & _ & _).
    cbn [forallb]. rewrite (lower_one_sb _ _ _ _ _ H1), (IH _ _ _ H2). reflexivity.
Qed.

Lemma compile_expr_sb nm out form e cmds ints tg :
  compile_expr nm out form e = (Ok (cmds, ints), tg) -> forallb is_sb cmds = true.
Proof.
  unfold compile_expr, compile_assign. destruct (render e) as [|t0 ts]; [discriminate|].
  intros H. inv_bind H. inv_bind Hb0. inv_bind Hb2.
  match goal with HL : lower _ _ = _ |- _ => eapply lower_sb; exact HL end.
Qed.

(* ------------------------------------------------------------------ C02_partial under `execute <tests> run` *)
Lemma wf_exec_under g c : wf_cmd (exec_under g c) = forallb wf_mod (mods_of_guard g) && wf_cmd c.
Proof.
  destruct c; try reflexivity. cbn [exec_under wf_cmd]. rewrite forallb_app, andb_assoc. reflexivity.
Qed.

Section InContext.
  Variable ft : string -> option (list cmd).
  Variable env : nat -> state -> state.

  Lemma wrap_under_run nm g count cmds c defs :
    wrap_under nm g count cmds = (c, defs) ->
    (forall d, In d defs -> ft (fst d) = Some (snd d)) ->
    forall st fuel,
      (guard_holds st g = false -> exec ft env (S (S fuel)) no_menv c st = Some (st, r_fail)) /\
      (guard_holds st g = true -> forall st', exec_list ft env fuel cmds st = Some st' ->
                                   exists r, exec ft env (S (S fuel)) no_menv c st = Some (st', r)).
  Proof.
    intros Hw Hd st fuel.
    destruct (context_execute ft env nm g count cmds c defs Hw Hd st) as [F _].
    split; [intros Hg; apply F, Hg|].
    intros Hg st' H. unfold wrap_under in Hw. destruct cmds as [|c0 [|c1 rest]].
    - injection Hw as <- <-. rewrite (exec_under_call ft env g _ [] fuel no_menv st), Hg, H; [cbn; eauto|].
      apply (Hd (_, [])). left; reflexivity.
    - injection Hw as <- <-. rewrite exec_list_single in H.
      destruct (exec ft env fuel no_menv c0 st) as [[s r]|] eqn:E; [|discriminate]. injection H as ->.
      exists r. eapply exec_mono; [apply exec_under_true; eassumption|lia].
    - injection Hw as <- <-. rewrite (exec_under_call ft env g _ (c0 :: c1 :: rest) fuel no_menv st), Hg, H; [cbn; eauto|].
      apply (Hd (_, _)). left; reflexivity.
  Qed.

  Lemma wrap_under_wf nm g count cmds c defs :
    wrap_under nm g count cmds = (c, defs) ->
    forallb (fun p => wf_test (snd p)) g = true -> forallb wf_cmd cmds = true ->
    wf_cmd c && forallb (fun d => forallb wf_cmd (snd d)) defs = true.
  Proof.
    intros Hw Hg Hc.
    assert (Hm : forallb wf_mod (mods_of_guard g) = true).
    { clear -Hg. induction g as [|[pos t] g IH]; [reflexivity|]. cbn in *. apply andb_prop in Hg. destruct Hg as [-> Hg]. apply IH, Hg. }
    unfold wrap_under in Hw. destruct cmds as [|c0 [|c1 rest]]; injection Hw as <- <-.
    - cbn. rewrite Hm. reflexivity.
    - rewrite wf_exec_under, Hm. cbn in *. rewrite andb_true_r in Hc. rewrite Hc. reflexivity.
    - cbn [wf_cmd forallb snd] in *. rewrite Hm, Hc. reflexivity.
  Qed.

  Theorem partial_in_context nm target form e g count :
    let out := score_of nm target in
    arith e = true -> form <> PPow ->
    (forall n, out <> temp_score nm n) ->
    (forall s n, In s (evars nm e) -> s <> temp_score nm n) ->
    snd out <> int_name nm -> var_name nm <> int_name nm ->
    forallb (fun p => wf_test (snd p)) g = true ->
    exists cmds ints c defs,
      compile_expr nm out form e = (Ok (cmds, ints), []) /\
      wrap_under nm g count cmds = (c, defs) /\
      wf_cmd c && forallb (fun d => forallb wf_cmd (snd d)) defs && forallb wf_cmd (load_ints nm ints) = true /\
      forall st all, (forall d, In d defs -> ft (fst d) = Some (snd d)) ->
        int32_state st -> loaded nm st all -> (forall z, In z ints -> In z all) ->
        exists st' r, exec ft env 3 no_menv c st = Some (st', r) /\
          if guard_holds st g then
            (forall v w, eval nm (rd (sc st)) e = Some v -> form_sem form (rd (sc st) out) v = Some w ->
                         rd (sc st') out = w) /\
            (forall s, s <> out -> (forall n, s <> temp_score nm n) -> rd (sc st') s = rd (sc st) s) /\
            stg st' = stg st /\ tr st' = tr st
          else st' = st.
  Proof.
    intros out Ha Hform Hout Hev Hobj Hnames Hgwf.
    destruct (partial_arith ft env nm target form e Ha Hform Hout Hev Hobj Hnames) as (cmds & ints & Ec & Wf & Run).
    destruct (wrap_under nm g count cmds) as [c defs] eqn:Hw.
    exists cmds, ints, c, defs. split; [exact Ec|]. split; [exact Hw|].
    apply andb_prop in Wf. destruct Wf as [Wc Wi]. split.
    { rewrite (wrap_under_wf _ _ _ _ _ _ Hw Hgwf Wc), Wi. reflexivity. }
    intros st all Hd H32 Hl Hin. destruct (Run st all H32 Hl Hin) as (st1 & E & V & Fr & S1 & T1).
    destruct (wrap_under_run nm g count cmds c defs Hw Hd st 1) as [F T].
    destruct (guard_holds st g) eqn:Hg.
    - destruct (T eq_refl st1 E) as [r Hr]. exists st1, r. split; [exact Hr|]. auto.
    - exists st, r_fail. split; [apply F; reflexivity|reflexivity].
  Qed.
End InContext.

(* ------------------------------------------------------------------ the tree before the patch: refuted *)
(* `execute if score $c __variable__ matches 1.. run $x := $a * $b + 1;`  with c = 0, a = 2, b = 3, x = 0:
   the test fails, the statement must not run; with the prefix on the first line only the other two lines
   run and leave x = 0 * 3 + 1 = 1. *)
Definition w_ctx := mkW X PEmpty (EBin BAdd (EBin BMul A B) (EConst 1)) [(sa, 2); (sb, 3); (sc_, 0); (sx, 0)].
Definition g_ctx : ExprCtx.guard := [(true, Matches sc_ (From 1))].

Definition oz_eqb (a b : option Z) : bool :=
  match a, b with Some x, Some y => x =? y | None, None => true | _, _ => false end.
Lemma oz_eqb_eq a b : oz_eqb a b = true -> a = b.
Proof. destruct a, b; cbn; intros H; try discriminate; [apply Z.eqb_eq in H; congruence|reflexivity]. Qed.

Definition naive_under_check : bool :=
  match model_run w_ctx with
  | (Ok (cmds, ints), []) =>
    Nat.eqb (length cmds) 3 && negb (guard_holds (w_state w_ctx ints) g_ctx) &&
    match exec_list no_ft no_env 2 (naive_under g_ctx cmds) (w_state w_ctx ints) with
    | Some st' => oz_eqb (sc (w_state w_ctx ints) (w_score w_ctx)) (Some 0) && oz_eqb (sc st' (w_score w_ctx)) (Some 1)
    | None => false
    end
  | _ => false
  end.

Lemma naive_under_refuted :
  exists cmds ints st',
    model_run w_ctx = (Ok (cmds, ints), []) /\ length cmds = 3%nat /\
    guard_holds (w_state w_ctx ints) g_ctx = false /\
    exec_list no_ft no_env 2 (naive_under g_ctx cmds) (w_state w_ctx ints) = Some st' /\
    sc (w_state w_ctx ints) (w_score w_ctx) = Some 0 /\ sc st' (w_score w_ctx) = Some 1.
Proof.
  assert (H : naive_under_check = true) by (vm_compute; reflexivity).
  unfold naive_under_check in H.
  destruct (model_run w_ctx) as [[[cmds ints]| | |] [|t ts]]; try discriminate.
  destruct (exec_list no_ft no_env 2 (naive_under g_ctx cmds) (w_state w_ctx ints)) as [st'|] eqn:E;
    [|rewrite andb_false_r in H; discriminate].
  apply andb_prop in H. destruct H as [H H3]. apply andb_prop in H. destruct H as [H1 H2].
  apply andb_prop in H3. destruct H3 as [H3 H4].
  exists cmds, ints, st'. split; [reflexivity|]. split; [apply Nat.eqb_eq, H1|].
  split; [apply negb_true_iff, H2|]. split; [exact E|]. split; apply oz_eqb_eq; assumption.
Qed.

(* the repaired placement of the same statement from the same state: nothing happens *)
Definition wrap_under_check : bool :=
  match model_run w_ctx with
  | (Ok (cmds, ints), []) =>
    let '(c, defs) := wrap_under nm0 g_ctx 0 cmds in
    String.eqb (pr_cmd c) "execute if score $c __variable__ matches 1.. run function TEST:__private__/anonymous/0" &&
    match map fst defs with [n] => String.eqb n "TEST:__private__/anonymous/0" | _ => false end &&
    negb (guard_holds (w_state w_ctx ints) g_ctx)
  | _ => false
  end.

Lemma wrap_under_witness :
  exists cmds ints c defs,
    model_run w_ctx = (Ok (cmds, ints), []) /\ wrap_under nm0 g_ctx 0 cmds = (c, defs) /\
    pr_cmd c = "execute if score $c __variable__ matches 1.. run function TEST:__private__/anonymous/0"%string /\
    map fst defs = ["TEST:__private__/anonymous/0"%string] /\
    forall ft env, (forall d, In d defs -> ft (fst d) = Some (snd d)) ->
      exec ft env 3 no_menv c (w_state w_ctx ints) = Some (w_state w_ctx ints, r_fail).
Proof.
  assert (H : wrap_under_check = true) by (vm_compute; reflexivity).
  unfold wrap_under_check in H.
  destruct (model_run w_ctx) as [[[cmds ints]| | |] [|t ts]]; try discriminate.
  destruct (wrap_under nm0 g_ctx 0 cmds) as [c defs] eqn:Hw.
  apply andb_prop in H. destruct H as [H H3]. apply andb_prop in H. destruct H as [H1 H2].
  exists cmds, ints, c, defs. split; [reflexivity|]. split; [exact Hw|].
  split; [apply String.eqb_eq, H1|]. split.
  { destruct (map fst defs) as [|n [|n' r]]; try discriminate. apply String.eqb_eq in H2. congruence. }
  intros ft env Hd.
  destruct (wrap_under_run ft env nm0 g_ctx 0 _ _ _ Hw Hd (w_state w_ctx ints) 1) as [F _].
  apply F. apply negb_true_iff, H3.
Qed.

(* ------------------------------------------------------------------ chained assignment `o = <statement>` *)
Section Chain.
  Variable ft : string -> option (list cmd).
  Variable env : nat -> state -> state.

  Lemma chain_stmt_multi o out cmds : length cmds <> 1%nat -> chain_stmt o out cmds = (cmds ++ [COp o OAssign out])%list.
  Proof. destruct cmds as [|c0 [|c1 r]]; cbn; intros H; try reflexivity. congruence. Qed.

  Lemma copy_run fuel o out st :
    exists st'', exec ft env (S fuel) no_menv (COp o OAssign out) st = Some (st'', r_ok (rd (sc st) out)) /\
      rd (sc st'') o = rd (sc st) out /\ (forall s, s <> o -> rd (sc st'') s = rd (sc st) s) /\
      stg st'' = stg st /\ tr st'' = tr st.
  Proof.
    eexists. split; [reflexivity|]. cbn [set_sc sc stg tr]. split; [apply rd_upd_same|]. split; [|split; reflexivity].
    intros s Hs. rewrite !rd_upd_other by congruence.
    destruct (score_eqb_spec out s) as [->|Hne]; [apply rd_upd_same|apply rd_upd_other; exact Hne].
  Qed.

  (* the inner statement runs first, then its target is copied: the outer target ends with the value the
     inner target ends with, nothing else changes *)
  Theorem chain_copy fuel cmds o out st st' :
    exec_list ft env (S fuel) cmds st = Some st' ->
    exists st'', exec_list ft env (S fuel) (cmds ++ [COp o OAssign out])%list st = Some st'' /\
      rd (sc st'') o = rd (sc st') out /\ (forall s, s <> o -> rd (sc st'') s = rd (sc st') s) /\
      stg st'' = stg st' /\ tr st'' = tr st'.
  Proof.
    intros H. destruct (copy_run fuel o out st') as (st'' & E & R).
    exists st''. split; [|exact R]. rewrite exec_list_app, H, exec_list_single, E. reflexivity.
  Qed.

  Theorem partial_chained nm target form e o :
    let out := score_of nm target in
    arith e = true -> form <> PPow ->
    (forall n, out <> temp_score nm n) ->
    (forall s n, In s (evars nm e) -> s <> temp_score nm n) ->
    snd out <> int_name nm -> var_name nm <> int_name nm ->
    exists cmds ints,
      compile_expr nm out form e = (Ok (cmds, ints), []) /\
      (length cmds <> 1%nat -> chain_stmt o out cmds = (cmds ++ [COp o OAssign out])%list) /\
      forall st all, int32_state st -> loaded nm st all -> (forall z, In z ints -> In z all) ->
        exists st', exec_list ft env 1 (cmds ++ [COp o OAssign out])%list st = Some st' /\
          (forall v w, eval nm (rd (sc st)) e = Some v -> form_sem form (rd (sc st) out) v = Some w ->
                       rd (sc st') out = w /\ rd (sc st') o = w) /\
          (forall s, s <> out -> s <> o -> (forall n, s <> temp_score nm n) -> rd (sc st') s = rd (sc st) s) /\
          stg st' = stg st /\ tr st' = tr st.
  Proof.
    intros out Ha Hform Hout Hev Hobj Hnames.
    destruct (partial_arith ft env nm target form e Ha Hform Hout Hev Hobj Hnames) as (cmds & ints & Ec & _ & Run).
    exists cmds, ints. split; [exact Ec|]. split; [apply chain_stmt_multi|].
    intros st all H32 Hl Hin. destruct (Run st all H32 Hl Hin) as (st1 & E & V & Fr & S1 & T1).
    destruct (chain_copy 0 cmds o out st st1 E) as (st2 & E2 & Ro & Rs & S2 & T2).
    exists st2. split; [exact E2|]. split; [|split; [|split; congruence]].
    - intros v w Hv Hw. specialize (V v w Hv Hw). split; [|rewrite Ro; exact V].
      destruct (score_eqb_spec o out) as [Heq|Hne]; [rewrite <- Heq at 1; rewrite Ro; exact V|].
      rewrite Rs; [exact V|]. intros Heq. apply Hne. symmetry. exact Heq.
    - intros s H1 H2 H3. rewrite Rs by exact H2. apply Fr; assumption.
  Qed.
End Chain.

(* `$o = $x := $a * $b + 1;` with a = 2, b = 3: with `execute store result score $o … run` in front of the
   first line only, $o receives the result of `$x = $a`, i.e. 2, while $x ends as 7 *)
Definition so : score := ("$o", "__variable__")%string.
Definition naive_chain_check : bool :=
  match model_run w_ctx with
  | (Ok (cmds, ints), []) =>
    match exec_list no_ft no_env 2 (naive_chain so cmds) (w_state w_ctx ints) with
    | Some st' => oz_eqb (sc st' (w_score w_ctx)) (Some 7) && oz_eqb (sc st' so) (Some 2)
    | None => false
    end
  | _ => false
  end.

Lemma naive_chain_refuted :
  exists cmds ints st',
    model_run w_ctx = (Ok (cmds, ints), []) /\
    exec_list no_ft no_env 2 (naive_chain so cmds) (w_state w_ctx ints) = Some st' /\
    sc st' (w_score w_ctx) = Some 7 /\ sc st' so = Some 2.
Proof.
  assert (H : naive_chain_check = true) by (vm_compute; reflexivity).
  unfold naive_chain_check in H.
  destruct (model_run w_ctx) as [[[cmds ints]| | |] [|t ts]]; try discriminate.
  destruct (exec_list no_ft no_env 2 (naive_chain so cmds) (w_state w_ctx ints)) as [st'|] eqn:E; [|discriminate].
  apply andb_prop in H. destruct H as [H1 H2].
  exists cmds, ints, st'. split; [reflexivity|]. split; [exact E|]. split; apply oz_eqb_eq; assumption.
Qed.

(* ------------------------------------------------------------------ `return run <statement>` *)
Section Return.
  Variable ft : string -> option (list cmd).
  Variable env : nat -> state -> state.
  Variable xft : string -> option (list line).

  Notation xrun := (xrun ft env xft).
  Notation xcmd := (xcmd ft env xft).

  Lemma xrun_mono : forall n l st o, xrun n l st = Some o -> forall m, (n <= m)%nat -> xrun m l st = Some o.
  Proof.
    induction n as [|n IH]; intros l st o H m Hm; [discriminate|].
    destruct m as [|m]; [lia|]. assert (Hnm : (n <= m)%nat) by lia.
    cbn [ExprCtx.xrun] in *. destruct l as [|ln rest]; [exact H|].
    destruct (guard_holds st (l_guard ln)); [|apply IH with (m := m) in H; [exact H|exact Hnm]].
    assert (XC : forall r, xcmd (xrun n) n (l_cmd ln) st = Some r -> xcmd (xrun m) m (l_cmd ln) st = Some r).
    { intros r Hr. unfold ExprCtx.xcmd in *.
      assert (EX : forall c, match exec ft env n no_menv c st with Some (st', r0) => Some (st', Some r0) | None => None end = Some r ->
                   match exec ft env m no_menv c st with Some (st', r0) => Some (st', Some r0) | None => None end = Some r).
      { intros c Hc. destruct (exec ft env n no_menv c st) as [[s1 r1]|] eqn:E; [|discriminate].
        rewrite (exec_mono ft env _ _ _ _ _ E m Hnm). exact Hc. }
      destruct (l_cmd ln); try (apply EX; exact Hr).
      destruct (xft f) as [body|]; [|apply EX; exact Hr].
      destruct (xrun n body st) as [o1|] eqn:E; [|discriminate].
      rewrite (IH _ _ _ E m Hnm). exact Hr. }
    destruct (xcmd (xrun n) n (l_cmd ln) st) as [[s1 r1]|] eqn:E; [|discriminate].
    rewrite (XC _ eq_refl). destruct (l_ret ln); [exact H|]. apply IH with (m := m) in H; [exact H|exact Hnm].
  Qed.

  Definition no_call (c : cmd) : bool := match c with CCall _ => false | _ => true end.

  Lemma xcmd_no_call f n c st : no_call c = true ->
    xcmd f n c st = match exec ft env n no_menv c st with Some (st', r) => Some (st', Some r) | None => None end.
  Proof. destruct c; try reflexivity. discriminate. Qed.

  (* lines without `return` and without calls of returning functions mean what MC.Sem says *)
  Lemma xrun_plain_prefix cmds : forall fuel st st' rest m,
    forallb no_call cmds = true -> exec_list ft env fuel cmds st = Some st' -> (fuel <= m)%nat ->
    xrun (length cmds + m) (map plain cmds ++ rest) st = xrun m rest st'.
  Proof.
    induction cmds as [|c cs IH]; intros fuel st st' rest m Hn H Hm.
    - injection H as ->. reflexivity.
    - cbn [forallb] in Hn. apply andb_prop in Hn. destruct Hn as [Hc Hn].
      unfold exec_list in H. cbn [seq_run] in H.
      destruct (exec ft env fuel no_menv c st) as [[s1 r1]|] eqn:E; [|discriminate].
      cbn [length map app plus ExprCtx.xrun plain l_guard l_ret l_cmd guard_holds forallb].
      rewrite xcmd_no_call by exact Hc.
      rewrite (exec_mono ft env _ _ _ _ _ E (length cs + m)%nat) by lia.
      apply (IH fuel); assumption.
  Qed.

  Lemma removelast_last_split (l : list cmd) d : l <> [] -> l = (removelast l ++ [last l d])%list.
  Proof. apply app_removelast_last. Qed.

  Lemma forallb_removelast (f : cmd -> bool) l : forallb f l = true -> forallb f (removelast l) = true.
  Proof.
    induction l as [|a [|b r] IH]; intros H; try reflexivity.
    cbn [forallb] in H. apply andb_prop in H. destruct H as [Ha H].
    change (removelast (a :: b :: r)) with (a :: removelast (b :: r)). cbn [forallb]. rewrite Ha. apply IH, H.
  Qed.

  (* the function created for a statement behind `return run`: all lines but the last run, the last one
     returns its own result *)
  Lemma ret_last_run body fuel st st1 st' r :
    body <> [] -> forallb no_call body = true ->
    exec_list ft env fuel (removelast body) st = Some st1 ->
    exec ft env fuel no_menv (last body (COther "")) st1 = Some (st', r) ->
    xrun (length body + S fuel) (ret_last body) st = Some (Returned st' r).
  Proof.
    intros Hne Hn H1 H2. unfold ret_last. destruct body as [|b0 bs]; [congruence|].
    set (body := b0 :: bs) in *.
    assert (Hl : length body = S (length (removelast body))).
    { rewrite (removelast_last_split body (COther "") Hne) at 1. rewrite app_length. cbn. lia. }
    rewrite Hl. replace (S (length (removelast body)) + S fuel)%nat with (length (removelast body) + S (S fuel))%nat by lia.
    rewrite (xrun_plain_prefix _ fuel st st1); [|apply forallb_removelast, Hn|exact H1|lia].
    cbn [ExprCtx.xrun l_guard l_ret l_cmd guard_holds forallb].
    rewrite xcmd_no_call.
    - rewrite (exec_mono ft env _ _ _ _ _ H2 (S fuel)) by lia. reflexivity.
    - rewrite (removelast_last_split body (COther "") Hne), forallb_app in Hn. apply andb_prop in Hn.
      destruct Hn as [_ Hn]. cbn in Hn. rewrite andb_true_r in Hn. exact Hn.
  Qed.

  (* THE CONTEXT THEOREM FOR `return run`.  body = the commands of the statement (after a chained assignment's
     copy, if any); `place` puts ONE line in the function.  If a test of the prefix fails the line is skipped
     and the function goes on; otherwise the whole body runs, the function is left (the lines after the
     statement do not run) and the value returned is the result of the body's last command; a statement
     without commands returns failure. *)
  Theorem context_return nm g chain count out cmds lines defs :
    place nm (mkCtx g true chain) count out cmds = (lines, defs) ->
    (forall d, In d defs -> xft (fst d) = Some (snd d)) ->
    let body := chain_all chain out cmds in
    forallb no_call body = true ->
    forall rest st,
      (guard_holds st g = false -> forall m, xrun (S m) (lines ++ rest) st = xrun m rest st) /\
      (guard_holds st g = true ->
         (body = [] -> forall m, (2 <= m)%nat -> xrun m (lines ++ rest) st = Some (Returned st r_fail)) /\
         (forall fuel st1 st' r,
            body <> [] ->
            exec_list ft env fuel (removelast body) st = Some st1 ->
            exec ft env fuel no_menv (last body (COther "")) st1 = Some (st', r) ->
            forall m, (length body + fuel + 2 <= m)%nat -> xrun m (lines ++ rest) st = Some (Returned st' r))).
  Proof.
    intros Hp Hd body Hn rest st. unfold place, k_plain in Hp. cbn [k_guard k_ret k_chain] in Hp.
    replace (match g with [] => negb true | _ :: _ => false end) with false in Hp by (destruct g; reflexivity).
    assert (Eb0 : body = chain_all chain out cmds) by reflexivity. clearbody body. rewrite <- Eb0 in Hp. clear Eb0.
    assert (Multi : lines = [mkLine g true (CCall (anon_fn nm count))] -> xft (anon_fn nm count) = Some (ret_last body) ->
              (forall c, body <> [c]) ->
      (guard_holds st g = false -> forall m, xrun (S m) (lines ++ rest) st = xrun m rest st) /\
      (guard_holds st g = true ->
         (body = [] -> forall m, (2 <= m)%nat -> xrun m (lines ++ rest) st = Some (Returned st r_fail)) /\
         (forall fuel st1 st' r,
            body <> [] ->
            exec_list ft env fuel (removelast body) st = Some st1 ->
            exec ft env fuel no_menv (last body (COther "")) st1 = Some (st', r) ->
            forall m, (length body + fuel + 2 <= m)%nat -> xrun m (lines ++ rest) st = Some (Returned st' r)))).
    { intros -> Hx Hns. split.
      - intros Hg m. cbn [app ExprCtx.xrun l_guard]. rewrite Hg. reflexivity.
      - intros Hg. split.
        + intros Hb m Hm. apply xrun_mono with (n := 2%nat); [|exact Hm].
          cbn [app ExprCtx.xrun l_guard l_ret l_cmd ExprCtx.xcmd]. rewrite Hg, Hx, Hb. reflexivity.
        + intros fuel st1 st' r Hne H1 H2 m Hm.
          apply xrun_mono with (n := S (length body + S fuel)); [|lia].
          cbn [app ExprCtx.xrun l_guard l_ret l_cmd ExprCtx.xcmd]. rewrite Hg, Hx.
          rewrite (ret_last_run body fuel st st1 st' r Hne Hn H1 H2). reflexivity. }
    destruct body as [|c0 [|c1 bs]] eqn:Eb; cbv beta iota zeta in Hp.
    - injection Hp as <- <-. apply Multi; [reflexivity| |discriminate].
      apply (Hd (_, _)). left; reflexivity.
    - injection Hp as <- <-. split.
      + intros Hg m. cbn [app ExprCtx.xrun l_guard]. rewrite Hg. reflexivity.
      + intros Hg. split; [discriminate|].
        intros fuel st1 st' r _ H1 H2 m Hm. cbn [removelast] in H1. injection H1 as <-. cbn [last] in H2.
        apply xrun_mono with (n := S fuel); [|cbn in Hm; lia].
        cbn [app ExprCtx.xrun l_guard l_ret l_cmd]. rewrite Hg.
        cbn [forallb] in Hn. rewrite andb_true_r in Hn. rewrite xcmd_no_call by exact Hn. rewrite H2. reflexivity.
    - injection Hp as <- <-. apply Multi; [reflexivity| |discriminate].
      apply (Hd (_, _)). left; reflexivity.
  Qed.

  (* what the caller `o = f()` sees: `execute store result score o run function f` *)
  Corollary observe_returned fuel o body st st' r :
    xrun fuel body st = Some (Returned st' r) -> observe ft env xft fuel o body st = Some (set_sc st' o (val r)).
  Proof. unfold observe. intros ->. reflexivity. Qed.
End Return.

Lemma sb_no_call c : is_sb c = true -> no_call c = true.
Proof. destruct c; try reflexivity; discriminate. Qed.
Lemma forallb_sb_no_call l : forallb is_sb l = true -> forallb no_call l = true.
Proof.
  induction l as [|c l IH]; [reflexivity|]. cbn [forallb]. intros H. apply andb_prop in H. destruct H as [Hc H].
  rewrite (sb_no_call _ Hc), (IH H). reflexivity.
Qed.
Lemma chain_stmt_no_call o out l : forallb no_call l = true -> forallb no_call (chain_stmt o out l) = true.
Proof.
  intros H. destruct l as [|c0 [|c1 r]]; cbn [chain_stmt]; try (rewrite forallb_app, H; reflexivity).
  cbn [forallb]. destruct c0; try reflexivity. cbn. destruct ms as [|[? ?|? ?] ms]; reflexivity.
Qed.
Lemma chain_all_no_call chain : forall out l, forallb no_call l = true -> forallb no_call (chain_all chain out l) = true.
Proof.
  induction chain as [|o r IH]; intros out l H; [exact H|]. cbn [chain_all]. apply IH, chain_stmt_no_call, H.
Qed.

(* ------------------------------------------------------------------ C02_partial behind `[execute <tests> run] return run` *)
Section ReturnPartial.
  Variable ft : string -> option (list cmd).
  Variable env : nat -> state -> state.
  Variable xft : string -> option (list line).

  Lemma exec_list_split_last fuel body st st' :
    body <> [] -> exec_list ft env fuel body st = Some st' ->
    exists st1 r, exec_list ft env fuel (removelast body) st = Some st1 /\
                  exec ft env fuel no_menv (last body (COther "")) st1 = Some (st', r).
  Proof.
    intros Hne H. rewrite (removelast_last_split body (COther "") Hne), exec_list_app in H.
    destruct (exec_list ft env fuel (removelast body) st) as [st1|]; [|discriminate].
    rewrite exec_list_single in H.
    destruct (exec ft env fuel no_menv (last body (COther "")) st1) as [[s r]|] eqn:E; [|discriminate].
    injection H as ->. eauto.
  Qed.

  Theorem partial_return nm target form e g count :
    let out := score_of nm target in
    arith e = true -> form <> PPow ->
    (forall n, out <> temp_score nm n) ->
    (forall s n, In s (evars nm e) -> s <> temp_score nm n) ->
    snd out <> int_name nm -> var_name nm <> int_name nm ->
    exists cmds ints lines defs,
      compile_expr nm out form e = (Ok (cmds, ints), []) /\
      place nm (mkCtx g true []) count out cmds = (lines, defs) /\
      forall rest st all, (forall d, In d defs -> xft (fst d) = Some (snd d)) ->
        int32_state st -> loaded nm st all -> (forall z, In z ints -> In z all) ->
        if guard_holds st g then
          exists st' r, (forall m, (length cmds + 3 <= m)%nat ->
                                   xrun ft env xft m (lines ++ rest) st = Some (Returned st' r)) /\
            (forall v w, eval nm (rd (sc st)) e = Some v -> form_sem form (rd (sc st) out) v = Some w ->
                         rd (sc st') out = w) /\
            (forall s, s <> out -> (forall n, s <> temp_score nm n) -> rd (sc st') s = rd (sc st) s) /\
            stg st' = stg st /\ tr st' = tr st
        else forall m, xrun ft env xft (S m) (lines ++ rest) st = xrun ft env xft m rest st.
  Proof.
    intros out Ha Hform Hout Hev Hobj Hnames.
    destruct (partial_arith ft env nm target form e Ha Hform Hout Hev Hobj Hnames) as (cmds & ints & Ec & _ & Run).
    destruct (place nm (mkCtx g true []) count out cmds) as [lines defs] eqn:Hp.
    exists cmds, ints, lines, defs. split; [exact Ec|]. split; [exact Hp|].
    intros rest st all Hd H32 Hl Hin.
    assert (Hn : forallb (no_call) (chain_all [] out cmds) = true).
    { cbn [chain_all]. apply forallb_sb_no_call. eapply compile_expr_sb, Ec. }
    destruct (context_return ft env xft nm g [] count out cmds lines defs Hp Hd Hn rest st) as [F T].
    destruct (guard_holds st g) eqn:Hg; [|apply F; reflexivity].
    destruct (Run st all H32 Hl Hin) as (st1 & E & V & Fr & S1 & T1).
    destruct (T eq_refl) as [T0 T1']. cbn [chain_all] in *.
    destruct cmds as [|c0 cs] eqn:Ecm.
    - injection E as <-. exists st, r_fail. split; [intros m Hm; apply T0; [reflexivity|cbn in Hm; lia]|]. auto.
    - rewrite <- Ecm in *. assert (Hne : cmds <> []) by (rewrite Ecm; discriminate).
      destruct (exec_list_split_last 1 cmds st st1 Hne E) as (s1 & r & H1 & H2).
      exists st1, r. split; [intros m Hm; apply (T1' 1%nat s1 st1 r Hne H1 H2); lia|]. auto.
  Qed.
End ReturnPartial.
