(* Proofs/StrOps.v — C19: facts about simultaneous / sequential textual substitution. *)
From Coq Require Import String List Bool Arith Ascii Lia Sorted.
From JMCV Require Import Model.StrOps Model.Hardcode.
Import ListNotations.

(* ------------------------------------------------------------------ strings *)

Lemma sapp_assoc (a b c : string) : ((a ++ b) ++ c = a ++ (b ++ c))%string.
Proof. induction a as [|x a IH]; cbn; [reflexivity | now rewrite IH]. Qed.
Lemma sapp_nil_r (a : string) : (a ++ "" = a)%string.
Proof. induction a as [|x a IH]; cbn; [reflexivity | now rewrite IH]. Qed.
Lemma slength_app (a b : string) : String.length (a ++ b) = String.length a + String.length b.
Proof. induction a as [|x a IH]; cbn; [reflexivity | now rewrite IH]. Qed.

(* ------------------------------------------------------------------ prefixb, first_match *)

Lemma prefixb_length p s : prefixb p s = true -> String.length p <= String.length s.
Proof.
  revert s. induction p as [|a p IH]; intros s H; cbn in *; [lia|].
  destruct s as [|b s]; [discriminate|]. apply andb_true_iff in H as [_ H]. apply IH in H. cbn. lia.
Qed.

Lemma first_match_some pats s p a :
  first_match pats s = Some (p, a) -> p <> EmptyString /\ prefixb p s = true /\ In (p, a) pats.
Proof.
  induction pats as [|[q b] r IH]; cbn [first_match]; [discriminate|].
  destruct q as [|c q].
  - intros H. destruct (IH H) as (H1 & H2 & H3). repeat split; auto. now right.
  - destruct (prefixb (String c q) s) eqn:E.
    + intros H. injection H as <- <-. repeat split; [discriminate | exact E | now left].
    + intros H. destruct (IH H) as (H1 & H2 & H3). repeat split; auto. now right.
Qed.

(* ------------------------------------------------------------------ (2), (4): a reference / a non-matching character *)

Lemma subst_scan_skip pats x rest :
  subst_scan pats (String.length x) (x ++ rest) = subst_scan pats 0 rest.
Proof.
  induction x as [|c x IH]; cbn [String.length append]; [reflexivity|].
  cbn [subst_scan]. exact IH.
Qed.

Lemma subst_sim_ref :
  forall pats p a rest,
    first_match pats (p ++ rest) = Some (p, a) ->
    subst_sim pats (p ++ rest) = (a ++ subst_sim pats rest)%string.
Proof.
  intros pats p a rest H. unfold subst_sim.
  destruct (first_match_some _ _ _ _ H) as (Hne & _ & _).
  destruct p as [|c p]; [congruence|].
  cbn [append] in *. cbn [subst_scan]. rewrite H.
  replace (String.length (String c p) - 1) with (String.length p) by (cbn [String.length]; lia).
  now rewrite subst_scan_skip.
Qed.

Lemma subst_sim_nomatch :
  forall pats c rest,
    first_match pats (String c rest) = None ->
    subst_sim pats (String c rest) = String c (subst_sim pats rest).
Proof. intros pats c rest H. unfold subst_sim. cbn [subst_scan]. now rewrite H. Qed.

(* ------------------------------------------------------------------ (1): text without "$" *)

Lemma first_match_no_dollar pats c r :
  Forall (fun pa : string * string => exists n, fst pa = dollar n) pats ->
  Ascii.eqb c "$"%char = false ->
  first_match pats (String c r) = None.
Proof.
  intros HF Hc. induction HF as [|[p a] pats (n & Hn) _ IH]; [reflexivity|].
  cbn [fst] in Hn. subst p. unfold dollar. cbn [first_match prefixb].
  rewrite Ascii.eqb_sym, Hc. cbn. exact IH.
Qed.

Lemma subst_sim_copy :
  forall pats s,
    Forall (fun pa => exists n, fst pa = dollar n) pats ->
    contains_char "$"%char s = false ->
    subst_sim pats s = s.
Proof.
  intros pats s HF. unfold subst_sim. induction s as [|c s IH]; intros H; [reflexivity|].
  cbn [contains_char] in H. apply orb_false_iff in H as [Hc Hs].
  cbn [subst_scan]. rewrite (first_match_no_dollar pats c s HF Hc). now rewrite IH.
Qed.

(* ------------------------------------------------------------------ (3): independence across a "$" *)

Lemma prefixb_before_dollar n a b :
  contains_char "$"%char n = false ->
  prefixb n (a ++ String "$"%char b) = prefixb n a.
Proof.
  revert a. induction n as [|d n IH]; intros a H; [reflexivity|].
  cbn [contains_char] in H. apply orb_false_iff in H as [Hd Hn].
  destruct a as [|e a]; cbn [append prefixb].
  - now rewrite Hd.
  - now rewrite IH.
Qed.

Lemma first_match_before_dollar pats c a b :
  Forall (fun pa : string * string =>
            exists n, fst pa = dollar n /\ contains_char "$"%char n = false) pats ->
  first_match pats (String c (a ++ String "$"%char b)) = first_match pats (String c a).
Proof.
  intros HF. induction HF as [|[p x] pats (n & Hn & Hd) _ IH]; [reflexivity|].
  cbn [fst] in Hn. subst p. unfold dollar. cbn [first_match prefixb].
  rewrite (prefixb_before_dollar n a b Hd). now rewrite IH.
Qed.

Lemma subst_scan_all_skipped pats a : subst_scan pats (String.length a) a = EmptyString.
Proof. induction a as [|c a IH]; [reflexivity|]. cbn [String.length subst_scan]. exact IH. Qed.

Lemma subst_scan_app pats b :
  Forall (fun pa : string * string =>
            exists n, fst pa = dollar n /\ contains_char "$"%char n = false) pats ->
  forall a k, k <= String.length a ->
    subst_scan pats k (a ++ dollar b) = (subst_scan pats k a ++ subst_scan pats 0 (dollar b))%string.
Proof.
  intros HF. induction a as [|c a IH]; intros k Hk.
  - cbn in Hk. assert (k = 0) as -> by lia. reflexivity.
  - cbn [append]. destruct k as [|k].
    + cbn [subst_scan]. unfold dollar at 1. rewrite (first_match_before_dollar pats c a b HF).
      destruct (first_match pats (String c a)) as [[p x]|] eqn:E.
      * destruct (first_match_some _ _ _ _ E) as (_ & Hp & _).
        apply prefixb_length in Hp. cbn [String.length] in Hp.
        fold (dollar b). rewrite IH by lia.
        now rewrite sapp_assoc.
      * fold (dollar b). rewrite IH by lia. reflexivity.
    + cbn [subst_scan]. cbn [String.length] in Hk. apply IH. lia.
Qed.

Lemma subst_sim_app :
  forall pats a b,
    Forall (fun pa => exists n, fst pa = dollar n /\ contains_char "$"%char n = false) pats ->
    subst_sim pats (a ++ dollar b) = (subst_sim pats a ++ subst_sim pats (dollar b))%string.
Proof. intros pats a b HF. unfold subst_sim. apply subst_scan_app; [exact HF | lia]. Qed.

(* ------------------------------------------------------------------ (5): sorted keys => longest match *)

Definition len_ge (x y : string * string) : Prop := String.length (fst y) <= String.length (fst x).

Lemma insert_by_len_In x l z : In z (insert_by_len x l) <-> z = x \/ In z l.
Proof.
  induction l as [|y r IH]; cbn [insert_by_len].
  - cbn. intuition.
  - destruct (Nat.ltb _ _); cbn [In]; [intuition|]. rewrite IH. intuition.
Qed.

Lemma insert_by_len_sorted x l :
  StronglySorted len_ge l -> StronglySorted len_ge (insert_by_len x l).
Proof.
  induction l as [|y r IH]; intros HS; cbn [insert_by_len].
  - constructor; constructor.
  - inversion HS as [|? ? HSr Hy]; subst.
    destruct (Nat.ltb (String.length (fst y)) (String.length (fst x))) eqn:E.
    + apply Nat.ltb_lt in E. constructor; [exact HS|].
      constructor; [unfold len_ge; lia|].
      rewrite Forall_forall in *. intros z Hz. specialize (Hy z Hz). unfold len_ge in *. lia.
    + apply Nat.ltb_ge in E. constructor; [now apply IH|].
      rewrite Forall_forall in *. intros z Hz. apply insert_by_len_In in Hz as [-> | Hz].
      * exact E.
      * now apply Hy.
Qed.

Lemma sort_fold_sorted l : forall acc,
  StronglySorted len_ge acc ->
  StronglySorted len_ge (fold_left (fun acc x => insert_by_len x acc) l acc) /\
  (forall z, In z (fold_left (fun acc x => insert_by_len x acc) l acc) <-> In z acc \/ In z l).
Proof.
  induction l as [|x l IH]; intros acc HS; cbn [fold_left].
  - split; [exact HS|]. cbn. intuition.
  - destruct (IH (insert_by_len x acc) (insert_by_len_sorted x acc HS)) as [H1 H2].
    split; [exact H1|]. intros z. rewrite H2, insert_by_len_In. cbn [In]. intuition.
Qed.

Lemma sort_by_len_desc_sorted l : StronglySorted len_ge (sort_by_len_desc l).
Proof. apply sort_fold_sorted. constructor. Qed.
Lemma sort_by_len_desc_In l z : In z (sort_by_len_desc l) <-> In z l.
Proof.
  unfold sort_by_len_desc. destruct (sort_fold_sorted l [] (SSorted_nil _)) as [_ H].
  rewrite H. cbn. intuition.
Qed.

Lemma first_match_sorted_longest L s p a :
  StronglySorted len_ge L ->
  first_match L s = Some (p, a) ->
  forall q b, In (q, b) L -> q <> EmptyString -> prefixb q s = true ->
              String.length q <= String.length p.
Proof.
  induction L as [|[p0 a0] r IH]; intros HS HF q b Hin Hq Hpre; [destruct Hin|].
  inversion HS as [|? ? HSr Hhd]; subst.
  cbn [first_match] in HF.
  destruct p0 as [|c p0].
  - destruct Hin as [E | Hin]; [injection E as <- <-; congruence|].
    eapply IH; eauto.
  - destruct (prefixb (String c p0) s) eqn:E.
    + injection HF as <- <-. destruct Hin as [E' | Hin]; [injection E' as <- <-; lia|].
      rewrite Forall_forall in Hhd. specialize (Hhd _ Hin). exact Hhd.
    + destruct Hin as [E' | Hin]; [injection E' as <- <-; congruence|].
      eapply IH; eauto.
Qed.

Lemma first_match_longest :
  forall pats s p a,
    first_match (sort_by_len_desc pats) s = Some (p, a) ->
    forall q b, In (q, b) pats -> q <> EmptyString -> prefixb q s = true ->
                (String.length q <= String.length p)%nat.
Proof.
  intros pats s p a HF q b Hin Hq Hpre.
  apply (first_match_sorted_longest (sort_by_len_desc pats) s p a (sort_by_len_desc_sorted pats) HF q b);
    [now apply sort_by_len_desc_In | exact Hq | exact Hpre].
Qed.

(* ------------------------------------------------------------------ one key: sequential = simultaneous *)

Lemma repl_is_scan p a :
  p <> EmptyString -> forall s k, repl p a k s = subst_scan [(p, a)] k s.
Proof.
  intros Hp. induction s as [|c s IH]; intros k; [reflexivity|].
  cbn [repl subst_scan]. destruct k as [|k]; [|apply IH].
  cbn [first_match]. destruct p as [|d p]; [congruence|].
  destruct (prefixb (String d p) (String c s)); now rewrite IH.
Qed.

Lemma subst_seq_single :
  forall p a s, p <> EmptyString -> subst_seq [(p, a)] s = subst_sim [(p, a)] s.
Proof.
  intros p a s Hp. unfold subst_seq, subst_sim. cbn [fold_left fst snd].
  unfold replace_all. destruct p as [|d p]; [congruence|]. now apply repl_is_scan.
Qed.
