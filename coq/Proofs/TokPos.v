(* Proofs.TokPos — positions in the file; nested re-tokenisations; the col_length arithmetic of error_msg. *)
From Coq Require Import ZArith NArith List Bool Lia String.
From JMCV Require Import Model.Tok Model.TokPos Proofs.Tok.
Import ListNotations.
Open Scope Z_scope.
Local Notation length := List.length.

(* ------------------------------------------------------------------ a position determines the offset *)
Definition plt (p q : pos) : Prop := fst p < fst q \/ (fst p = fst q /\ snd p < snd q).

Lemma plt_trans : forall a b c, plt a b -> plt b c -> plt a c.
Proof. unfold plt; intros [a1 a2] [b1 b2] [c1 c2]; simpl; lia. Qed.
Lemma plt_irrefl : forall a, ~ plt a a.
Proof. unfold plt; intros [a1 a2]; simpl; lia. Qed.
Lemma adv_gt : forall p c, plt p (adv p c).
Proof. intros [l k] c. unfold adv, plt. destruct (ceqb c c_nl); simpl; lia. Qed.
Lemma pos_after_gt : forall l p, l <> [] -> plt p (pos_after p l).
Proof.
  induction l as [|c l IH]; intros p H; [congruence|].
  destruct l as [|c' l'].
  - simpl. apply adv_gt.
  - eapply plt_trans; [apply adv_gt|]. apply (IH (adv p c)). discriminate.
Qed.

Lemma pos_after_inj : forall a b ra rb p,
  a ++ ra = b ++ rb -> pos_after p a = pos_after p b -> a = b.
Proof.
  induction a as [|x a IH]; intros b ra rb p Happ Hpos.
  - destruct b as [|y b]; auto. exfalso.
    apply (plt_irrefl p). rewrite Hpos at 2. apply pos_after_gt. discriminate.
  - destruct b as [|y b].
    + exfalso. apply (plt_irrefl p). simpl in Hpos. rewrite <- Hpos at 2.
      apply (pos_after_gt (x :: a)). discriminate.
    + simpl in Happ. inversion Happ; subst y. f_equal.
      apply (IH b ra rb (adv p x)); auto.
Qed.

(* ------------------------------------------------------------------ from a sub-text to the file *)
Lemma token_src_app : forall t r post, token_src t r -> token_src t (r ++ post).
Proof.
  intros t r post H. unfold token_src in *.
  destruct (t_type t);
    try (destruct H as [Hne [r' Hr]]; split; [auto|exists (r' ++ post); rewrite Hr, app_assoc; reflexivity]).
  destruct H as [q [r' [Hr Hq]]]. exists q, (r' ++ post). subst r. auto.
Qed.

Lemma faithful_lift : forall file pre s post t,
  file = pre ++ s ++ post -> faithful_from (pos_after (1, 1) pre) s t -> faithful file t.
Proof.
  intros file pre s post t Hf [d [r [Hs [Hp Hsrc]]]].
  exists (pre ++ d), (r ++ post). split.
  - rewrite Hf, Hs. repeat rewrite <- app_assoc. reflexivity.
  - split; [rewrite pos_after_app; exact Hp|apply token_src_app; exact Hsrc].
Qed.

(* ------------------------------------------------------------------ nested re-tokenisations *)
Lemma inner_of_shape : forall t o body cl, t_str t = o :: body ++ [cl] -> inner t = body.
Proof. intros t o body cl H. unfold inner. rewrite H. simpl. apply removelast_last. Qed.

Section Nested.
Variable uni : str -> option char.
Variable printable : char -> bool.

Theorem reach_faithful : forall h file t,
  d_body h = 1 -> d_arrow h = 1 -> d_args h = 1 ->
  reach uni printable h file t -> faithful file t /\ shape t.
Proof.
  intros h file t Hb Ha Hg Hr. induction Hr as [progs stmt t Hp Hin1 Hin2 | outer k alms es asemi progs stmt t Hr IH Hbr Hp Hin1 Hin2].
  - destruct (parse_tokens_faithful _ _ _ _ _ _ _ _ _ _ _ Hp Hin1 Hin2) as [Hf Hs]. split; auto.
  - destruct IH as [[d [r [Hfile [Hpos Hsrc]]]] Hshape].
    destruct (Hshape Hbr) as [o [body [cl [Hstr Hlp]]]].
    assert (Hd : delta h k = 1) by (destruct k; simpl; auto).
    rewrite Hd in Hp. rewrite (inner_of_shape _ _ _ _ Hstr) in Hp.
    (* the bracket token is not a STRING: its source text is its string *)
    assert (Hr' : exists r', r = t_str outer ++ r').
    { unfold token_src in Hsrc. destruct (t_type outer); simpl in Hbr; try discriminate; destruct Hsrc as [_ H]; exact H. }
    destruct Hr' as [r' Hr'].
    destruct (parse_tokens_faithful _ _ _ _ _ _ _ _ _ _ _ Hp Hin1 Hin2) as [Hf Hs]. split; auto.
    apply faithful_lift with (pre := d ++ [o]) (s := body) (post := cl :: r').
    + rewrite Hfile, Hr', Hstr. simpl. repeat rewrite <- app_assoc. simpl. reflexivity.
    + rewrite pos_after_snoc, <- Hpos. rewrite adv_not_nl; [exact Hf|apply is_lparen_not_nl; exact Hlp].
Qed.

(* ---- the converse: a hand-over that adds anything but 1 misplaces a token *)
Definition wfile : str := of_string "{a;};"%string.

Lemma wfile_top : parse uni printable false true false wfile 1 1 =
  Ok [[mkTok PAREN_CURLY 1 1 (of_string "{a;}"%string) false]].
Proof. vm_compute. reflexivity. Qed.

Lemma winner : forall x, parse uni printable false true false (of_string "a;"%string) 1 x =
  Ok [[mkTok KEYWORD 1 (x - 1 + 1) (of_string "a"%string) false]].
Proof. intros x. reflexivity. Qed.

Lemma wfile_unfaithful : forall x, x <> 2 ->
  ~ faithful wfile (mkTok KEYWORD 1 x (of_string "a"%string) false).
Proof.
  intros x Hx [d [r [Hfile [Hpos [_ [r' Hr]]]]]]. simpl in Hr, Hpos.
  subst r. unfold wfile in Hfile.
  (* enumerate the prefixes of the five characters *)
  do 6 (destruct d as [|? d]; [simpl in Hfile; inversion Hfile; subst; try discriminate;
                               try (vm_compute in Hpos; inversion Hpos; congruence)|
                               simpl in Hfile; inversion Hfile; subst; clear Hfile; rename H1 into Hfile]).
Qed.

Theorem handovers_must_add_one : forall h,
  (forall file t, reach uni printable h file t -> faithful file t) ->
  d_body h = 1 /\ d_arrow h = 1 /\ d_args h = 1.
Proof.
  intros h H.
  assert (G : forall k, delta h k = 1).
  { intros k. destruct (Z.eq_dec (delta h k) 1) as [E|E]; auto. exfalso.
    set (outer := mkTok PAREN_CURLY 1 1 (of_string "{a;}"%string) false).
    assert (Ro : reach uni printable h wfile outer).
    { apply reach_top with (progs := [[outer]]) (stmt := [outer]); [apply wfile_top|left; reflexivity|left; reflexivity]. }
    set (tk := mkTok KEYWORD 1 (1 + delta h k - 1 + 1) (of_string "a"%string) false).
    assert (Rt : reach uni printable h wfile tk).
    { apply reach_nested with (outer := outer) (k := k) (alms := false) (es := true) (asemi := false)
                              (progs := [[tk]]) (stmt := [tk]).
      - exact Ro.
      - reflexivity.
      - change (inner outer) with (of_string "a;"%string). simpl t_line. simpl t_col. apply winner.
      - left; reflexivity.
      - left; reflexivity. }
    apply H in Rt. revert Rt. apply wfile_unfaithful. lia. }
  split; [apply (G HBody)|split; [apply (G HArrow)|apply (G HArgs)]].
Qed.
End Nested.

(* ------------------------------------------------------------------ error_msg(col_length=True) *)
Fixpoint has_nl (s : str) : bool := match s with [] => false | c :: r => ceqb c c_nl || has_nl r end.

Lemma mem_char_nl : forall s, mem_char c_nl s = has_nl s.
Proof.
  induction s as [|c r IH]; [reflexivity|].
  unfold mem_char in *. cbn [existsb has_nl]. rewrite IH. f_equal. unfold ceqb. apply N.eqb_sym.
Qed.

Lemma after_last_nl_acc : forall s acc,
  after_last_nl s acc = if has_nl s then after_last_nl s 0 else acc + Z.of_nat (length s).
Proof.
  induction s as [|c r IH]; intros acc; [simpl; lia|].
  cbn [after_last_nl has_nl]. destruct (ceqb c c_nl) eqn:E; cbn [orb].
  - reflexivity.
  - rewrite (IH (acc + 1)), (IH (0 + 1)). destruct (has_nl r); [reflexivity|].
    change (length (c :: r)) with (S (length r)). lia.
Qed.

Lemma count_nl_cons : forall c r, count_nl (c :: r) = (if ceqb c c_nl then 1 else 0) + count_nl r.
Proof. intros. unfold count_nl. simpl. destruct (ceqb c c_nl); simpl length; lia. Qed.

Lemma pos_after_formula : forall s l c,
  pos_after (l, c) s =
    (l + count_nl s, if has_nl s then after_last_nl s 0 + 1 else c + Z.of_nat (length s)).
Proof.
  induction s as [|x r IH]; intros l c.
  - simpl. unfold count_nl. simpl. f_equal; lia.
  - change (pos_after (l, c) (x :: r)) with (pos_after (adv (l, c) x) r).
    rewrite count_nl_cons. unfold adv. simpl fst. simpl snd. simpl has_nl. simpl after_last_nl.
    destruct (ceqb x c_nl) eqn:E; simpl orb.
    + rewrite IH. f_equal; try lia.
      rewrite (after_last_nl_acc r 0). change (length (x :: r)) with (S (length r)).
      destruct (has_nl r); lia.
    + rewrite IH. f_equal; try lia.
      rewrite (after_last_nl_acc r 1). change (length (x :: r)) with (S (length r)).
      destruct (has_nl r); lia.
Qed.

Lemma count_nl_zero : forall s, has_nl s = false -> count_nl s = 0.
Proof.
  induction s as [|c r IH]; intros H; [reflexivity|].
  cbn [has_nl] in H. apply orb_false_iff in H as [H1 H2].
  rewrite count_nl_cons, H1, (IH H2). reflexivity.
Qed.

(* for a token that is not a string literal and is cited at its true position, error_msg's
   `col_length=True` position is the position right after the token's last character *)
Theorem cite_end_is_end : forall printable p0 s t,
  faithful_from p0 s t -> t_type t <> STRING ->
  exists d r, s = d ++ t_str t ++ r /\ (t_line t, t_col t) = pos_after p0 d /\
              cite_end printable t = pos_after p0 (d ++ t_str t).
Proof.
  intros printable p0 s t [d [r [Hs [Hp Hsrc]]]] Hty.
  assert (Hr : exists r', r = t_str t ++ r').
  { unfold token_src in Hsrc. destruct (t_type t); try congruence; destruct Hsrc as [_ H]; exact H. }
  destruct Hr as [r' Hr]. exists d, r'. subst r. repeat split; auto.
  rewrite pos_after_app, <- Hp, pos_after_formula.
  unfold cite_end, full_string_has_nl, tok_length.
  destruct (ttype_eqb (t_type t) STRING) eqn:E; [destruct (t_type t); simpl in E; congruence|].
  rewrite mem_char_nl. destruct (has_nl (t_str t)) eqn:En; [reflexivity|].
  rewrite (count_nl_zero _ En), Z.add_0_r. reflexivity.
Qed.

(* ------------------------------------------------------------------ the pinned hand-over (brace's own column) *)
Section Pinned.
Variable uni : str -> option char.
Variable printable : char -> bool.

Definition pfile : str := of_string "function f() { bogus x; }"%string.
Definition pbrace : token := mkTok PAREN_CURLY 1 14 (of_string "{ bogus x; }"%string) false.
Definition ptok : token := mkTok KEYWORD 1 15 (of_string "bogus"%string) false.

Lemma pinned_reach : reach uni printable pinned pfile ptok.
Proof.
  assert (Ro : reach uni printable pinned pfile pbrace).
  { eapply reach_top with (stmt := [mkTok KEYWORD 1 1 (of_string "function"%string) false;
                                    mkTok KEYWORD 1 10 (of_string "f"%string) false;
                                    mkTok PAREN_ROUND 1 11 (of_string "()"%string) false; pbrace]).
    - vm_compute. reflexivity.
    - left; reflexivity.
    - simpl; auto. }
  eapply reach_nested with (outer := pbrace) (k := HBody) (alms := false) (es := true) (asemi := false)
                           (stmt := [ptok; mkTok KEYWORD 1 21 (of_string "x"%string) false]).
  - exact Ro.
  - reflexivity.
  - vm_compute. reflexivity.
  - left; reflexivity.
  - left; reflexivity.
Qed.

Lemma pinned_unfaithful : ~ faithful pfile ptok.
Proof.
  intros [d [r [Hfile [Hpos [_ [r' Hr]]]]]].
  set (d0 := firstn 14 pfile). set (r0 := skipn 14 pfile).
  assert (Hsplit : pfile = d0 ++ r0) by (symmetry; apply firstn_skipn).
  assert (Hd : d = d0).
  { apply (pos_after_inj d d0 r r0 (1, 1)); [congruence|]. rewrite <- Hpos. vm_compute. reflexivity. }
  subst d. rewrite Hsplit in Hfile at 1. apply app_inv_head in Hfile. subst r.
  vm_compute in Hfile. discriminate.
Qed.
End Pinned.
