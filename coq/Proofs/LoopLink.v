(* Proofs.LoopLink — the whole lowering (Model.Loop.compile_stmts: basic commands, chains and
   loops nested to any depth, with the private-function numbering) is correct: the functions
   the compiler stores never replace one another, so every construct finds its own functions in
   the final table, and the emitted lines compute exactly the source meaning of the statement
   tree.  Properties C04 and C05 ("at any nesting depth"). *)
From Coq Require Import ZArith String List Bool Lia.
From JMCV Require Import Base.Int32 Base.Dec MC.Syntax MC.Sem MC.Facts
     Model.Names Model.PrivAlloc Model.IfElse Model.Loop
     Proofs.IfElseBase Proofs.IfElse Proofs.Loop Proofs.LoopAlloc.
Import ListNotations.
Open Scope nat_scope.

Lemma IF_in : In IF_ELSE groups. Proof. cbn. auto. Qed.
Lemma WHILE_in : In WHILE_NAME groups. Proof. cbn. auto. Qed.
Lemma FOR_in : In FOR_NAME groups. Proof. cbn. auto. Qed.

Lemma NoDup_app_single {A} (l : list A) (x : A) : NoDup l -> ~ In x l -> NoDup (l ++ [x]).
Proof.
  induction l as [|y l IH]; intros N I; cbn.
  - constructor; [intros []|constructor].
  - inversion N; subst. constructor.
    + intros X. apply in_app_or in X. destruct X as [X|[X|[]]]; [auto|]. subst. apply I. left. reflexivity.
    + apply IH; [assumption|]. intros X. apply I. right. exact X.
Qed.

(* ---- numbering helpers ---- *)
Lemma alloc_stages_spec n : forall a ks a',
  alloc_stages n a = (ks, a') ->
  fns a' = fns a /\ count a' IF_ELSE = count a IF_ELSE + n /\
  (forall g, count a g <= count a' g) /\
  length ks = n /\ NoDup ks /\ Forall (fun k => count a IF_ELSE <= k < count a IF_ELSE + n) ks.
Proof.
  induction n as [|n IH]; intros a ks a' H; cbn [alloc_stages] in H.
  - inversion H; subst. repeat split; auto; try lia; constructor.
  - destruct (get_count IF_ELSE a) as [k a1] eqn:G.
    destruct (alloc_stages n a1) as [ks1 a2] eqn:A. inversion H; subst; clear H.
    destruct (get_count_spec _ _ _ _ G) as (Ek & Sk & Ok & Ef).
    destruct (IH _ _ _ A) as (F & C & M & L & N & B).
    split; [congruence|]. split; [lia|]. split.
    { intros g. pose proof (get_count_mono _ _ _ _ g G). specialize (M g). lia. }
    split; [rewrite app_length; cbn; lia|]. split.
    + apply NoDup_app_single; [exact N|]. intros X. rewrite Forall_forall in B. specialize (B _ X). lia.
    + apply Forall_app. split.
      * eapply Forall_impl; [|exact B]. cbn. intros; lia.
      * constructor; [lia|constructor].
Qed.

Lemma alloc_arrow_spec lines a aid a' :
  alloc_arrow lines a = Some (aid, a') ->
  lines <> [] /\
  ((arrow_inline lines = true /\ a' = a) \/ (arrow_inline lines = false /\ get_count IF_ELSE a = (aid, a'))).
Proof.
  unfold alloc_arrow. destruct lines as [|x [|y l]]; intros H; try discriminate.
  - inversion H; subst. split; [discriminate|]. left. split; reflexivity.
  - split; [discriminate|]. right. split; [reflexivity|]. congruence.
Qed.

Lemma arrow_fns nm g body k :
  snd (arrow nm g body k) = if arrow_inline body then [] else [(priv_fn nm g k, body)].
Proof. destruct body as [|x [|y l]]; reflexivity. Qed.

Lemma tail_code_names nm rest final :
  map fst (snd (tail_code nm rest final)) = map (fun wr => priv_fn nm IF_ELSE (snd wr)) rest.
Proof.
  induction rest as [|[w sid] rest IH]; cbn [tail_code]; [reflexivity|].
  destruct (tail_code nm rest final) as [t fs]. cbn [snd map fst] in *. f_equal. exact IH.
Qed.

(* the numbers of the functions of the last part *)
Definition last_ids (l : last_part) : list nat :=
  match l with
  | LElse body aid => if arrow_inline body then [] else [aid]
  | LElif c body aid wid =>
    (if arrow_inline body then [] else [aid]) ++ (match c_pre c with [] => [] | _ => [wid] end)
  end.

Lemma last_code_names nm l :
  map fst (snd (last_code nm l)) = map (priv_fn nm IF_ELSE) (last_ids l).
Proof.
  destruct l as [body aid|c body aid wid]; cbn [last_code last_ids].
  - rewrite arrow_fns. destruct (arrow_inline body); reflexivity.
  - pose proof (arrow_fns nm IF_ELSE body aid) as A.
    destruct (arrow nm IF_ELSE body aid) as [x fs]. cbn [snd] in A. subst fs.
    destruct (c_pre c); cbn [snd]; [|rewrite map_app]; destruct (arrow_inline body); reflexivity.
Qed.

Lemma chain_other_names nm rest last :
  map fst (chain_other_fns nm rest last) =
  map (priv_fn nm IF_ELSE) (last_ids last ++ map snd rest).
Proof.
  unfold chain_other_fns. pose proof (last_code_names nm last) as L.
  destruct (last_code nm last) as [lc lfs]. cbn [snd] in L.
  rewrite map_app. rewrite map_app. f_equal; [exact L|].
  rewrite tail_code_names, map_map. reflexivity.
Qed.

Lemma chain_code_fns nm first rest last :
  snd (chain_code nm first rest last) =
  map (wbr_fn nm) (first :: map fst rest) ++ chain_other_fns nm rest last.
Proof.
  unfold chain_code, chain_other_fns. destruct (last_code nm last) as [lc lfs].
  destruct (tail_code nm rest _) as [t sfs]. reflexivity.
Qed.

Lemma combine_fst {A B} (l : list A) (r : list B) : length l = length r -> map fst (combine l r) = l.
Proof.
  revert r. induction l as [|x l IH]; intros [|y r] H; cbn in *; try discriminate; [reflexivity|].
  f_equal. apply IH. lia.
Qed.
Lemma combine_snd {A B} (l : list A) (r : list B) : length l = length r -> map snd (combine l r) = r.
Proof.
  revert r. induction l as [|x l IH]; intros [|y r] H; cbn in *; try discriminate; [reflexivity|].
  f_equal. apply IH. lia.
Qed.

Definition lsrc_branches (lsrc : list cmd + cond * list cmd) : list (cond * list cmd) :=
  match lsrc with inl _ => [] | inr cl => [cl] end.
Definition lsrc_else (lsrc : list cmd + cond * list cmd) : option (list cmd) :=
  match lsrc with inl lines => Some lines | inr _ => None end.

Lemma alloc_last_spec nm lsrc a last a2 :
  wf nm a -> alloc_last lsrc a = Some (last, a2) ->
  wf nm a2 /\ fns a2 = fns a /\ (forall g, count a g <= count a2 g) /\
  NoDup (last_ids last) /\
  Forall (fun k => count a IF_ELSE <= k < count a2 IF_ELSE) (last_ids last) /\
  last_branches last = lsrc_branches lsrc /\ last_else last = lsrc_else lsrc.
Proof.
  intros W H. unfold alloc_last in H.
  assert (A : forall lines aid a1, alloc_arrow lines a = Some (aid, a1) ->
            wf nm a1 /\ fns a1 = fns a /\ (forall g, count a g <= count a1 g) /\
            Forall (fun k => count a IF_ELSE <= k < count a1 IF_ELSE) (if arrow_inline lines then [] else [aid])).
  { intros lines aid a1 E. destruct (alloc_arrow_spec _ _ _ _ E) as (_ & [[I ->]|[I G]]); rewrite I.
    - split; [exact W|]. split; [reflexivity|]. split; [intros; lia|]. constructor.
    - destruct (get_count_spec _ _ _ _ G) as (Ek & Sk & _ & Ef).
      split; [eapply wf_get_count; eauto|]. split; [exact Ef|].
      split; [intros g; eapply get_count_mono; eauto|]. constructor; [lia|constructor]. }
  destruct lsrc as [lines|[c lines]].
  - destruct (alloc_arrow lines a) as [[aid a1]|] eqn:E; [|discriminate]. inversion H; subst; clear H.
    destruct (A _ _ _ E) as (W1 & F1 & M1 & B1). cbn [last_ids last_branches last_else lsrc_branches lsrc_else].
    split; [exact W1|]. split; [exact F1|]. split; [exact M1|].
    split; [destruct (arrow_inline lines); repeat constructor; intros []|].
    split; [exact B1|]. split; reflexivity.
  - destruct (alloc_arrow lines a) as [[aid a1]|] eqn:E; [|discriminate].
    destruct (A _ _ _ E) as (W1 & F1 & M1 & B1).
    destruct (c_pre c) as [|p ps] eqn:P.
    + inversion H; subst; clear H. cbn [last_ids last_branches last_else lsrc_branches lsrc_else].
      rewrite P, app_nil_r. split; [exact W1|]. split; [exact F1|]. split; [exact M1|].
      split; [destruct (arrow_inline lines); repeat constructor; intros []|].
      split; [exact B1|]. split; reflexivity.
    + destruct (get_count IF_ELSE a1) as [wid a3] eqn:G. inversion H; subst; clear H.
      destruct (get_count_spec _ _ _ _ G) as (Ek & Sk & _ & Ef).
      cbn [last_ids last_branches last_else lsrc_branches lsrc_else]. rewrite P.
      split; [eapply wf_get_count; eauto|]. split; [congruence|].
      split. { intros g. pose proof (get_count_mono _ _ _ _ g G). specialize (M1 g). lia. }
      split.
      { destruct (arrow_inline lines); cbn [app].
        - constructor; [intros []|constructor].
        - inversion B1 as [|x xs Bx _]; subst.
          constructor; [intros [X|[]]; lia|]. constructor; [intros []|constructor]. }
      split; [|split; reflexivity].
      apply Forall_app. split.
      * eapply Forall_impl; [|exact B1]. cbn. intros; lia.
      * constructor; [|constructor]. specialize (M1 IF_ELSE). lia.
Qed.

Lemma NoDup_map_inj {A B} (f : A -> B) (l : list A) :
  (forall x y, In x l -> In y l -> f x = f y -> x = y) -> NoDup l -> NoDup (map f l).
Proof.
  induction l as [|x l IH]; intros Inj N; cbn; [constructor|].
  inversion N; subst. constructor.
  - intros X. apply in_map_iff in X. destruct X as (y & E & Hy).
    assert (y = x) by (apply Inj; [right; exact Hy|left; reflexivity|exact E]). subst. contradiction.
  - apply IH; [|assumption]. intros a b Ha Hb. apply Inj; right; assumption.
Qed.

Section Link.
  Variable nm : names.
  Variable ft : string -> option (list cmd).
  Variable env : nat -> state -> state.
  Notation runs := (runs ft env).
  Notation steps := (steps ft env).

  Lemma finish_chain_spec ws lsrc a caller a' :
    wf nm a -> finish_chain nm ws lsrc a = Some (caller, a') ->
    Forall (fun w => In (wbr_fn nm w) (fns a)) ws ->
    wf nm a' /\ ext nm a a' /\
    (installed ft (fns a') -> Forall (fun w => keeps_flag nm ft env (w_cond w)) ws ->
     forall st st',
       runs caller st st' <->
       exists o st'', chain_sem ft env (map src_of ws ++ lsrc_branches lsrc) (lsrc_else lsrc)
                                (set_sc st (flag nm) 0) o st'' /\
                      st' = finish nm (length ws) o st'').
  Proof.
    intros W H B. unfold finish_chain in H. destruct ws as [|first others]; [discriminate|].
    destruct (alloc_last lsrc a) as [[last a2]|] eqn:AL; [|discriminate].
    destruct (alloc_stages (length others) a2) as [sids a3] eqn:AS. inversion H; subst; clear H.
    destruct (alloc_last_spec _ _ _ _ _ W AL) as (W2 & F2 & M2 & N2 & B2 & LB & LE).
    destruct (alloc_stages_spec _ _ _ _ AS) as (F3 & C3 & M3 & L3 & N3 & B3).
    set (rest := combine others sids).
    assert (Rf : map fst rest = others) by (apply combine_fst; lia).
    assert (Rs : map snd rest = sids) by (apply combine_snd; lia).
    assert (W3 : wf nm a3).
    { destruct W2 as [Na Fa]. split; rewrite F3; [exact Na|].
      eapply Forall_impl; [|exact Fa]. intros d X. apply (named_weaken _ _ _ _ _ _ X); [intros; lia|exact M3]. }
    set (ids := last_ids last ++ sids).
    assert (Nids : NoDup ids).
    { unfold ids. clear - N2 N3 B2 B3. induction (last_ids last) as [|x l IH]; cbn; [exact N3|].
      inversion N2; subst. inversion B2; subst. constructor; [|apply IH; assumption].
      intros X. apply in_app_or in X. destruct X as [X|X]; [contradiction|].
      rewrite Forall_forall in B3. specialize (B3 _ X). lia. }
    assert (Bids : Forall (fun k => count a IF_ELSE <= k < count a3 IF_ELSE) ids).
    { unfold ids. apply Forall_app. split.
      - eapply Forall_impl; [|exact B2]. cbn. intros k Hk. specialize (M3 IF_ELSE). lia.
      - eapply Forall_impl; [|exact B3]. cbn. intros k Hk. specialize (M2 IF_ELSE). lia. }
    pose proof (chain_other_names nm rest last) as ON. rewrite Rs in ON. fold ids in ON.
    assert (Fresh : forall k, In k ids -> ~ In (priv_fn nm IF_ELSE k) (map fst (fns a3))).
    { intros k Hk X. rewrite F3, F2 in X. apply in_map_iff in X. destruct X as (d & Ed & Hd).
      destruct W as [_ Fa]. rewrite Forall_forall in Fa. specialize (Fa d Hd). rewrite Ed in Fa.
      apply named_inv in Fa; [|exact IF_in]. rewrite Forall_forall in Bids. specialize (Bids _ Hk). lia. }
    destruct (add_fns_ext nm a3 (chain_other_fns nm rest last) W3) as (Ef & Ec & W').
    { rewrite ON. apply NoDup_map_inj; [|exact Nids].
      intros x y _ _ E. destruct (priv_fn_inj _ _ _ _ _ IF_in IF_in E) as [_ ?]. assumption. }
    { apply Forall_forall. intros d Hd.
      assert (X : In (fst d) (map fst (chain_other_fns nm rest last))) by (apply in_map; exact Hd).
      rewrite ON in X. apply in_map_iff in X. destruct X as (k & Ek & Hk).
      exists IF_ELSE, k. split; [exact IF_in|]. split; [symmetry; exact Ek|].
      rewrite Forall_forall in Bids. specialize (Bids _ Hk). split; [lia|]. apply Fresh. exact Hk. }
    set (a' := add_fns (chain_other_fns nm rest last) a3) in *.
    assert (CM : forall g, count a g <= count a' g).
    { intros g. assert (count a' g = count a3 g) by (unfold count; rewrite Ec; reflexivity).
      specialize (M2 g). specialize (M3 g). lia. }
    split; [exact W'|]. split.
    { split; [exact CM|]. exists (chain_other_fns nm rest last). split; [rewrite Ef, F3, F2; reflexivity|].
      apply Forall_forall. intros d Hd.
      assert (X : In (fst d) (map fst (chain_other_fns nm rest last))) by (apply in_map; exact Hd).
      rewrite ON in X. apply in_map_iff in X. destruct X as (k & Ek & Hk).
      exists IF_ELSE, k. split; [exact IF_in|]. split; [symmetry; exact Ek|].
      rewrite Forall_forall in Bids. specialize (Bids _ Hk).
      assert (count a' IF_ELSE = count a3 IF_ELSE) by (unfold count; rewrite Ec; reflexivity). lia. }
    intros I K st st'.
    assert (I' : installed ft (snd (chain_code nm first rest last))).
    { rewrite chain_code_fns, Rf. apply installed_app. split.
      - unfold installed in *. rewrite Forall_forall in *. intros d Hd.
        apply in_map_iff in Hd. destruct Hd as (w & <- & Hw). apply I.
        rewrite Ef, F3, F2. apply in_or_app. left. apply B. exact Hw.
      - unfold installed in *. rewrite Ef in I. apply Forall_app in I. tauto. }
    apply Forall_cons_iff in K. destruct K as [K0 K1].
    assert (K1' : Forall (fun wr => keeps_flag nm ft env (w_cond (fst wr))) rest).
    { apply Forall_forall. intros wr Hwr. rewrite Forall_forall in K1. apply K1.
      rewrite <- Rf. apply in_map. exact Hwr. }
    pose proof (chain_correct nm ft env first rest last _ _ (surjective_pairing _) I' K0 K1' st st') as C.
    rewrite C. unfold chain_branches. rewrite LB, LE.
    replace (map (fun wr => src_of (fst wr)) rest) with (map src_of others)
      by (rewrite <- Rf, map_map; reflexivity).
    replace (S (length rest)) with (length (first :: others))
      by (cbn; f_equal; rewrite <- Rf, map_length; reflexivity).
    reflexivity.
  Qed.
End Link.

(* ================= source meaning of a statement tree ================= *)
Definition rel := state -> state -> Prop.

Fixpoint blength (b : branches) : nat :=
  match b with BNil => O | BCons _ _ r => S (blength r) end.
(* how many branches of a chain are "wrapped" (their function sets the flag at its end) *)
Definition wrapped (b : branches) (e : oelse) : nat :=
  match e with ESome _ => blength b | ENone => pred (blength b) end.
Definition is_single (b : branches) (e : oelse) : bool :=
  match b, e with BCons _ _ BNil, ENone => true | _, _ => false end.

Section Sem.
  Variable nm : names.
  Variable ft : string -> option (list cmd).
  Variable env : nat -> state -> state.
  Notation runs := (runs ft env).
  Notation steps := (steps ft env).

  (* chain_sem with the bodies given as relations *)
  Inductive chain_semR : list (cond * rel) -> option rel -> state -> outcome -> state -> Prop :=
  | CR_none st : chain_semR [] None st TookNone st
  | CR_else (b : rel) st st' : b st st' -> chain_semR [] (Some b) st TookElse st'
  | CR_take c (b : rel) rest e st st1 st2 :
      runs (c_pre c) st st1 -> tests_hold st1 (c_tests c) = true -> b st1 st2 ->
      chain_semR ((c, b) :: rest) e st (Took 0) st2
  | CR_skip c (b : rel) rest e st st1 o st' :
      runs (c_pre c) st st1 -> tests_hold st1 (c_tests c) = false -> chain_semR rest e st1 o st' ->
      chain_semR ((c, b) :: rest) e st (shift o) st'.

  Definition brel (cb : cond * list cmd) (cr : cond * rel) : Prop :=
    fst cb = fst cr /\ forall a b, runs (snd cb) a b <-> snd cr a b.
  Definition erel (e : option (list cmd)) (er : option rel) : Prop :=
    match e, er with
    | Some b, Some r => forall x y, runs b x y <-> r x y
    | None, None => True
    | _, _ => False
    end.

  Lemma chain_sem_R brs brsR e eR :
    Forall2 brel brs brsR -> erel e eR ->
    forall st o st', chain_sem ft env brs e st o st' <-> chain_semR brsR eR st o st'.
  Proof.
    intros F E. induction F as [|[c b] [c' r] brs brsR [Ec Eb] F IH]; intros st o st'.
    - destruct e as [b|], eR as [r|]; cbn in E; try contradiction; split; intros H; inversion H; subst;
        constructor; try (apply E; assumption).
    - cbn [fst snd] in *. subst c'. split; intros H; inversion H; subst.
      + eapply CR_take; eauto. apply Eb. assumption.
      + eapply CR_skip; eauto. apply IH. assumption.
      + eapply CS_take; eauto. apply Eb. assumption.
      + eapply CS_skip; eauto. apply IH. assumption.
  Qed.

  Lemma loop_sem_ext c (R1 R2 : rel) :
    (forall a b, R1 a b <-> R2 a b) ->
    forall st n st', loop_sem ft env c R1 st n st' <-> loop_sem ft env c R2 st n st'.
  Proof.
    intros E st n st'. split; intros H; induction H; [apply LS_stop|eapply LS_iter|apply LS_stop|eapply LS_iter];
      eauto; apply E; assumption.
  Qed.

  (* The source meaning.  Basic commands mean what Minecraft does; a chain means chain_semR
     (first true condition in source order, else the else body, else nothing) with the
     scratch flag written as the lowering writes it (0 before the tests, 1 after a wrapped
     branch); loops mean the JavaScript unfolding (Proofs.Loop.loop_sem). *)
  Fixpoint sem_stmt (s : stmt) : rel :=
    match s with
    | SCmd c => steps c
    | SIf b e =>
      if is_single b e
      then fun st st' => exists o, chain_semR (sem_branches b) None st o st'
      else fun st st' =>
             exists o st'', chain_semR (sem_branches b) (sem_oelse e) (set_sc st (flag nm) 0) o st'' /\
                            st' = finish nm (wrapped b e) o st''
    | SWhile c body => fun st st' => exists n, loop_sem ft env c (sem_stmts body) st n st'
    | SDoWhile body c =>
      fun st st' => exists n st2, sem_stmts body st st2 /\ loop_sem ft env c (sem_stmts body) st2 n st'
    | SFor init c step body =>
      fun st st' => exists n st0, runs init st st0 /\
                                  loop_sem ft env c (fun a b => exists m, sem_stmts body a m /\ runs step m b) st0 n st'
    end
  with sem_stmts (l : stmts) : rel :=
    match l with
    | SNil => fun st st' => st' = st
    | SCons s r => fun st st' => exists m, sem_stmt s st m /\ sem_stmts r m st'
    end
  with sem_branches (b : branches) : list (cond * rel) :=
    match b with
    | BNil => []
    | BCons c body r => (c, sem_stmts body) :: sem_branches r
    end
  with sem_oelse (e : oelse) : option rel :=
    match e with ENone => None | ESome body => Some (sem_stmts body) end.

  (* every chain condition in the tree leaves the flag alone when it is tested *)
  Fixpoint keeps_stmt (s : stmt) : Prop :=
    match s with
    | SCmd _ => True
    | SIf b e => keeps_branches b /\ keeps_oelse e
    | SWhile _ body => keeps_stmts body
    | SDoWhile body _ => keeps_stmts body
    | SFor _ _ _ body => keeps_stmts body
    end
  with keeps_stmts (l : stmts) : Prop :=
    match l with SNil => True | SCons s r => keeps_stmt s /\ keeps_stmts r end
  with keeps_branches (b : branches) : Prop :=
    match b with
    | BNil => True
    | BCons c body r => keeps_flag nm ft env c /\ keeps_stmts body /\ keeps_branches r
    end
  with keeps_oelse (e : oelse) : Prop :=
    match e with ENone => True | ESome body => keeps_stmts body end.

  Lemma sem_branches_length b : length (sem_branches b) = blength b.
  Proof. induction b; cbn; auto. Qed.
End Sem.

Scheme stmt_mind := Induction for stmt Sort Prop
  with stmts_mind := Induction for stmts Sort Prop
  with branches_mind := Induction for branches Sort Prop
  with oelse_mind := Induction for oelse Sort Prop.
Combined Scheme stmt_mutind from stmt_mind, stmts_mind, branches_mind, oelse_mind.

Definition general_if (nm : names) (b : branches) (e : oelse) (a : alloc) : option (list cmd * alloc) :=
  match compile_branches nm (match e with ENone => false | ESome _ => true end) b a with
  | None => None
  | Some (ws, lastelif, a1) =>
    match e, lastelif with
    | ESome body, _ =>
      match compile_stmts nm body a1 with
      | None => None
      | Some (lines, a2) => finish_chain nm ws (inl lines) a2
      end
    | ENone, Some cl => finish_chain nm ws (inr cl) a1
    | ENone, None => None
    end
  end.

Lemma compile_if_general nm b e a :
  is_single b e = false -> compile_stmt nm (SIf b e) a = general_if nm b e a.
Proof.
  destruct b as [|c body [|c2 b2 r2]], e; cbn [is_single]; intros H; try discriminate; try reflexivity.
  - unfold general_if. cbn. destruct (compile_stmts nm body a) as [[l x]|]; reflexivity.
Qed.

Definition optl {A} (o : option A) : list A := match o with Some x => [x] | None => [] end.

Section Main.
  Variable nm : names.
  Variable ft : string -> option (list cmd).
  Variable env : nat -> state -> state.
  Notation runs := (runs ft env).
  Notation steps := (steps ft env).

  Definition P_stmts (l : stmts) : Prop :=
    forall a lines a', wf nm a -> compile_stmts nm l a = Some (lines, a') ->
      wf nm a' /\ ext nm a a' /\
      (installed ft (fns a') -> keeps_stmts nm ft env l ->
       forall st st', runs lines st st' <-> sem_stmts nm ft env l st st').
  Definition P_stmt (s : stmt) : Prop :=
    forall a lines a', wf nm a -> compile_stmt nm s a = Some (lines, a') ->
      wf nm a' /\ ext nm a a' /\
      (installed ft (fns a') -> keeps_stmt nm ft env s ->
       forall st st', runs lines st st' <-> sem_stmt nm ft env s st st').
  Fixpoint bodies_P (b : branches) : Prop :=
    match b with BNil => True | BCons _ body r => P_stmts body /\ bodies_P r end.
  Definition P_branches (b : branches) : Prop :=
    bodies_P b /\
    forall he a ws le a', wf nm a -> compile_branches nm he b a = Some (ws, le, a') ->
      wf nm a' /\ ext nm a a' /\
      Forall (fun w => In (wbr_fn nm w) (fns a')) ws /\
      (he = true -> le = None) /\
      (installed ft (fns a') -> keeps_branches nm ft env b ->
       Forall2 (brel ft env) (map src_of ws ++ optl le) (sem_branches nm ft env b) /\
       Forall (fun w => keeps_flag nm ft env (w_cond w)) ws).
  Definition P_oelse (e : oelse) : Prop :=
    match e with ENone => True | ESome body => P_stmts body end.

  (* reserve a number, lower the body, store one function under the reserved number *)
  Lemma reserve_add g a k a1 a2 body :
    wf nm a -> In g groups -> get_count g a = (k, a1) -> wf nm a2 -> ext nm a1 a2 ->
    let a' := add_fns [(priv_fn nm g k, body)] a2 in
    wf nm a' /\ ext nm a a' /\ fns a' = fns a2 ++ [(priv_fn nm g k, body)].
  Proof.
    intros W Hg G W2 E a'.
    destruct (get_count_spec _ _ _ _ G) as (Ek & Sk & _ & Ef).
    pose proof (reserved_fresh nm _ _ _ _ _ W Hg G E) as Fr.
    assert (Kb : k < count a2 g) by (destruct E as [M _]; specialize (M g); lia).
    destruct (add_fns_ext nm a2 [(priv_fn nm g k, body)] W2) as (Ef' & Ec & W').
    { cbn. constructor; [intros []|constructor]. }
    { constructor; [|constructor]. exists g, k. cbn [fst]. auto. }
    fold a' in Ef', Ec, W'. split; [exact W'|]. split; [|exact Ef'].
    assert (Ca : forall g', count a' g' = count a2 g') by (intros; unfold count; rewrite Ec; reflexivity).
    destruct E as [M1 (new & En & Fn)].
    assert (M0 : forall g', count a g' <= count a1 g') by (intros g'; eapply get_count_mono; eauto).
    split.
    - intros g'. rewrite Ca. specialize (M0 g'). specialize (M1 g'). lia.
    - exists (new ++ [(priv_fn nm g k, body)]). split; [rewrite Ef', En, Ef, app_assoc; reflexivity|].
      apply Forall_app. split.
      + eapply Forall_impl; [|exact Fn]. intros d X.
        apply (named_weaken _ _ _ _ _ _ X); [exact M0|intros g'; rewrite Ca; lia].
      + constructor; [|constructor]. exists g, k. cbn [fst]. split; [exact Hg|]. split; [reflexivity|].
        rewrite Ca. lia.
  Qed.

  Lemma installed_split a2 d (a' : alloc) :
    fns a' = fns a2 ++ [d] -> installed ft (fns a') -> installed ft (fns a2) /\ installed ft [d].
  Proof. intros E I. unfold installed in *. rewrite E in I. apply Forall_app in I. exact I. Qed.

  (* a branch body that can `return` is moved into a function of its own; calling it means running it *)
  Lemma isolate_spec lines a bl a' :
    wf nm a -> isolate nm lines a = (bl, a') ->
    wf nm a' /\ ext nm a a' /\
    (installed ft (fns a') -> forall x y, runs bl x y <-> runs lines x y).
  Proof.
    intros W H. unfold isolate in H. destruct (can_return lines).
    - destruct (get_count IF_ELSE a) as [k0 a1] eqn:G. inversion H; subst; clear H.
      destruct (reserve_add _ _ _ _ _ lines W IF_in G (wf_get_count nm _ _ _ _ W G) (ext_refl nm a1))
        as (W' & X' & Ef).
      change (add_fns [(priv_fn nm IF_ELSE k0, lines)] a1) with (add_fn (priv_fn nm IF_ELSE k0, lines) a1) in *.
      split; [exact W'|]. split; [exact X'|]. intros I x y.
      destruct (installed_split _ _ _ Ef I) as [_ If].
      unfold call_func. rewrite runs_single. apply steps_call.
      unfold installed in If. inversion If; subst. assumption.
    - inversion H; subst. split; [exact W|]. split; [apply ext_refl|]. intros; reflexivity.
  Qed.

  Lemma P_SCmd c : P_stmt (SCmd c).
  Proof.
    intros a lines a' W H. cbn in H. inversion H; subst; clear H.
    split; [exact W|]. split; [apply ext_refl|]. intros _ _ st st'. cbn. apply runs_single.
  Qed.

  Lemma P_SNil : P_stmts SNil.
  Proof.
    intros a lines a' W H. cbn in H. inversion H; subst; clear H.
    split; [exact W|]. split; [apply ext_refl|]. intros _ _ st st'. cbn. apply runs_nil.
  Qed.

  Lemma P_SCons s r : P_stmt s -> P_stmts r -> P_stmts (SCons s r).
  Proof.
    intros Ps Pr a lines a' W H. cbn [compile_stmts] in H.
    destruct (compile_stmt nm s a) as [[l1 a1]|] eqn:E1; [|discriminate].
    destruct (compile_stmts nm r a1) as [[l2 a2]|] eqn:E2; [|discriminate].
    inversion H; subst; clear H.
    destruct (Ps _ _ _ W E1) as (W1 & X1 & S1). destruct (Pr _ _ _ W1 E2) as (W2 & X2 & S2).
    split; [exact W2|]. split; [eapply ext_trans; eauto|].
    intros I [Ks Kr] st st'. cbn [sem_stmts]. rewrite runs_app.
    pose proof (ext_installed nm ft _ _ X2 I) as I1.
    split; intros (m & A & B); exists m; (split; [apply (S1 I1 Ks); exact A|apply (S2 I Kr); exact B]).
  Qed.

  Lemma P_SWhile c body : P_stmts body -> P_stmt (SWhile c body).
  Proof.
    intros Pb a lines a' W H. cbn [compile_stmt] in H.
    destruct (get_count WHILE_NAME a) as [k a1] eqn:G.
    destruct (compile_stmts nm body a1) as [[bl a2]|] eqn:E; [|discriminate].
    unfold while_code in H. inversion H; subst; clear H.
    pose proof (wf_get_count nm _ _ _ _ W G) as W1.
    destruct (Pb _ _ _ W1 E) as (W2 & X2 & S2).
    destruct (reserve_add _ _ _ _ _ (bl ++ retest nm WHILE_NAME c k) W WHILE_in G W2 X2) as (W' & X' & Ef).
    split; [exact W'|]. split; [exact X'|]. intros I K st st'.
    destruct (installed_split _ _ _ Ef I) as [I2 If].
    rewrite (while_correct ft env nm c bl k _ _ eq_refl If st st'). cbn [sem_stmt].
    split; intros [n Hn]; exists n; (eapply loop_sem_ext; [|exact Hn]); intros x y;
      [symmetry|]; apply (S2 I2 K).
  Qed.

  Lemma P_SDoWhile body c : P_stmts body -> P_stmt (SDoWhile body c).
  Proof.
    intros Pb a lines a' W H. cbn [compile_stmt] in H.
    destruct (get_count WHILE_NAME a) as [k a1] eqn:G.
    destruct (compile_stmts nm body a1) as [[bl a2]|] eqn:E; [|discriminate].
    unfold dowhile_code in H. inversion H; subst; clear H.
    pose proof (wf_get_count nm _ _ _ _ W G) as W1.
    destruct (Pb _ _ _ W1 E) as (W2 & X2 & S2).
    destruct (reserve_add _ _ _ _ _ (bl ++ retest nm WHILE_NAME c k) W WHILE_in G W2 X2) as (W' & X' & Ef).
    split; [exact W'|]. split; [exact X'|]. intros I K st st'.
    destruct (installed_split _ _ _ Ef I) as [I2 If].
    rewrite (dowhile_correct ft env nm c bl k _ _ eq_refl If st st'). cbn [sem_stmt].
    split.
    - intros [n Hn]. inversion Hn as [s0 st2 n0 s1 Hb Hl]; subst. exists n0, st2.
      split; [apply (S2 I2 K); exact Hb|]. eapply loop_sem_ext; [|exact Hl]. intros x y. symmetry. apply (S2 I2 K).
    - intros (n & st2 & Hb & Hl). exists (S n). econstructor; [apply (S2 I2 K); exact Hb|].
      eapply loop_sem_ext; [|exact Hl]. intros x y. apply (S2 I2 K).
  Qed.

  Lemma P_SFor init c step body : P_stmts body -> P_stmt (SFor init c step body).
  Proof.
    intros Pb a lines a' W H. cbn [compile_stmt] in H.
    assert (H' : (let (k, a1) := get_count FOR_NAME a in
                  match compile_stmts nm body a1 with
                  | None => None
                  | Some (bl, a2) => let (caller, fs) := for_code nm init c step bl k in Some (caller, add_fns fs a2)
                  end) = Some (lines, a')) by (destruct body; [discriminate|exact H]).
    clear H. destruct (get_count FOR_NAME a) as [k a1] eqn:G.
    destruct (compile_stmts nm body a1) as [[bl a2]|] eqn:E; [|discriminate].
    unfold for_code in H'. inversion H'; subst; clear H'.
    pose proof (wf_get_count nm _ _ _ _ W G) as W1.
    destruct (Pb _ _ _ W1 E) as (W2 & X2 & S2).
    destruct (reserve_add _ _ _ _ _ (bl ++ step ++ retest nm FOR_NAME c k) W FOR_in G W2 X2) as (W' & X' & Ef).
    split; [exact W'|]. split; [exact X'|]. intros I K st st'.
    destruct (installed_split _ _ _ Ef I) as [I2 If].
    rewrite (for_correct ft env nm init c step bl k _ _ eq_refl If st st'). cbn [sem_stmt].
    assert (R : forall x y, body_then_step ft env bl step x y <->
                            (exists m, sem_stmts nm ft env body x m /\ runs step m y)).
    { intros x y. unfold body_then_step. split; intros (m & A & B); exists m; (split; [apply (S2 I2 K); exact A|exact B]). }
    split.
    - intros [n Hn]. inversion Hn as [s0 st0 n0 s1 Hi Hl]; subst. exists n, st0.
      split; [exact Hi|]. eapply loop_sem_ext; [|exact Hl]. intros x y. symmetry. apply R.
    - intros (n & st0 & Hi & Hl). exists n. econstructor; [exact Hi|].
      eapply loop_sem_ext; [|exact Hl]. intros x y. apply R.
  Qed.

  Lemma P_BNil : P_branches BNil.
  Proof.
    split; [exact I|]. intros he a ws le a' W H. cbn in H. inversion H; subst; clear H.
    split; [exact W|]. split; [apply ext_refl|]. split; [constructor|]. split; [reflexivity|].
    intros _ _. split; constructor.
  Qed.

  Lemma P_BCons c body r : P_stmts body -> P_branches r -> P_branches (BCons c body r).
  Proof.
    intros Pb [Pr_all Pr]. split; [split; assumption|].
    intros he a ws le a' W H. cbn [compile_branches] in H.
    destruct (compile_stmts nm body a) as [[bl a1]|] eqn:E; [|discriminate].
    destruct (Pb _ _ _ W E) as (W1 & X1 & S1).
    destruct (is_bnil r && negb he) eqn:Last.
    - (* the unwrapped last else-if of a chain without else *)
      inversion H; subst; clear H. apply andb_true_iff in Last. destruct Last as [Rn Hn].
      destruct r; [|discriminate]. apply negb_true_iff in Hn. subst he.
      split; [exact W1|]. split; [exact X1|]. split; [constructor|]. split; [discriminate|].
      intros I (Kc & Kb & _). split; [|constructor]. cbn. constructor; [|constructor].
      split; [reflexivity|]. cbn [snd]. intros x y. apply (S1 I Kb).
    - destruct (isolate nm bl a1) as [bl' a1'] eqn:Iso.
      destruct (isolate_spec _ _ _ _ W1 Iso) as (W1' & X1' & S1').
      destruct (get_count IF_ELSE a1') as [k a2] eqn:G.
      set (w := mkW c bl' k) in *.
      destruct (compile_branches nm he r (add_fn (wbr_fn nm w) a2)) as [[[ws' le'] a3]|] eqn:E3; [|discriminate].
      inversion H; subst; clear H.
      (* the branch function is stored under the number just taken: fresh *)
      destruct (reserve_add _ _ _ _ _ (w_body w ++ [set_flag nm 1]) W1' IF_in G
                            (wf_get_count nm _ _ _ _ W1' G) (ext_refl nm a2)) as (W2 & X2 & Ef).
      change (add_fns [(priv_fn nm IF_ELSE k, w_body w ++ [set_flag nm 1])] a2)
        with (add_fn (wbr_fn nm w) a2) in *.
      destruct (Pr _ _ _ _ _ W2 E3) as (W3 & X3 & B3 & L3 & S3).
      split; [exact W3|].
      split; [eapply ext_trans; [exact X1|eapply ext_trans; [exact X1'|eapply ext_trans; eauto]]|].
      split.
      { constructor; [|exact B3]. apply (ext_in nm _ _ _ X3). rewrite Ef. apply in_or_app. right. left. reflexivity. }
      split; [exact L3|].
      intros I (Kc & Kb & Kr). destruct (S3 I Kr) as [F2 Kw]. split.
      + cbn [map app sem_branches]. constructor; [|exact F2]. split; [reflexivity|]. cbn [snd src_of w_body w].
        pose proof (ext_installed nm ft _ _ (ext_trans nm _ _ _ X2 X3) I) as I1'.
        intros x y. rewrite (S1' I1' x y). apply S1; [|exact Kb].
        apply (ext_installed nm ft _ _ X1' I1').
      + constructor; [exact Kc|exact Kw].
  Qed.

  Lemma Forall2_length' {A B} (R : A -> B -> Prop) l1 l2 : Forall2 R l1 l2 -> length l1 = length l2.
  Proof. induction 1; cbn; auto. Qed.

  Lemma P_SIf b e : P_branches b -> P_oelse e -> P_stmt (SIf b e).
  Proof.
    intros [Pall Pb] Pe a lines a' W H.
    destruct (is_single b e) eqn:Single.
    - (* a lone if *)
      destruct b as [|c body [|? ? ?]]; try discriminate. destruct e; try discriminate.
      destruct Pall as [Pbody _]. cbn [compile_stmt] in H.
      destruct (compile_stmts nm body a) as [[bl a1]|] eqn:E; [|discriminate].
      destruct (alloc_arrow bl a1) as [[aid a2]|] eqn:A; [|discriminate].
      destruct (Pbody _ _ _ W E) as (W1 & X1 & S1).
      unfold single_if_code in H. pose proof (arrow_fns nm IF_ELSE bl aid) as AF.
      destruct (arrow nm IF_ELSE bl aid) as [x fs] eqn:Ar. cbn [snd] in AF. inversion H; subst lines a'; clear H.
      assert (Sem : installed ft fs -> installed ft (fns a1) ->
                    keeps_stmt nm ft env (SIf (BCons c body BNil) ENone) ->
                    forall st st', runs (c_pre c ++ [merge1 (mods_of (c_tests c)) x]) st st' <->
                                   sem_stmt nm ft env (SIf (BCons c body BNil) ENone) st st').
      { intros If I1 [(Kc & Kb & _) _] st st'.
        assert (SC : single_if_code nm c bl aid = (c_pre c ++ [merge1 (mods_of (c_tests c)) x], fs))
          by (unfold single_if_code; rewrite Ar; reflexivity).
        rewrite (single_if_correct nm ft env c bl aid _ _ SC If st st'). cbn [sem_stmt is_single sem_branches].
        split; intros [o Ho]; exists o; (eapply chain_sem_R; [| |exact Ho] || (eapply chain_sem_R in Ho; [exact Ho| |])); cbn;
          try (constructor; [|constructor]; split; [reflexivity|]; cbn [snd]; intros p q; apply (S1 I1 Kb)); exact I. }
      destruct (alloc_arrow_spec _ _ _ _ A) as (_ & [[Inl ->]|[Inl G]]); rewrite Inl in AF; subst fs.
      + cbn [add_fns fold_left]. split; [exact W1|]. split; [exact X1|].
        intros I K. apply Sem; [constructor|exact I|exact K].
      + destruct (reserve_add _ _ _ _ _ bl W1 IF_in G (wf_get_count nm _ _ _ _ W1 G) (ext_refl nm a2))
          as (W2 & X2 & Ef).
        split; [exact W2|]. split; [eapply ext_trans; eauto|].
        intros I K. destruct (installed_split _ _ _ Ef I) as [I2 If].
        apply Sem; [exact If| |exact K].
        destruct (get_count_spec _ _ _ _ G) as (_ & _ & _ & Eq). unfold installed. rewrite <- Eq. exact I2.
    - (* a chain *)
      rewrite (compile_if_general nm b e a Single) in H. unfold general_if in H.
      set (he := match e with ENone => false | ESome _ => true end) in *.
      destruct (compile_branches nm he b a) as [[[ws le] a1]|] eqn:E1; [|discriminate].
      destruct (Pb _ _ _ _ _ W E1) as (W1 & X1 & B1 & L1 & S1).
      assert (Fin : forall lsrc a2 caller,
                 wf nm a2 -> ext nm a1 a2 -> finish_chain nm ws lsrc a2 = Some (caller, a') ->
                 wf nm a' /\ ext nm a a' /\
                 (installed ft (fns a') -> keeps_branches nm ft env b ->
                  forall st st', runs caller st st' <->
                    exists o st'', chain_sem ft env (map src_of ws ++ lsrc_branches lsrc) (lsrc_else lsrc)
                                             (set_sc st (flag nm) 0) o st'' /\
                                   st' = finish nm (length ws) o st'')).
      { intros lsrc a2 caller W2 X2 F.
        assert (B2 : Forall (fun w => In (wbr_fn nm w) (fns a2)) ws).
        { eapply Forall_impl; [|exact B1]. intros w. apply (ext_in nm _ _ _ X2). }
        destruct (finish_chain_spec nm ft env _ _ _ _ _ W2 F B2) as (W' & X' & S').
        split; [exact W'|]. split; [eapply ext_trans; [exact X1|eapply ext_trans; eauto]|].
        intros I Kb. apply S'; [exact I|].
        apply (S1 (ext_installed nm ft _ _ (ext_trans nm _ _ _ X2 X') I) Kb). }
      destruct e as [|ebody].
      + (* no else: the last else-if is unwrapped *)
        destruct le as [cl|]; [|discriminate].
        destruct (Fin (inr cl) a1 lines W1 (ext_refl nm a1) H) as (W' & X' & S').
        split; [exact W'|]. split; [exact X'|]. intros I [Kb _] st st'.
        rewrite (S' I Kb st st'). cbn [sem_stmt]. rewrite Single.
        assert (I1 : installed ft (fns a1)).
        { destruct (finish_chain_spec nm ft env _ _ _ _ _ W1 H B1) as (_ & X & _). apply (ext_installed nm ft _ _ X I). }
        destruct (S1 I1 Kb) as [F2 _]. cbn [optl lsrc_branches lsrc_else sem_oelse] in *.
        assert (Len : length ws = wrapped b ENone).
        { apply Forall2_length' in F2. rewrite app_length, map_length, sem_branches_length in F2. cbn in F2.
          unfold wrapped. lia. }
        rewrite Len.
        split; intros (o & st'' & Hc & ->); exists o, st''; (split; [|reflexivity]);
          apply (chain_sem_R ft env _ _ None None F2 Logic.I); exact Hc.
      + (* else *)
        cbn [P_oelse] in Pe.
        destruct (compile_stmts nm ebody a1) as [[el a2]|] eqn:E2; [|discriminate].
        destruct (Pe _ _ _ W1 E2) as (W2 & X2 & S2).
        destruct (Fin (inl el) a2 lines W2 X2 H) as (W' & X' & S').
        split; [exact W'|]. split; [exact X'|]. intros I [Kb Ke] st st'.
        rewrite (S' I Kb st st'). cbn [sem_stmt]. rewrite Single.
        assert (B2 : Forall (fun w => In (wbr_fn nm w) (fns a2)) ws).
        { eapply Forall_impl; [|exact B1]. intros w. apply (ext_in nm _ _ _ X2). }
        assert (I2 : installed ft (fns a2)).
        { destruct (finish_chain_spec nm ft env _ _ _ _ _ W2 H B2) as (_ & X & _). apply (ext_installed nm ft _ _ X I). }
        pose proof (ext_installed nm ft _ _ X2 I2) as I1.
        destruct (S1 I1 Kb) as [F2 _]. rewrite (L1 eq_refl) in F2.
        cbn [optl lsrc_branches lsrc_else sem_oelse] in *. rewrite app_nil_r in *.
        assert (Len : length ws = wrapped b (ESome ebody)).
        { apply Forall2_length' in F2. rewrite map_length, sem_branches_length in F2. exact F2. }
        rewrite Len.
        assert (Er : erel ft env (Some el) (Some (sem_stmts nm ft env ebody))).
        { cbn. intros x y. apply (S2 I2 Ke). }
        split; intros (o & st'' & Hc & ->); exists o, st''; (split; [|reflexivity]);
          apply (chain_sem_R ft env _ _ _ _ F2 Er); exact Hc.
  Qed.
End Main.

Section Final.
  Variable nm : names.
  Variable ft : string -> option (list cmd).
  Variable env : nat -> state -> state.

  Lemma compile_all :
    (forall s, P_stmt nm ft env s) /\ (forall l, P_stmts nm ft env l) /\
    (forall b, P_branches nm ft env b) /\ (forall e, P_oelse nm ft env e).
  Proof.
    apply stmt_mutind.
    - apply P_SCmd.
    - intros b Hb e He. apply P_SIf; assumption.
    - intros c body Hb. apply P_SWhile; assumption.
    - intros body Hb c. apply P_SDoWhile; assumption.
    - intros init c step body Hb. apply P_SFor; assumption.
    - apply P_SNil.
    - intros s Hs r Hr. apply P_SCons; assumption.
    - apply P_BNil.
    - intros c body Hb r Hr. apply P_BCons; assumption.
    - exact I.
    - intros body Hb. exact Hb.
  Qed.

  (* The lowering of a whole function body — chains and loops nested to any depth — stores
     pairwise distinct functions and, run with any function table containing them, computes
     exactly the source meaning of the statement tree. *)
  Theorem compile_body_correct prog lines fs :
    compile_body nm prog = Some (lines, fs) ->
    NoDup (map fst fs) /\
    (installed ft fs -> keeps_stmts nm ft env prog ->
     forall st st', runs ft env lines st st' <-> sem_stmts nm ft env prog st st').
  Proof.
    unfold compile_body. destruct (compile_stmts nm prog alloc0) as [[l a]|] eqn:E; [|discriminate].
    intros H. inversion H; subst; clear H.
    destruct compile_all as (_ & Pl & _ & _).
    destruct (Pl prog _ _ _ (wf_alloc0 nm) E) as ([N _] & _ & S). split; [exact N|exact S].
  Qed.
End Final.

(* a syntactic sufficient condition for keeps_stmts: every chain condition has precommands
   of the shape parse_condition emits, writing scores other than the flag *)
From JMCV Require Import Proofs.IfElseTrace.

Fixpoint simple_stmt (nm : names) (s : stmt) : bool :=
  match s with
  | SCmd _ => true
  | SIf b e => simple_branches nm b && simple_oelse nm e
  | SWhile _ body => simple_stmts nm body
  | SDoWhile body _ => simple_stmts nm body
  | SFor _ _ _ body => simple_stmts nm body
  end
with simple_stmts (nm : names) (l : stmts) : bool :=
  match l with SNil => true | SCons s r => simple_stmt nm s && simple_stmts nm r end
with simple_branches (nm : names) (b : branches) : bool :=
  match b with
  | BNil => true
  | BCons c body r => simple_cond (flag nm) c && simple_stmts nm body && simple_branches nm r
  end
with simple_oelse (nm : names) (e : oelse) : bool :=
  match e with ENone => true | ESome body => simple_stmts nm body end.

Lemma simple_keeps nm ft env :
  (forall s, simple_stmt nm s = true -> keeps_stmt nm ft env s) /\
  (forall l, simple_stmts nm l = true -> keeps_stmts nm ft env l) /\
  (forall b, simple_branches nm b = true -> keeps_branches nm ft env b) /\
  (forall e, simple_oelse nm e = true -> keeps_oelse nm ft env e).
Proof.
  apply stmt_mutind.
  - intros; exact I.
  - intros b Hb e He H. cbn [simple_stmt] in H. apply andb_true_iff in H. destruct H as [H1 H2].
    split; [apply Hb; exact H1|apply He; exact H2].
  - intros c body Hb H. apply Hb. exact H.
  - intros body Hb c H. apply Hb. exact H.
  - intros init c step body Hb H. apply Hb. exact H.
  - intros; exact I.
  - intros s Hs r Hr H. cbn [simple_stmts] in H. apply andb_true_iff in H. destruct H as [H1 H2].
    split; [apply Hs; exact H1|apply Hr; exact H2].
  - intros; exact I.
  - intros c body Hb r Hr H. cbn [simple_branches] in H.
    apply andb_true_iff in H. destruct H as [H H3]. apply andb_true_iff in H. destruct H as [H1 H2].
    split; [apply simple_keeps_flag; exact H1|]. split; [apply Hb; exact H2|apply Hr; exact H3].
  - intros; exact I.
  - intros body Hb H. apply Hb. exact H.
Qed.

Theorem compile_body_correct_simple nm ft env prog lines fs :
  compile_body nm prog = Some (lines, fs) -> installed ft fs -> simple_stmts nm prog = true ->
  forall st st', runs ft env lines st st' <-> sem_stmts nm ft env prog st st'.
Proof.
  intros C I S. destruct (compile_body_correct nm ft env _ _ _ C) as [_ H].
  apply H; [exact I|]. apply (simple_keeps nm ft env). exact S.
Qed.
