(* Proofs.TokArgs — which token the argument-list parsers cite (strengthening round 4 of C14):
   - every diagnostic of parse_func_args / parse_js_obj / parse_component / parse_list / parse_param cites a token of
     the inner tokenizer run (hence a token that sits at its own text, Proofs.Tok);
   - "Unexpected comma in ..." cites the FIRST offending comma: the running index kept by the loop is the offset of the
     separator that closes the first empty group;
   - the variant that advances the index at the end of the loop body only (skipped by the `continue` of the keyword
     branch) cites a token strictly in front of it, which is never an offending comma. *)
From Coq Require Import ZArith NArith List Bool Lia Arith.
From JMCV Require Import Model.Tok Model.TokPos Model.TokDerived Model.TokArgs Proofs.Tok.
Import ListNotations.
Local Notation length := List.length.

(* ------------------------------------------------------------------ find_token, structurally *)
Fixpoint groups_of (l : list token) : list (list token) :=
  match l with
  | [] => [[]]
  | t :: r => if is_sep t then [] :: groups_of r
              else match groups_of r with g :: gs => (t :: g) :: gs | [] => [[t]] end
  end.

Lemma groups_of_nonnil : forall l, groups_of l <> [].
Proof. induction l as [|t r IH]; simpl; [discriminate|]. destruct (is_sep t); [discriminate|]. destruct (groups_of r); discriminate. Qed.

Lemma split_sep_groups : forall l cur,
  split_sep cur l = match groups_of l with g :: gs => (rev cur ++ g) :: gs | [] => [] end.
Proof.
  induction l as [|t r IH]; intros cur; simpl.
  - rewrite app_nil_r. reflexivity.
  - destruct (is_sep t).
    + rewrite app_nil_r. f_equal. rewrite IH. pose proof (groups_of_nonnil r). destruct (groups_of r); [congruence|reflexivity].
    + rewrite IH. pose proof (groups_of_nonnil r). destruct (groups_of r) as [|g gs]; [congruence|].
      simpl. rewrite <- app_assoc. reflexivity.
Qed.

Lemma find_commas_groups : forall l, find_commas l = groups_of l.
Proof. intros l. unfold find_commas. rewrite split_sep_groups. pose proof (groups_of_nonnil l). destruct (groups_of l); [congruence|reflexivity]. Qed.

Definition nonsep (t : token) : Prop := is_sep t = false.

Lemma groups_of_single : forall l g, groups_of l = [g] -> l = g /\ Forall nonsep g.
Proof.
  induction l as [|t r IH]; intros g H; simpl in H.
  - inversion H. split; [reflexivity|constructor].
  - destruct (is_sep t) eqn:E.
    + inversion H. pose proof (groups_of_nonnil r). congruence.
    + destruct (groups_of r) as [|g0 gs] eqn:Er; [inversion H; subst|].
      * exfalso. apply (groups_of_nonnil r Er).
      * inversion H; subst. destruct (IH g0 eq_refl) as [H1 H2]. subst. split; [reflexivity|constructor; auto].
Qed.

Lemma groups_of_cons : forall l g g' gs, groups_of l = g :: g' :: gs ->
  exists s l', l = g ++ s :: l' /\ is_sep s = true /\ Forall nonsep g /\ groups_of l' = g' :: gs.
Proof.
  induction l as [|t r IH]; intros g g' gs H; simpl in H; [discriminate|].
  destruct (is_sep t) eqn:E.
  - inversion H; subst. exists t, r. repeat split; auto.
  - destruct (groups_of r) as [|g0 gs0] eqn:Er; [discriminate|].
    inversion H; subst.
    destruct (IH g0 g' gs eq_refl) as [s [l' [H1 [H2 [H3 H4]]]]].
    exists s, l'. subst r. repeat split; auto.
Qed.

Lemma groups_of_in : forall l g t, In g (groups_of l) -> In t g -> In t l.
Proof.
  induction l as [|x r IH]; intros g t Hg Ht; simpl in Hg.
  - destruct Hg as [<-|[]]. destruct Ht.
  - destruct (is_sep x).
    + destruct Hg as [<-|Hg]; [destruct Ht|]. right. eapply IH; eauto.
    + destruct (groups_of r) as [|g0 gs] eqn:Er.
      * destruct Hg as [<-|[]]. destruct Ht as [<-|[]]. left; reflexivity.
      * destruct Hg as [<-|Hg].
        -- destruct Ht as [<-|Ht]; [left; reflexivity|]. right. apply (IH g0 t); [left; reflexivity|exact Ht].
        -- right. apply (IH g t); [right; exact Hg|exact Ht].
Qed.

(* ------------------------------------------------------------------ one argument *)
Lemma func_arg_cites : forall tokens k n d t, func_arg tokens k n = ADiag d t -> In t tokens /\ d <> AComma /\ d <> ACommaEnd.
Proof.
  intros tokens k n d t H. unfold func_arg in H.
  destruct tokens as [|t0 [|t1 rest2]]; [discriminate| |].
  - destruct (ttype_eqb (t_type t0) OPERATOR && seqb (t_str t0) (if n then s_colon else s_eq)).
    + inversion H; subst. repeat split; [left; reflexivity|discriminate|discriminate].
    + destruct k; [|discriminate]. inversion H; subst. repeat split; [left; reflexivity|discriminate|discriminate].
  - destruct (is_kwop t0); [discriminate|].
    destruct (ttype_eqb (t_type t0) PAREN_ROUND && seqb (t_str t1) s_arrow).
    + destruct rest2 as [|t2 rest3].
      * inversion H; subst. repeat split; [right; left; reflexivity|discriminate|discriminate].
      * destruct (negb (ttype_eqb (t_type t2) PAREN_CURLY)).
        -- inversion H; subst. repeat split; [right; right; left; reflexivity|discriminate|discriminate].
        -- destruct rest3 as [|t3 r]; [discriminate|]. inversion H; subst.
           repeat split; [right; right; right; left; reflexivity|discriminate|discriminate].
    + destruct (ttype_eqb (t_type t0) PAREN_ROUND && (ttype_eqb (t_type t1) OPERATOR || seqb (t_str t1) s_bslash)); [discriminate|].
      inversion H; subst. repeat split; [right; left; reflexivity|discriminate|discriminate].
Qed.

Lemma in_tl2 : forall (A : Type) (x a b : A) l, In x l -> In x (a :: b :: l).
Proof. intros. right. right. assumption. Qed.

(* ------------------------------------------------------------------ one iteration of the loop of parse_func_args *)
Lemma fa_loop_step : forall late kws t0 gr gs idx args kwargs d t,
  fa_loop late kws ((t0 :: gr) :: gs) idx args kwargs = ADiag d t ->
  (In t (t0 :: gr) /\ d <> AComma /\ d <> ACommaEnd) \/
  (exists args' kwargs' idx', fa_loop late kws gs idx' args' kwargs' = ADiag d t /\
     ((idx' = (idx + length (t0 :: gr) + 1)%nat /\ kwargs' = kwargs) \/ (late = false /\ idx' = (idx + length (t0 :: gr) + 1)%nat) \/ (late = true /\ idx' = idx /\ kwargs' <> []))).
Proof.
  intros late kws t0 gr gs idx args kwargs d t H.
  cbn [fa_loop] in H.
  assert (Hpos : match func_arg (t0 :: gr) (match kwargs with [] => false | _ => true end) false with
                 | AOk a => fa_loop late kws gs (idx + length (t0 :: gr) + 1) (args ++ [a]) kwargs
                 | ADiag d0 t1 => ADiag d0 t1
                 | ACrash => ACrash end = ADiag d t ->
                 (In t (t0 :: gr) /\ d <> AComma /\ d <> ACommaEnd) \/
                 (exists args' kwargs' idx', fa_loop late kws gs idx' args' kwargs' = ADiag d t /\
                    ((idx' = (idx + length (t0 :: gr) + 1)%nat /\ kwargs' = kwargs) \/ (late = false /\ idx' = (idx + length (t0 :: gr) + 1)%nat) \/ (late = true /\ idx' = idx /\ kwargs' <> [])))).
  { intros Hp. destruct (func_arg (t0 :: gr) _ false) as [a|d0 t1|] eqn:Ef; [|inversion Hp; subst|discriminate].
    - right. eexists _, _, _. split; [exact Hp|left; split; reflexivity].
    - left. eapply func_arg_cites; eauto. }
  destruct gr as [|t1 gr2]; [apply Hpos; exact H|].
  destruct (mem_str (t_str t1) [s_eq; s_eq_plus; s_eq_minus]); [|apply Hpos; exact H].
  destruct gr2 as [|t2 gr3].
  { inversion H; subst. left. repeat split; [right; left; reflexivity|discriminate|discriminate]. }
  destruct (func_arg (t2 :: gr3) false false) as [value|d0 t3|] eqn:Ef; [| |discriminate].
  - destruct (has_key (t_str t0) kwargs).
    + inversion H; subst. left. repeat split; [left; reflexivity|discriminate|discriminate].
    + right. eexists _, _, _. split; [exact H|].
      destruct late; [right; right; repeat split; auto; destruct kwargs; discriminate|right; left; split; reflexivity].
  - inversion H; subst. left. destruct (func_arg_cites _ _ _ _ _ Ef) as [Hin [H1 H2]].
    repeat split; auto. apply in_tl2. exact Hin.
Qed.

(* ------------------------------------------------------------------ the cited token is a token of the run *)
Lemma fa_loop_in : forall late gs kws idx args kwargs d t,
  (forall g x, In g gs -> In x g -> In x kws) ->
  fa_loop late kws gs idx args kwargs = ADiag d t -> In t kws.
Proof.
  induction gs as [|g gs IH]; intros kws idx args kwargs d t Hsub H; [discriminate|].
  destruct g as [|t0 gr].
  - cbn [fa_loop] in H. destruct (nth_error kws idx) eqn:E; [|discriminate]. inversion H; subst. eapply nth_error_In; eauto.
  - destruct (fa_loop_step _ _ _ _ _ _ _ _ _ _ H) as [[Hin _]|[a' [k' [i' [H' _]]]]].
    + apply (Hsub (t0 :: gr)); [left; reflexivity|exact Hin].
    + eapply IH; [|exact H']. intros g x Hg Hx. apply (Hsub g x); [right; exact Hg|exact Hx].
Qed.

Lemma last_in : forall (l : list token) d, l <> [] -> In (last l d) l.
Proof.
  induction l as [|x r IH]; intros d H; [congruence|].
  destruct r as [|y r']; [left; reflexivity|]. right. apply IH. discriminate.
Qed.

Theorem func_args_cites_given : forall late kws d t, func_args late kws = ADiag d t -> In t kws.
Proof.
  intros late kws d t H. unfold func_args in H. rewrite find_commas_groups in H.
  destruct (last (groups_of kws) []) eqn:El.
  - destruct kws as [|x r]; [discriminate|]. injection H as _ Ht. rewrite <- Ht. exact (last_in (x :: r) _ ltac:(discriminate)).
  - eapply fa_loop_in; [|exact H]. intros g x Hg Hx. eapply groups_of_in; eauto.
Qed.

Lemma pair_loop_in : forall late op gs kws idx obj d t,
  (forall g x, In g gs -> In x g -> In x kws) ->
  pair_loop late op kws gs idx obj = ADiag d t -> In t kws.
Proof.
  induction gs as [|g gs IH]; intros kws idx obj d t Hsub H; [discriminate|].
  assert (Hg : forall x, In x g -> In x kws) by (intros x Hx; apply (Hsub g x); [left; reflexivity|exact Hx]).
  assert (Hgs : forall g' x, In g' gs -> In x g' -> In x kws) by (intros g' x Hg' Hx; apply (Hsub g' x); [right; exact Hg'|exact Hx]).
  cbn [pair_loop] in H.
  destruct g as [|t0 gr].
  - destruct (nth_error kws idx) eqn:E; [|discriminate]. inversion H; subst. eapply nth_error_In; eauto.
  - destruct gr as [|t1 gr2]; [inversion H; subst; apply Hg; left; reflexivity|].
    destruct (negb (seqb (t_str t1) op)); [inversion H; subst; apply Hg; left; reflexivity|].
    destruct gr2 as [|t2 gr3]; [inversion H; subst; apply Hg; right; left; reflexivity|].
    destruct (func_arg (t2 :: gr3) false true) as [value|d0 t3|] eqn:Ef; [| |discriminate].
    + destruct (existsb _ obj); [inversion H; subst; apply Hg; left; reflexivity|].
      eapply IH; [exact Hgs|exact H].
    + inversion H; subst. apply Hg. apply in_tl2. eapply func_arg_cites; eauto.
Qed.

Theorem pairs_cites_given : forall late op kws d t, pairs late op kws = ADiag d t -> In t kws.
Proof.
  intros late op kws d t H. unfold pairs in H. rewrite find_commas_groups in H.
  destruct (last (groups_of kws) []) eqn:El.
  - destruct kws as [|x r]; [discriminate|]. injection H as _ Ht. rewrite <- Ht. exact (last_in (x :: r) _ ltac:(discriminate)).
  - eapply pair_loop_in; [|exact H]. intros g x Hg Hx. eapply groups_of_in; eauto.
Qed.

Theorem list_items_cites_given : forall kws d t, list_items kws = ADiag d t -> In t kws.
Proof.
  unfold list_items. intros kws. generalize false, (@nil token).
  induction kws as [|x r IH]; intros e acc d t H; simpl in H; [discriminate|].
  destruct (ttype_eqb (t_type x) COMMA).
  - destruct e; [right; eapply IH; eauto|inversion H; subst; left; reflexivity].
  - destruct e; [inversion H; subst; left; reflexivity|right; eapply IH; eauto].
Qed.

Theorem params_cites_given : forall kws d t, params kws = ADiag d t -> In t kws.
Proof.
  unfold params. intros kws. generalize false, (@nil str).
  induction kws as [|x r IH]; intros e acc d t H; simpl in H; [discriminate|].
  destruct (ttype_eqb (t_type x) COMMA).
  - destruct e; [right; eapply IH; eauto|inversion H; subst; left; reflexivity].
  - destruct e; [inversion H; subst; left; reflexivity|].
    destruct (negb (ttype_eqb (t_type x) KEYWORD)); [inversion H; subst; left; reflexivity|right; eapply IH; eauto].
Qed.

(* ------------------------------------------------------------------ the running index *)
Lemma nth_error_app_len : forall (A : Type) (pre rem : list A) x, nth_error (pre ++ x :: rem) (length pre) = Some x.
Proof. intros. rewrite nth_error_app2; [|lia]. rewrite Nat.sub_diag. reflexivity. Qed.

Lemma nth_error_mid : forall (A : Type) (pre g rem : list A) j,
  (length pre <= j)%nat -> (j < length pre + length g)%nat -> exists x, nth_error (pre ++ g ++ rem) j = Some x /\ In x g.
Proof.
  intros A pre g rem j H1 H2. rewrite nth_error_app2; [|lia]. rewrite nth_error_app1; [|lia].
  destruct (nth_error g (j - length pre)) eqn:E.
  - exists a. split; [reflexivity|eapply nth_error_In; eauto].
  - apply nth_error_None in E. lia.
Qed.

(* state of the loop: `pre` has been consumed, `rem` is still to be walked *)
Record walk (kws pre rem : list token) (idx : nat) : Prop := mkWalk {
  w_split : kws = pre ++ rem;
  w_idx : idx = length pre;
  w_edge : pre = [] \/ exists pre' s, pre = pre' ++ [s] /\ is_sep s = true;
  w_clean : forall j, (j < idx)%nat -> ~ offending_comma kws j }.

Lemma walk_init : forall kws, walk kws [] kws 0.
Proof. intros. constructor; auto. intros j H. lia. Qed.

(* the separator found at the running index when the next group is empty is the first offending comma *)
Lemma walk_empty : forall kws pre s rem idx,
  walk kws pre (s :: rem) idx -> is_sep s = true ->
  nth_error kws idx = Some s /\ offending_comma kws idx /\ (forall j, (j < idx)%nat -> ~ offending_comma kws j).
Proof.
  intros kws pre s rem idx [Hs Hi He Hc] Hsep. subst kws idx.
  assert (Hn : nth_error (pre ++ s :: rem) (length pre) = Some s) by apply nth_error_app_len.
  split; [exact Hn|]. split; [|exact Hc].
  exists s. split; [exact Hn|]. split; [exact Hsep|].
  destruct He as [->|[pre' [s0 [-> Hs0]]]]; [left; reflexivity|].
  right. exists s0. split; [|exact Hs0].
  rewrite app_length. simpl. replace (length pre' + 1 - 1)%nat with (length pre') by lia.
  rewrite <- app_assoc. simpl. apply nth_error_app_len.
Qed.

(* walking over a non-empty group and its separator *)
Lemma walk_group : forall kws pre g s rem idx,
  walk kws pre (g ++ s :: rem) idx -> g <> [] -> Forall nonsep g -> is_sep s = true ->
  walk kws (pre ++ g ++ [s]) rem (idx + length g + 1).
Proof.
  intros kws pre g s rem idx [Hs Hi He Hc] Hne Hg Hsep.
  constructor.
  - rewrite Hs. repeat rewrite <- app_assoc. reflexivity.
  - subst idx. repeat rewrite app_length. simpl. lia.
  - right. exists (pre ++ g), s. split; [rewrite <- app_assoc; reflexivity|exact Hsep].
  - intros j Hj [t [Hn [Hst Hprev]]].
    destruct (Nat.lt_ge_cases j idx) as [Hlt|Hge]; [apply (Hc j Hlt); exists t; auto|].
    subst idx. rewrite Hs in Hn.
    destruct (Nat.lt_ge_cases j (length pre + length g)) as [Hin|Hat].
    + (* inside the group: not a separator *)
      destruct (nth_error_mid _ pre g (s :: rem) j Hge Hin) as [x [Hx Hxg]].
      rewrite Hx in Hn. inversion Hn; subst x.
      rewrite Forall_forall in Hg. specialize (Hg t Hxg). unfold nonsep in Hg. congruence.
    + (* the separator after the group: the token in front of it belongs to the group *)
      assert (j = length pre + length g)%nat by lia. subst j.
      destruct Hprev as [H0|[p [Hp Hps]]].
      * destruct g; [congruence|]. simpl in H0. lia.
      * rewrite Hs in Hp.
        assert (Hlen : (1 <= length g)%nat) by (destruct g; [congruence|simpl; lia]).
        destruct (nth_error_mid _ pre g (s :: rem) (length pre + length g - 1)) as [x [Hx Hxg]]; [lia|lia|].
        rewrite Hx in Hp. inversion Hp; subst x.
        rewrite Forall_forall in Hg. specialize (Hg p Hxg). unfold nonsep in Hg. congruence.
Qed.

Lemma fa_loop_comma : forall gs kws pre rem idx args kwargs t,
  walk kws pre rem idx -> groups_of rem = gs ->
  fa_loop false kws gs idx args kwargs = ADiag AComma t ->
  exists i, nth_error kws i = Some t /\ offending_comma kws i /\ (forall j, (j < i)%nat -> ~ offending_comma kws j).
Proof.
  induction gs as [|g gs IH]; intros kws pre rem idx args kwargs t Hw Hg H; [discriminate|].
  destruct g as [|t0 gr].
  - (* the empty group *)
    cbn [fa_loop] in H. destruct (nth_error kws idx) as [x|] eqn:En; [|discriminate]. inversion H; subst x.
    destruct gs as [|g' gs'].
    + apply groups_of_single in Hg. destruct Hg as [-> _].
      destruct Hw as [Hs Hi _ _]. subst. rewrite app_nil_r in En.
      assert (nth_error pre (length pre) = None) by (apply nth_error_None; lia). congruence.
    + destruct (groups_of_cons _ _ _ _ Hg) as [s [l' [Hrem [Hsep [_ _]]]]]. simpl in Hrem. subst rem.
      destruct (walk_empty _ _ _ _ _ Hw Hsep) as [Hn [Ho Hc]].
      exists idx. rewrite Hn in En. inversion En; subst. auto.
  - destruct (fa_loop_step _ _ _ _ _ _ _ _ _ _ H) as [[_ [Hd _]]|[a' [k' [i' [H' Hi']]]]]; [congruence|].
    assert (Ei : i' = (idx + length (t0 :: gr) + 1)%nat) by (destruct Hi' as [[E _]|[[_ E]|[Hl _]]]; [exact E|exact E|discriminate]).
    subst i'.
    destruct gs as [|g' gs']; [discriminate|].
    destruct (groups_of_cons _ _ _ _ Hg) as [s [l' [Hrem [Hsep [Hns Hg']]]]]. subst rem.
    eapply (IH kws (pre ++ (t0 :: gr) ++ [s]) l'); [|exact Hg'|exact H'].
    apply walk_group; auto. discriminate.
Qed.

Theorem func_args_comma_is_first_offending : forall kws t,
  func_args false kws = ADiag AComma t ->
  exists i, nth_error kws i = Some t /\ offending_comma kws i /\ (forall j, (j < i)%nat -> ~ offending_comma kws j).
Proof.
  intros kws t H. unfold func_args in H. rewrite find_commas_groups in H.
  destruct (last (groups_of kws) []).
  - destruct kws; [discriminate|]. inversion H.
  - eapply (fa_loop_comma _ kws [] kws); [apply walk_init|reflexivity|exact H].
Qed.

(* the same for parse_js_obj / parse_component *)
Lemma pair_loop_step : forall late op kws t0 gr gs idx obj t,
  pair_loop late op kws ((t0 :: gr) :: gs) idx obj = ADiag AComma t ->
  exists obj' idx', pair_loop late op kws gs idx' obj' = ADiag AComma t /\
     (idx' = (idx + length (t0 :: gr) + 1)%nat \/ (late = true /\ idx' = idx)).
Proof.
  intros late op kws t0 gr gs idx obj t H. cbn [pair_loop] in H.
  destruct gr as [|t1 gr2]; [discriminate|].
  destruct (negb (seqb (t_str t1) op)); [discriminate|].
  destruct gr2 as [|t2 gr3]; [discriminate|].
  destruct (func_arg (t2 :: gr3) false true) as [value|d0 t3|] eqn:Ef; [| |discriminate].
  - destruct (existsb _ obj); [discriminate|].
    eexists _, _. split; [exact H|]. destruct late; [right; auto|left; reflexivity].
  - inversion H; subst. destruct (func_arg_cites _ _ _ _ _ Ef) as [_ [Hc _]]. congruence.
Qed.

Lemma pair_loop_comma : forall op gs kws pre rem idx obj t,
  walk kws pre rem idx -> groups_of rem = gs ->
  pair_loop false op kws gs idx obj = ADiag AComma t ->
  exists i, nth_error kws i = Some t /\ offending_comma kws i /\ (forall j, (j < i)%nat -> ~ offending_comma kws j).
Proof.
  induction gs as [|g gs IH]; intros kws pre rem idx obj t Hw Hg H; [discriminate|].
  destruct g as [|t0 gr].
  - cbn [pair_loop] in H. destruct (nth_error kws idx) as [x|] eqn:En; [|discriminate]. inversion H; subst x.
    destruct gs as [|g' gs'].
    + apply groups_of_single in Hg. destruct Hg as [-> _].
      destruct Hw as [Hs Hi _ _]. subst. rewrite app_nil_r in En.
      assert (nth_error pre (length pre) = None) by (apply nth_error_None; lia). congruence.
    + destruct (groups_of_cons _ _ _ _ Hg) as [s [l' [Hrem [Hsep [_ _]]]]]. simpl in Hrem. subst rem.
      destruct (walk_empty _ _ _ _ _ Hw Hsep) as [Hn [Ho Hc]].
      exists idx. rewrite Hn in En. inversion En; subst. auto.
  - destruct (pair_loop_step _ _ _ _ _ _ _ _ _ H) as [o' [i' [H' Hi']]].
    destruct Hi' as [->|[Hl _]]; [|discriminate].
    destruct gs as [|g' gs']; [discriminate|].
    destruct (groups_of_cons _ _ _ _ Hg) as [s [l' [Hrem [Hsep [Hns Hg']]]]]. subst rem.
    eapply (IH kws (pre ++ (t0 :: gr) ++ [s]) l'); [|exact Hg'|exact H'].
    apply walk_group; auto. discriminate.
Qed.

Theorem pairs_comma_is_first_offending : forall op kws t,
  pairs false op kws = ADiag AComma t ->
  exists i, nth_error kws i = Some t /\ offending_comma kws i /\ (forall j, (j < i)%nat -> ~ offending_comma kws j).
Proof.
  intros op kws t H. unfold pairs in H. rewrite find_commas_groups in H.
  destruct (last (groups_of kws) []).
  - destruct kws; [discriminate|]. inversion H.
  - eapply (pair_loop_comma op _ kws [] kws); [apply walk_init|reflexivity|exact H].
Qed.


(* ------------------------------------------------------------------ the variant: index advanced at the end of the body only.
   State: the true offset `it` of what has been walked and the variant's index `il <= it`; once a keyword argument has
   been accepted (kwargs <> []) the inequality is strict.  The token it cites lies in front of the first offending comma -
   strictly in front of it, and then it is not a doubled comma, once a keyword argument has been accepted. *)
Definition first_offending (kws : list token) (i : nat) : Prop :=
  offending_comma kws i /\ (forall j, (j < i)%nat -> ~ offending_comma kws j).

Lemma last_cons_nonnil : forall (g : list token) gs, last (g :: gs) [] <> [] -> gs <> [] -> last gs [] <> [].
Proof. intros g gs H Hne. destruct gs; [congruence|exact H]. Qed.

Lemma fa_loop_late_comma : forall gs kws pre rem it il args kwargs t,
  walk kws pre rem it -> groups_of rem = gs -> last gs [] <> [] ->
  (il <= it)%nat -> (kwargs <> [] -> (il < it)%nat) ->
  fa_loop true kws gs il args kwargs = ADiag AComma t ->
  exists i i0, nth_error kws i = Some t /\ (i <= i0)%nat /\ first_offending kws i0 /\ (kwargs <> [] -> (i < i0)%nat).
Proof.
  induction gs as [|g gs IH]; intros kws pre rem it il args kwargs t Hw Hg Hlast Hle Hlt H; [discriminate|].
  destruct g as [|t0 gr].
  - cbn [fa_loop] in H. destruct (nth_error kws il) as [x|] eqn:En; [|discriminate]. inversion H; subst x.
    destruct gs as [|g' gs']; [simpl in Hlast; congruence|].
    destruct (groups_of_cons _ _ _ _ Hg) as [s [l' [Hrem [Hsep [_ _]]]]]. simpl in Hrem. subst rem.
    destruct (walk_empty _ _ _ _ _ Hw Hsep) as [Hn [Ho Hc]].
    exists il, it. repeat split; auto.
  - destruct (fa_loop_step _ _ _ _ _ _ _ _ _ _ H) as [[_ [Hd _]]|[a' [k' [i' [H' Hi']]]]]; [congruence|].
    destruct gs as [|g' gs']; [discriminate|].
    destruct (groups_of_cons _ _ _ _ Hg) as [s [l' [Hrem [Hsep [Hns Hg']]]]]. subst rem.
    assert (Hw' : walk kws (pre ++ (t0 :: gr) ++ [s]) l' (it + length (t0 :: gr) + 1)) by (apply walk_group; auto; discriminate).
    assert (Hlast' : last (g' :: gs') [] <> []) by (apply (last_cons_nonnil (t0 :: gr)); [exact Hlast|discriminate]).
    destruct Hi' as [[Ei Ek]|[[Hl _]|[_ [Ei Hk]]]]; [| discriminate |].
    + subst i' k'.
      destruct (IH kws _ l' _ (il + length (t0 :: gr) + 1)%nat a' kwargs t Hw' Hg' Hlast') as [i [i0 [G1 [G2 [G3 G4]]]]];
        [lia|intros Hk; specialize (Hlt Hk); lia|exact H'|].
      exists i, i0. auto.
    + subst i'.
      destruct (IH kws _ l' _ il a' k' t Hw' Hg' Hlast') as [i [i0 [G1 [G2 [G3 G4]]]]];
        [simpl; lia|intros _; simpl; lia|exact H'|].
      exists i, i0. repeat split; auto. destruct G3; auto. destruct G3; auto.
Qed.

Theorem func_args_late_cites_in_front : forall kws t,
  func_args true kws = ADiag AComma t ->
  exists i i0, nth_error kws i = Some t /\ (i <= i0)%nat /\ first_offending kws i0.
Proof.
  intros kws t H. unfold func_args in H. rewrite find_commas_groups in H.
  destruct (last (groups_of kws) []) eqn:El.
  - destruct kws; [discriminate|]. inversion H.
  - destruct (fa_loop_late_comma (groups_of kws) kws [] kws 0 0 [] [] t) as [i [i0 [G1 [G2 [G3 _]]]]]; auto.
    + apply walk_init.
    + rewrite El. discriminate.
    + congruence.
    + exists i, i0. auto.
Qed.

(* a token strictly in front of the first offending comma is not an offending comma *)
Lemma in_front_not_offending : forall kws i i0, first_offending kws i0 -> (i < i0)%nat -> ~ offending_comma kws i.
Proof. intros kws i i0 [_ H] Hlt. apply H. exact Hlt. Qed.

(* a doubled comma anywhere behind a leading keyword argument `key = value`: the variant cites a token strictly in front of
   the first offending comma, i.e. something that is not a doubled comma *)
Theorem func_args_late_after_keyword : forall k e v s rest t,
  nonsep k -> nonsep e -> nonsep v -> is_sep s = true ->
  mem_str (t_str e) [s_eq; s_eq_plus; s_eq_minus] = true ->
  func_args true (k :: e :: v :: s :: rest) = ADiag AComma t ->
  exists i i0, nth_error (k :: e :: v :: s :: rest) i = Some t /\ (i < i0)%nat /\
               first_offending (k :: e :: v :: s :: rest) i0 /\ ~ offending_comma (k :: e :: v :: s :: rest) i.
Proof.
  intros k e v s rest t Hk He Hv Hs Hm H.
  set (kws := k :: e :: v :: s :: rest) in *.
  unfold func_args in H. rewrite find_commas_groups in H.
  assert (Hg : groups_of kws = [k; e; v] :: groups_of rest).
  { unfold kws. simpl. unfold nonsep in *. rewrite Hk, He, Hv, Hs. reflexivity. }
  rewrite Hg in H.
  assert (Hlast : last ([k; e; v] :: groups_of rest) [] = last (groups_of rest) []).
  { pose proof (groups_of_nonnil rest). simpl. destruct (groups_of rest); [congruence|reflexivity]. }
  rewrite Hlast in H.
  destruct (last (groups_of rest) []) eqn:El; [inversion H|].
  cbn [fa_loop] in H. rewrite Hm in H.
  destruct (func_arg [v] false false) as [value| |] eqn:Ef; [|inversion H; subst; destruct (func_arg_cites _ _ _ _ _ Ef) as [_ [Hc _]]; congruence|discriminate].
  simpl has_key in H. cbn iota in H.
  assert (Hw : walk kws ([] ++ [k; e; v] ++ [s]) rest (0 + length [k; e; v] + 1)).
  { apply walk_group; [apply walk_init|discriminate|repeat constructor; auto|exact Hs]. }
  match type of H with fa_loop true kws _ 0 [] ?kw = _ =>
    destruct (fa_loop_late_comma (groups_of rest) kws _ rest _ 0 [] kw t Hw eq_refl) as [i [i0 [G1 [G2 [G3 G4]]]]] end.
  - rewrite El. discriminate.
  - simpl. lia.
  - intros _. simpl. lia.
  - exact H.
  - assert (Hlt : (i < i0)%nat) by (apply G4; discriminate).
    exists i, i0. split; [exact G1|]. split; [exact Hlt|]. split; [exact G3|].
    eapply in_front_not_offending; eauto.
Qed.
