(* Proofs.BuildPath — path spellings (Model/BuildPath.v): algebra of [resolve], and the #static theorems of C10 for every
   spelling of the `#static` argument and of the output directory that denotes the same folder. *)
From Coq Require Import String List Bool Arith Lia.
From JMCV Require Import Model.FS Model.Build Model.BuildPath Proofs.FS Proofs.Build Proofs.BuildC10 Proofs.BuildGate.
Import ListNotations.
Open Scope string_scope.
Open Scope list_scope.

(* ------------------------------------------------------------------ resolve *)

Lemma resolve_app : forall L a b acc, resolve L acc (a ++ b) = resolve L (resolve L acc a) b.
Proof.
  intros L a b. induction a as [|x a IH]; intros acc; simpl; auto.
  destruct (skip x); auto. destruct (dotdot x); auto. destruct (link_at (acc ++ [x]) L); auto.
Qed.

(* "" (a doubled or trailing "/") and "." can be inserted anywhere *)
Lemma resolve_skip : forall L a x b acc, skip x = true -> resolve L acc (a ++ x :: b) = resolve L acc (a ++ b).
Proof. intros L a x b acc H. rewrite !resolve_app. simpl. rewrite H. reflexivity. Qed.

(* `name/..` can be inserted anywhere, unless the name is a symbolic link there *)
Lemma resolve_down_up : forall L a x b acc,
  skip x = false -> dotdot x = false -> link_at (resolve L acc a ++ [x]) L = None ->
  resolve L acc (a ++ x :: ".." :: b) = resolve L acc (a ++ b).
Proof.
  intros L a x b acc Hs Hd Hl. rewrite !resolve_app. simpl. rewrite Hs, Hd, Hl. simpl. rewrite removelast_last. reflexivity.
Qed.

(* through a symbolic link: the spelling continues at the location the link denotes *)
Lemma resolve_link : forall L a x b acc t,
  skip x = false -> dotdot x = false -> link_at (resolve L acc a ++ [x]) L = Some t ->
  resolve L acc (a ++ x :: b) = resolve L t b.
Proof. intros L a x b acc t Hs Hd Hl. rewrite resolve_app. simpl. rewrite Hs, Hd, Hl. reflexivity. Qed.

Lemma canon_from_app : forall L a b acc, canon_from L acc (a ++ b) = canon_from L acc a && canon_from L (acc ++ a) b.
Proof.
  intros L a b. induction a as [|x a IH]; intros acc; simpl.
  - rewrite app_nil_r. reflexivity.
  - rewrite IH. rewrite <- app_assoc. simpl. rewrite !andb_assoc. reflexivity.
Qed.

(* a canonical spelling is its own resolution *)
Lemma resolve_canon : forall L s acc, canon_from L acc s = true -> resolve L acc s = acc ++ s.
Proof.
  intros L s. induction s as [|x s IH]; intros acc H; simpl in *.
  - rewrite app_nil_r. reflexivity.
  - apply andb_true_iff in H as [H H4]. apply andb_true_iff in H as [H H3]. apply andb_true_iff in H as [H1 H2].
    apply negb_true_iff in H1, H2. rewrite H1, H2. destruct (link_at (acc ++ [x]) L); [discriminate|].
    rewrite IH; auto. rewrite <- app_assoc. reflexivity.
Qed.

Lemma canonical_removelast : forall L p, canonical L p = true -> canonical L (removelast p) = true.
Proof.
  intros L p H. destruct p as [|y p']; auto.
  destruct (@exists_last _ (y :: p')) as (q & x & E); [discriminate|]. rewrite E in *.
  rewrite removelast_last. unfold canonical in *. rewrite canon_from_app in H. apply andb_true_iff in H as [H _]. exact H.
Qed.

Lemma canonical_snoc : forall L p x,
  canonical L p = true -> skip x = false -> dotdot x = false -> link_at (p ++ [x]) L = None -> canonical L (p ++ [x]) = true.
Proof.
  intros L p x H Hs Hd Hl. unfold canonical in *. rewrite canon_from_app, H. simpl. rewrite Hs, Hd, Hl. reflexivity.
Qed.

(* the result of realpath is canonical ... *)
Lemma resolve_canonical : forall L s acc, wf_links L -> canonical L acc = true -> canonical L (resolve L acc s) = true.
Proof.
  intros L s. induction s as [|x s IH]; intros acc W H; simpl; auto.
  destruct (skip x) eqn:Hs; auto. destruct (dotdot x) eqn:Hd.
  - apply IH; auto. apply canonical_removelast; auto.
  - destruct (link_at (acc ++ [x]) L) as [t|] eqn:Hl.
    + apply IH; auto. eapply W; eauto.
    + apply IH; auto. apply canonical_snoc; auto.
Qed.

(* ... so resolving twice is resolving once: a stored static folder is a fixed point *)
Theorem resolve_idem : forall L s, wf_links L -> resolve L [] (resolve L [] s) = resolve L [] s.
Proof.
  intros L s W. assert (H : canonical L (resolve L [] s) = true) by (apply resolve_canonical; auto).
  unfold canonical in H. apply resolve_canon in H. exact H.
Qed.

(* ------------------------------------------------------------------ strip / to_model *)

Lemma strip_app : forall pre r, strip pre (pre ++ r) = Some r.
Proof. induction pre as [|x pre IH]; intros r; simpl; auto. rewrite String.eqb_refl. apply IH. Qed.

Lemma strip_some : forall pre p r, strip pre p = Some r -> p = pre ++ r.
Proof.
  induction pre as [|x pre IH]; intros [|y p] r H; simpl in *; try discriminate; try (inversion H; reflexivity).
  destruct (String.eqb x y) eqn:E; [|discriminate]. apply String.eqb_eq in E. subst. f_equal. auto.
Qed.

Lemma to_model_inside : forall oc r, to_model oc (oc ++ r) = "." :: r.
Proof. intros oc r. unfold to_model. rewrite strip_app. reflexivity. Qed.

(* ------------------------------------------------------------------ statics *)

(* a relative `#static` argument is read from the canonical namespace folder: of the output directory's spelling only the
   folder it denotes matters *)
Lemma static_abs_rel : forall E c s,
  ns_unlinked E c = true ->
  static_abs E c (rel s) = resolve (e_links E) (out_canon E ++ ["data"; c_ns c]) s.
Proof.
  intros E c s H. unfold static_abs, rel, out_canon. cbn [sa_abs sa_segs].
  rewrite resolve_app. rewrite (resolve_app _ ["data"; c_ns c] s). f_equal.
  apply resolve_canon. exact H.
Qed.

(* EVERY spelling of the argument that denotes the folder [r] of the output directory gives the model path "." :: r *)
Theorem static_of_inside : forall E c s r,
  ns_unlinked E c = true ->
  resolve (e_links E) (out_canon E ++ ["data"; c_ns c]) s = out_canon E ++ r ->
  static_of E c (rel s) = "." :: r.
Proof. intros E c s r H R. unfold static_of. rewrite static_abs_rel, R; auto. apply to_model_inside. Qed.

(* in particular the spellings of a folder below the namespace folder: proper names, with "", "." and `name/..`
   inserted anywhere (resolve_skip, resolve_down_up) *)
Corollary static_of_below_ns : forall E c s,
  ns_unlinked E c = true -> canon_from (e_links E) (out_canon E ++ ["data"; c_ns c]) s = true ->
  static_of E c (rel s) = ns_dir c ++ s.
Proof.
  intros E c s H C. rewrite (static_of_inside E c s (["data"; c_ns c] ++ s)); auto.
  rewrite resolve_canon; auto. rewrite <- app_assoc. reflexivity.
Qed.

(* `../<namespace>/...`: a sibling namespace folder (data/minecraft, an #override namespace) *)
Corollary static_of_sibling : forall E c s,
  ns_unlinked E c = true -> canon_from (e_links E) (out_canon E ++ ["data"]) s = true ->
  static_of E c (rel (".." :: s)) = ["."; "data"] ++ s.
Proof.
  intros E c s H C. rewrite (static_of_inside E c (".." :: s) (["data"] ++ s)); auto.
  cbn [resolve skip dotdot String.eqb Ascii.eqb Bool.eqb orb].
  replace (out_canon E ++ ["data"; c_ns c]) with ((out_canon E ++ ["data"]) ++ [c_ns c]) by (rewrite <- app_assoc; reflexivity).
  rewrite removelast_last. rewrite resolve_canon; auto. rewrite <- app_assoc. reflexivity.
Qed.

(* two output spellings that denote the same directory give every relative argument the same static folder *)
Theorem static_of_out_spelling : forall L o1 o2 c s,
  resolve L [] o1 = resolve L [] o2 ->
  ns_unlinked (mkEnv L o1) c = true ->
  static_of (mkEnv L o1) c (rel s) = static_of (mkEnv L o2) c (rel s).
Proof.
  intros L o1 o2 c s Ho H. unfold static_of.
  assert (H2 : ns_unlinked (mkEnv L o2) c = true).
  { unfold ns_unlinked, out_canon in *. cbn [e_links e_out] in *. rewrite <- Ho. exact H. }
  rewrite !static_abs_rel; auto. unfold out_canon. cbn [e_links e_out]. rewrite Ho. reflexivity.
Qed.

(* ------------------------------------------------------------------ the build depends on WHICH folders are static only *)

Section StaticsExt.
Variables (h h' : hdr).
Hypothesis Hov : h_overrides h' = h_overrides h.
Hypothesis Hcp : h_copy h' = h_copy h.
Hypothesis Hnm : h_nometa h' = h_nometa h.
Hypothesis Hex : forall p, excepted h' p = excepted h p.
Hypothesis Hnil : h_statics h' = [] <-> h_statics h = [].

Lemma rmtree_static_ext : forall cur d, rmtree_static h' cur d = rmtree_static h cur d.
Proof.
  intros cur d. unfold rmtree_static. destruct (lookup cur d); auto.
  assert (F : forall l : list (path * bool), filter (fun e => negb (excepted h' (fst e))) l = filter (fun e => negb (excepted h (fst e))) l).
  { intros l. apply filter_ext. intros e. rewrite Hex. reflexivity. }
  rewrite F. reflexivity.
Qed.

Lemma rm_folder_ext : forall cur d s, rm_folder h' cur d s = rm_folder h cur d s.
Proof.
  intros cur d s. unfold rm_folder. destruct (is_dir cur d); auto.
  destruct (h_statics h') as [|a l] eqn:E1; destruct (h_statics h) as [|b m] eqn:E2; auto.
  - destruct Hnil as [X _]. specialize (X eq_refl). discriminate.
  - destruct Hnil as [_ X]. specialize (X eq_refl). discriminate.
  - destruct s; auto. apply rmtree_static_ext.
Qed.

Lemma del_phase_ext : forall l cur, del_phase h' cur l = del_phase h cur l.
Proof.
  induction l as [|[d s] l IH]; intros cur; simpl; auto. rewrite rm_folder_ext, IH. reflexivity.
Qed.

Lemma del_list_ext : forall v c, del_list v c h' = del_list v c h.
Proof. intros v c. unfold del_list. rewrite Hov. reflexivity. Qed.

Lemma copy_file_ext : forall p, copy_file h' p = copy_file h p.
Proof. intros p. unfold copy_file. rewrite Hcp. reflexivity. Qed.

Lemma early_tag_ext : forall c isd cur p, early_tag c h' isd cur p = early_tag c h isd cur p.
Proof. intros. unfold early_tag. rewrite copy_file_ext, Hex. reflexivity. Qed.

Lemma func_file_ext : forall c fp, func_file c h' fp = func_file c h fp.
Proof. intros c fp. unfold func_file. rewrite Hov. reflexivity. Qed.
Lemma json_file_ext : forall c jp, json_file c h' jp = json_file c h jp.
Proof. intros c jp. unfold json_file. rewrite Hov. reflexivity. Qed.

Lemma out_files_ext : forall c o, out_files c h' o = out_files c h o.
Proof.
  intros c o. unfold out_files. f_equal; apply map_ext; intros e; [rewrite func_file_ext|rewrite json_file_ext]; reflexivity.
Qed.

Lemma write_phase_ext : forall v c o tags cur, write_phase v c h' o tags cur = write_phase v c h o tags cur.
Proof.
  intros v c o tags cur. unfold write_phase, copy_phase, meta_ops. rewrite Hcp, Hnm, out_files_ext. reflexivity.
Qed.

Lemma build_with_ext : forall v c o tags isd fault cur,
  build_with v c h' o tags isd fault cur = build_with v c h o tags isd fault cur.
Proof.
  intros. unfold build_with. rewrite del_list_ext, del_phase_ext.
  destruct (match fault with Some P => cut P _ | None => _ end) as [pre hit]. destruct hit; auto.
  rewrite write_phase_ext. reflexivity.
Qed.

Lemma build_ext : forall v c o isd fault cur, build v c h' o isd fault cur = build v c h o isd fault cur.
Proof.
  intros. unfold build. rewrite !early_tag_ext. destruct (v_tags_early v).
  - destruct (early_tag c h isd cur (load_path c)); auto. destruct (early_tag c h isd cur (tick_path c)); auto.
    apply build_with_ext.
  - apply build_with_ext.
Qed.

Lemma run_core_ext : forall v c out fault cur, run_core v c h' out fault cur = run_core v c h out fault cur.
Proof.
  intros. unfold run_core. destruct out; auto; rewrite ?build_ext; reflexivity.
Qed.

Lemma gate_ext : forall v c out, gate v c h' out = gate v c h out.
Proof. intros. unfold gate, hdr_ok. rewrite Hov. reflexivity. Qed.

Lemma run_ext : forall v c out fault cur, run v c h' out fault cur = run v c h out fault cur.
Proof. intros. unfold run. rewrite gate_ext. apply run_core_ext. Qed.
End StaticsExt.

Lemma excepted_same_set : forall h h',
  (forall s, In s (h_statics h') <-> In s (h_statics h)) -> forall p, excepted h' p = excepted h p.
Proof.
  intros h h' H p. unfold excepted. apply eq_true_iff_eq. rewrite !existsb_exists.
  split; intros (s & Hin & Hp); exists s; split; auto; apply H; auto.
Qed.

Lemma nil_same_set : forall (a b : list path), (forall s, In s a <-> In s b) -> (a = [] <-> b = []).
Proof.
  intros a b H. split; intros ->.
  - destruct b as [|x b]; auto. destruct (proj2 (H x)); simpl; auto.
  - destruct a as [|x a]; auto. destruct (proj1 (H x)); simpl; auto.
Qed.

(* The build is a function of the SET of static folders: two headers as written - and two spellings of the output directory,
   with whatever links - whose `#static` arguments denote the same folders give the same mutations and the same result, on
   every tree, for every outcome of the front end and every injected failure. *)
Theorem static_spelling_irrelevant : forall v E E' c rh rh' out fault t,
  rh_overrides rh' = rh_overrides rh -> rh_copy rh' = rh_copy rh -> rh_nometa rh' = rh_nometa rh ->
  (forall p, In p (map (static_of E' c) (rh_statics rh')) <-> In p (map (static_of E c) (rh_statics rh))) ->
  run_spelled v E' c rh' out fault t = run_spelled v E c rh out fault t.
Proof.
  intros v E E' c rh rh' out fault t Ho Hc Hn Hs. unfold run_spelled.
  apply run_ext; cbn [hdr_of h_overrides h_copy h_nometa h_statics]; auto.
  - apply excepted_same_set. exact Hs.
  - apply nil_same_set. exact Hs.
Qed.

(* #static folders are byte-identical at every crash point, whatever the spelling: every `#static` argument [a] of the header
   as written shields the folder it denotes ([static_of]) and everything below it, except where the build itself writes. *)
Theorem statics_untouched_spelled : forall v E c rh out fault t ops t' a p,
  sound v ->
  crash_trace (plan_spelled v E c rh out fault t) ops -> exec ops t = Some t' ->
  In a (rh_statics rh) -> is_prefix (static_of E c a) p = true ->
  (forall o w, gate v c (hdr_of E c rh) out = Success o -> In w (written_paths c (hdr_of E c rh) o) -> is_prefix p w = false) ->
  node_at t' p = node_at t p.
Proof.
  intros v E c rh out fault t ops t' a p Hv Hc He Ha Hp Hw.
  eapply (statics_pointwise v c (hdr_of E c rh)); eauto.
  unfold excepted. apply existsb_exists. exists (static_of E c a). split; auto.
  cbn [hdr_of h_statics]. apply in_map. exact Ha.
Qed.

(* ------------------------------------------------------------------ witnesses *)
(* /w/out holds data/ns/keep/a.txt and data/ns/function/old.mcfunction; /w/lnk -> /w, /w/a/lnk2 -> /w/proj *)
Definition p_links : links := [(["w"; "lnk"], ["w"]); (["w"; "a"; "lnk2"], ["w"; "proj"]); (["w"; "outlnk"], ["w"; "out"])].
Definition p_cfg : cfg := mkCfg "ns" "function" "LOAD=__load__" "__load__" "__tick__".
Definition p_tree : fs :=
  TDir [(".", TDir [("data", TDir [("ns", TDir [("jmc.txt", TFile (Raw "LOAD=__load__"));
                                               ("keep", TDir [("a.txt", TFile (Raw "precious"))]);
                                               ("function", TDir [("old.mcfunction", TFile (Raw "say old"))])]);
                                 ("minecraft", TDir [("loot_table", TDir [("x.json", TFile (Raw "{}"))])])])])].
Definition p_out : output := mkOutput [(["g"], "say g")] [] false "{}".
Definition p_outs : list spelled :=
  [["w"; "out"]; ["w"; "proj"; ".."; "out"]; ["w"; "out"; ""]; ["w"; "."; "out"; "."]; ["w"; "lnk"; "out"]; ["w"; "outlnk"];
   ["w"; "a"; "lnk2"; ".."; "out"]; ["w"; "lnk"; "lnk"; "proj"; ".."; "outlnk"; "data"; ".."]].
Definition p_keeps : list spelled :=
  [["keep"]; ["."; "keep"]; ["a"; ".."; "keep"]; ["keep"; ""]; ["function"; ".."; "keep"; "."]; [".."; "ns"; "keep"];
   [".."; ".."; "data"; "ns"; "keep"]; ["keep"; "sub"; ".."]].

Lemma p_links_wf : wf_links p_links.
Proof.
  intros q t H. unfold p_links in H. simpl in H.
  repeat match type of H with (if ?b then _ else _) = _ => destruct b end; inversion H; reflexivity.
Qed.

(* all 8 x 8 spellings denote ./data/ns/keep ... *)
Lemma p_all_spellings : forallb (fun o => forallb (fun k =>
    path_eqb (static_of (mkEnv p_links o) p_cfg (rel k)) ["."; "data"; "ns"; "keep"]) p_keeps) p_outs = true.
Proof. vm_compute. reflexivity. Qed.

(* ... `#static "../minecraft/loot_table"` and an absolute argument through a link likewise *)
Lemma p_other_spellings :
  static_of (mkEnv p_links ["w"; "a"; "lnk2"; ".."; "out"]) p_cfg (rel [".."; "minecraft"; "loot_table"]) = ["."; "data"; "minecraft"; "loot_table"] /\
  static_of (mkEnv p_links ["w"; "out"]) p_cfg (mkSArg true ["w"; "lnk"; "out"; "data"; "ns"; "keep"]) = ["."; "data"; "ns"; "keep"] /\
  static_of (mkEnv p_links ["w"; "out"]) p_cfg (rel [".."; ".."; ".."]) = [] /\
  static_of (mkEnv p_links ["w"; "out"]) p_cfg (rel [".."; ".."; ".."; "outside"]) = ["<outside>"; "w"; "outside"].
Proof. vm_compute. repeat split. Qed.

(* and the rebuild keeps the folder: non-vacuity of statics_untouched_spelled with a spelling that is not canonical *)
Definition p_E : penv := mkEnv p_links ["w"; "a"; "lnk2"; ".."; "out"].
Definition p_rh : rhdr := mkRHdr [rel ["function"; ".."; "keep"; "."]] [] None false.
Definition p_after : fs := run_ops (plan_spelled guarded p_E p_cfg p_rh (Success p_out) None p_tree) p_tree.

Lemma p_rebuild_keeps :
  let E := mkEnv p_links ["w"; "a"; "lnk2"; ".."; "out"] in
  let rh := mkRHdr [rel ["function"; ".."; "keep"; "."]] [] None false in
  exists t', exec (plan_spelled guarded E p_cfg rh (Success p_out) None p_tree) p_tree = Some t' /\
    snd (run_spelled guarded E p_cfg rh (Success p_out) None p_tree) = RDone /\
    node_at t' ["."; "data"; "ns"; "keep"; "a.txt"] = Some (NFile (Raw "precious")) /\
    node_at t' ["."; "data"; "ns"; "function"; "old.mcfunction"] = None /\
    node_at t' ["."; "data"; "ns"; "function"; "g.mcfunction"] = Some (NFile (Raw "say g")).
Proof. cbv zeta. exists p_after. repeat split; vm_compute; reflexivity. Qed.
