(* Proofs.Tok — the invariant of the character loop of Model.Tok and what follows from it:
   no internal exception escapes (C13), every statement is non-empty (C13), every token is cited at the
   position of its own first character and every diagnostic at a character of the input (C14). *)
From Coq Require Import ZArith NArith List Bool Lia String.
Local Notation length := List.length.
From JMCV Require Import Model.Tok Model.TokPos.
Import ListNotations.
Open Scope Z_scope.

(* ------------------------------------------------------------------ results *)
Definition res_ok {A} (P : A -> Prop) (Q : diag -> Z -> Z -> Prop) (r : result A) : Prop :=
  match r with Ok a => P a | Diag d l c => Q d l c | Crash _ => False end.

Lemma res_ok_bind : forall {A B} (P1 : A -> Prop) (P2 : B -> Prop) Q (r : result A) (f : A -> result B),
  res_ok P1 Q r -> (forall a, P1 a -> res_ok P2 Q (f a)) -> res_ok P2 Q (bind r f).
Proof. intros A B P1 P2 Q [a|d l c|e] f H1 H2; simpl in *; auto. Qed.

Lemma res_ok_weaken : forall {A} (P P' : A -> Prop) Q (r : result A),
  res_ok P Q r -> (forall a, P a -> P' a) -> res_ok P' Q r.
Proof. intros A P P' Q [a|d l c|e] H1 H2; simpl in *; auto. Qed.

(* ------------------------------------------------------------------ characters *)
Lemma ceqb_eq : forall a b, ceqb a b = true <-> a = b.
Proof. intros; unfold ceqb; apply N.eqb_eq. Qed.
Lemma ceqb_refl : forall a, ceqb a a = true.
Proof. intros; apply ceqb_eq; reflexivity. Qed.
Lemma seqb_eq : forall a b, seqb a b = true <-> a = b.
Proof.
  induction a as [|x a IH]; destruct b as [|y b]; simpl; split; intros H; try congruence; try discriminate.
  - apply andb_true_iff in H as [H1 H2]. apply ceqb_eq in H1. apply IH in H2. congruence.
  - inversion H; subst. rewrite ceqb_refl. simpl. apply IH. reflexivity.
Qed.

Lemma is_lparen_not_nl : forall c, is_lparen c = true -> ceqb c c_nl = false.
Proof.
  intros c H. unfold is_lparen in H.
  repeat (apply orb_true_iff in H; destruct H as [H|H]); apply ceqb_eq in H; subst; reflexivity.
Qed.
Lemma is_quote_not_nl : forall c, is_quote c = true -> ceqb c c_nl = false.
Proof.
  intros c H. unfold is_quote in H.
  repeat (apply orb_true_iff in H; destruct H as [H|H]); apply ceqb_eq in H; subst; reflexivity.
Qed.

(* ------------------------------------------------------------------ positions *)
Lemma pos_after_app : forall p a b, pos_after p (a ++ b) = pos_after (pos_after p a) b.
Proof. intros; unfold pos_after; apply fold_left_app. Qed.
Lemma pos_after_snoc : forall p a c, pos_after p (a ++ [c]) = adv (pos_after p a) c.
Proof. intros; rewrite pos_after_app; reflexivity. Qed.

(* ------------------------------------------------------------------ the invariant *)
Definition shape (t : token) : Prop :=
  is_bracket (t_type t) = true ->
  exists o body cl, t_str t = o :: body ++ [cl] /\ is_lparen o = true.
Definition tok_good (p0 : pos) (s : str) (t : token) : Prop := faithful_from p0 s t /\ shape t.

Definition pending (p0 : pos) (done : str) (st : tk) : Prop :=
  match s_state st with
  | None | Some COMMENT => s_tokstr st = []
  | Some KEYWORD | Some OPERATOR =>
      s_tokstr st <> [] /\ exists d0, done = d0 ++ s_tokstr st /\ s_tokpos st = Some (pos_after p0 d0)
  | Some STRING =>
      exists d0 q d1, done = d0 ++ q :: d1 /\ is_quote q = true /\ s_tokpos st = Some (pos_after p0 d0)
  | Some PAREN =>
      exists d0 p r, done = d0 ++ s_tokstr st /\ s_tokstr st = p :: r /\ is_lparen p = true /\
                     s_paren st = Some p /\ s_rparen st = Some (paren_pair p) /\
                     s_tokpos st = Some (pos_after p0 d0)
  | Some _ => False
  end.

Definition stmts_good (p0 : pos) (s : str) (l : list (list token)) : Prop :=
  Forall (fun st => st <> [] /\ Forall (tok_good p0 s) st) l.

Record TokInv (p0 : pos) (s done : str) (st : tk) : Prop := mkTI {
  ti_split : exists rest, s = done ++ rest;
  ti_kw : Forall (tok_good p0 s) (s_keywords st);
  ti_lok : stmts_good p0 s (s_lok st);
  ti_pending : pending p0 done st }.

(* a diagnostic raised while the character after `done` is being processed cites that character *)
Definition cites (p0 : pos) (done : str) : diag -> Z -> Z -> Prop :=
  fun _ l c => (l, c) = pos_after p0 done.

(* ------------------------------------------------------------------ append_token / append_keywords *)
Lemma append_token_ok : forall st ty l c,
  s_state st = Some ty -> s_tokpos st = Some (l, c) ->
  (ty = PAREN_CURLY -> curly_shape_ok (s_tokstr st) = true) ->
  append_token st =
    Ok (set_state (set_tokpos (set_tokstr (set_keywords st
          (s_keywords st ++ [mkTok ty l c (s_tokstr st) (quote_is st c_btick)])) []) None) None).
Proof.
  intros st ty l c Hs Hp Hc. unfold append_token. rewrite Hs, Hp.
  destruct (ttype_eqb ty PAREN_CURLY) eqn:E; simpl; auto.
  assert (ty = PAREN_CURLY) by (destruct ty; simpl in E; congruence).
  rewrite Hc; auto.
Qed.

Lemma Forall_snoc : forall {A} (P : A -> Prop) l x, Forall P l -> P x -> Forall P (l ++ [x]).
Proof. intros. apply Forall_app; split; auto. Qed.

(* emitting the pending KEYWORD / OPERATOR token while `done` has been consumed and the text goes on *)
Lemma emit_kwop : forall p0 s done st,
  TokInv p0 s done st -> (state_is st KEYWORD || state_is st OPERATOR = true) ->
  exists st', append_token st = Ok st' /\ TokInv p0 s done st' /\ s_state st' = None /\
              s_line st' = s_line st /\ s_col st' = s_col st /\ s_keywords st' <> [] /\
              s_lok st' = s_lok st /\ s_allow_semi st' = s_allow_semi st /\ s_is_slash st' = s_is_slash st /\
              s_quote st' = s_quote st /\ s_escaped st' = s_escaped st /\ s_is_string st' = s_is_string st /\
              s_is_comment st' = s_is_comment st.
Proof.
  intros p0 s done st [Hsplit Hkw Hlok Hp] Hst.
  unfold state_is in Hst. unfold pending in Hp.
  destruct (s_state st) as [ty|] eqn:Es; [|discriminate].
  assert (Hty : ty = KEYWORD \/ ty = OPERATOR).
  { destruct ty; simpl in Hst; try discriminate; auto. }
  assert (Hp' : s_tokstr st <> [] /\ exists d0, done = d0 ++ s_tokstr st /\ s_tokpos st = Some (pos_after p0 d0)).
  { destruct Hty; subst; exact Hp. }
  destruct Hp' as [Hne [d0 [Hd Htp]]].
  destruct (pos_after p0 d0) as [l c] eqn:Epos.
  eexists. split.
  { eapply append_token_ok; eauto. intros ->. destruct Hty; discriminate. }
  split; [|simpl; repeat split; auto; destruct (s_keywords st); discriminate].
  destruct Hsplit as [rest Hs].
  constructor; simpl; auto.
  - exists rest; auto.
  - apply Forall_snoc; auto. split.
    + exists d0, (s_tokstr st ++ rest). split; [subst; rewrite app_assoc; reflexivity|].
      split; [simpl; congruence|].
      unfold token_src. simpl. destruct Hty; subst ty; (split; [auto|eexists; reflexivity]).
    + unfold shape; simpl. destruct Hty; subst ty; simpl; discriminate.
  - unfold pending; simpl. reflexivity.
Qed.

Lemma append_keywords_ok : forall p0 s done st,
  TokInv p0 s done st -> s_keywords st <> [] ->
  exists st', append_keywords st = Ok st' /\ TokInv p0 s done st' /\
              st' = set_keywords (set_lok st (s_lok st ++ [s_keywords st])) [].
Proof.
  intros p0 s done st [Hsplit Hkw Hlok Hp] Hne. unfold append_keywords.
  destruct (s_keywords st) as [|t k] eqn:E; [congruence|].
  eexists; split; [reflexivity|]. split; [|reflexivity].
  constructor; simpl; auto.
  unfold stmts_good. apply Forall_snoc; auto.
Qed.

(* ------------------------------------------------------------------ per-state steps *)
Definition Cur (p0 : pos) (done : str) (st : tk) : Prop := (s_line st, s_col st) = pos_after p0 done.
Definition keeps_pos (st st' : tk) : Prop := s_line st' = s_line st /\ s_col st' = s_col st.

Lemma split_snoc : forall (s done : str) c rest, s = done ++ c :: rest -> exists r, s = (done ++ [c]) ++ r.
Proof. intros; exists rest; rewrite <- app_assoc; auto. Qed.

Ltac ti_intro :=
  constructor; simpl;
  [ first [ eapply split_snoc; eassumption | eassumption ] | try assumption | try assumption | unfold pending; simpl ].

Lemma pending_idle_nil : forall p0 done st, pending p0 done st -> s_state st = None -> s_tokstr st = [].
Proof. intros p0 done st H E; unfold pending in H; rewrite E in H; auto. Qed.

Lemma parse_none_ok : forall p0 s done c rest st,
  TokInv p0 s done st -> s = done ++ c :: rest -> s_state st = None -> Cur p0 done st ->
  res_ok (fun r => TokInv p0 s (done ++ [c]) (fst r) /\ keeps_pos st (fst r))
         (cites p0 done) (parse_none c st).
Proof.
  intros p0 s done c rest st HI Hs Hst Hcur.
  pose proof (pending_idle_nil _ _ _ (ti_pending _ _ _ _ HI) Hst) as Hnil.
  destruct HI as [Hsplit Hkw Hlok Hp].
  unfold Cur in Hcur. unfold parse_none.
  destruct (is_quote c) eqn:Eq.
  { simpl. split; [|split; reflexivity]. ti_intro.
    exists done, c, []. repeat split; auto. unfold here. rewrite Hcur. reflexivity. }
  destruct (is_space c) eqn:Esp.
  { simpl. split; [|split; reflexivity]. ti_intro. rewrite Hst. auto. }
  destruct (ceqb c c_semi) eqn:Esemi.
  { unfold append_keywords. destruct (s_keywords st) as [|t k] eqn:Ek.
    - simpl. unfold cites. auto.
    - simpl. split; [|split; reflexivity]. ti_intro.
      + constructor.
      + unfold stmts_good. apply Forall_snoc; auto. split; [discriminate|auto].
      + rewrite Hst. auto. }
  destruct (is_lparen c) eqn:Elp.
  { simpl. split; [|split; reflexivity]. ti_intro.
    exists done, c, []. rewrite Hnil. simpl. repeat split; auto. unfold here; rewrite Hcur; reflexivity. }
  destruct (is_rparen c) eqn:Erp.
  { simpl. unfold cites. auto. }
  destruct (ceqb c c_hash && match s_keywords st with [] => true | _ => false end) eqn:Ehash.
  { simpl. split; [|split; reflexivity]. ti_intro. auto. }
  destruct (ceqb c c_comma) eqn:Ecomma.
  { destruct (pos_after p0 done) as [l k] eqn:Epos.
    erewrite append_token_ok; simpl; eauto; try discriminate.
    2:{ unfold here. rewrite Hcur. reflexivity. }
    split; [|split; reflexivity]. ti_intro.
    - apply Forall_snoc; auto. split.
      + exists done, (c :: rest). split; auto. split; [simpl; congruence|].
        unfold token_src; simpl. rewrite Hnil. simpl. split; [discriminate|eexists; reflexivity].
      + unfold shape; simpl; discriminate.
    - reflexivity. }
  destruct (is_operator c) eqn:Eop.
  { simpl. split; [|split; reflexivity]. ti_intro. rewrite Hnil. simpl.
    split; [discriminate|]. exists done. split; auto. unfold here; rewrite Hcur; reflexivity. }
  simpl. split; [|split; reflexivity]. ti_intro. rewrite Hnil. simpl.
  split; [discriminate|]. exists done. split; auto. unfold here; rewrite Hcur; reflexivity.
Qed.

Lemma kwop_cases : forall st, state_is st KEYWORD || state_is st OPERATOR = true ->
  s_state st = Some KEYWORD \/ s_state st = Some OPERATOR.
Proof.
  intros st H. unfold state_is in H. destruct (s_state st) as [[]|]; simpl in H; try discriminate; auto.
Qed.

Lemma pending_kwop : forall p0 done st, pending p0 done st ->
  s_state st = Some KEYWORD \/ s_state st = Some OPERATOR ->
  s_tokstr st <> [] /\ exists d0, done = d0 ++ s_tokstr st /\ s_tokpos st = Some (pos_after p0 d0).
Proof. intros p0 done st H [E|E]; unfold pending in H; rewrite E in H; exact H. Qed.

(* the pending KEYWORD/OPERATOR token swallows the current character *)
Lemma push_extend : forall p0 s done c rest st,
  TokInv p0 s done st -> s = done ++ c :: rest ->
  s_state st = Some KEYWORD \/ s_state st = Some OPERATOR ->
  TokInv p0 s (done ++ [c]) (push st c).
Proof.
  intros p0 s done c rest st [Hsplit Hkw Hlok Hp] Hs Hst.
  destruct (pending_kwop _ _ _ Hp Hst) as [Hne [d0 [Hd Htp]]].
  ti_intro.
  assert (G : s_tokstr st ++ [c] <> [] /\
              exists d1, done ++ [c] = d1 ++ s_tokstr st ++ [c] /\ s_tokpos st = Some (pos_after p0 d1)).
  { split; [destruct (s_tokstr st); discriminate|]. exists d0. split; auto.
    rewrite Hd at 1. rewrite <- app_assoc. reflexivity. }
  destruct Hst as [E|E]; rewrite E; exact G.
Qed.

(* a fresh KEYWORD/OPERATOR token starts at the current character *)
Lemma push_fresh : forall p0 s done c rest st ty,
  TokInv p0 s done st -> s = done ++ c :: rest -> s_state st = None -> Cur p0 done st ->
  ty = KEYWORD \/ ty = OPERATOR ->
  TokInv p0 s (done ++ [c]) (push (set_state (set_tokpos st (here st)) (Some ty)) c).
Proof.
  intros p0 s done c rest st ty HI Hs Hst Hcur Hty.
  pose proof (pending_idle_nil _ _ _ (ti_pending _ _ _ _ HI) Hst) as Hnil.
  destruct HI as [Hsplit Hkw Hlok Hp]. ti_intro. rewrite Hnil. simpl.
  assert (G : [c] <> [] /\ exists d0, done ++ [c] = d0 ++ [c] /\ here st = Some (pos_after p0 d0)).
  { split; [discriminate|]. exists done. split; auto. unfold here. rewrite Hcur. reflexivity. }
  destruct Hty; subst ty; exact G.
Qed.

Lemma parse_kw_ok : forall p0 s done c rest es st,
  TokInv p0 s done st -> s = done ++ c :: rest ->
  state_is st KEYWORD || state_is st OPERATOR = true -> Cur p0 done st ->
  res_ok (fun r : tk * bool => keeps_pos st (fst r) /\
                   if snd r then TokInv p0 s (done ++ [c]) (fst r)
                   else TokInv p0 s done (fst r) /\ s_state (fst r) = None)
         (cites p0 done) (parse_kw c es st).
Proof.
  intros p0 s done c rest es st HI Hs Hst Hcur.
  destruct (emit_kwop _ _ _ _ HI Hst) as [st' [Hap [HI' [Hn' [Hl' [Hc' [Hk' [Hlok' [Hsemi' _]]]]]]]]].
  assert (Hcur' : Cur p0 done st') by (unfold Cur in *; rewrite Hl', Hc'; auto).
  pose proof (kwop_cases _ Hst) as Hst2.
  unfold parse_kw.
  destruct (ceqb c c_squote || ceqb c c_dquote || is_lparen c || ceqb c c_comma || is_space c) eqn:Edelim.
  { rewrite Hap. simpl. split; [split; auto|split; auto]. }
  destruct (state_is st KEYWORD && is_operator c) eqn:E1.
  { (* KEYWORD -> OPERATOR *)
    rewrite Hap. simpl.
    assert (Hsemi : ceqb c c_semi = false).
    { apply andb_true_iff in E1 as [_ E1]. destruct (ceqb c c_semi) eqn:E; auto.
      apply ceqb_eq in E; subst; discriminate. }
    rewrite Hsemi. simpl. split; [split; simpl; auto|].
    pose proof (push_fresh p0 s done c rest st' OPERATOR HI' Hs Hn' Hcur' (or_intror eq_refl)) as G.
    exact G. }
  destruct (state_is st OPERATOR && negb (is_operator c) && negb (ceqb c c_semi)) eqn:E2.
  { rewrite Hap. simpl.
    assert (Hsemi : ceqb c c_semi = false).
    { apply andb_true_iff in E2 as [_ E2]. destruct (ceqb c c_semi); auto; discriminate. }
    rewrite Hsemi. simpl. split; [split; simpl; auto|].
    pose proof (push_fresh p0 s done c rest st' KEYWORD HI' Hs Hn' Hcur' (or_introl eq_refl)) as G.
    exact G. }
  simpl.
  destruct (ceqb c c_semi) eqn:Esemi.
  - destruct es.
    + rewrite Hap. simpl. split; [split; auto|split; auto].
    + destruct (s_allow_semi st) eqn:Eas; simpl.
      * match goal with |- context [if ?b then _ else _] => destruct b end; simpl.
        -- split; [split; reflexivity|].
           pose proof (push_extend p0 s done c rest st HI Hs Hst2) as G.
           destruct G as [G1 G2 G3 G4]. constructor; simpl; auto.
        -- unfold cites; simpl. auto.
      * unfold cites; simpl; auto.
  - simpl. split; [split; reflexivity|]. apply (push_extend p0 s done c rest st HI Hs Hst2).
Qed.

Lemma state_is_true : forall st t, state_is st t = true -> s_state st = Some t.
Proof.
  intros st t H. unfold state_is in H. destruct (s_state st) as [x|]; [|discriminate].
  destruct x, t; simpl in H; congruence.
Qed.

(* TokInv does not look at line/col *)
Lemma ti_set_pos : forall p0 s done st l c, TokInv p0 s done st -> TokInv p0 s done (set_pos st l c).
Proof. intros p0 s done st l c [H1 H2 H3 H4]. constructor; simpl; auto. Qed.

Lemma parse_newline_ok : forall p0 s done rest st,
  TokInv p0 s done st -> s = done ++ c_nl :: rest -> Cur p0 done st ->
  res_ok (fun st' => TokInv p0 s (done ++ [c_nl]) st' /\ s_line st' = s_line st + 1 /\ s_col st' = 0)
         (cites p0 done) (parse_newline c_nl st).
Proof.
  intros p0 s done rest st HI Hs Hcur.
  unfold parse_newline.
  set (st0 := set_is_comment st false).
  assert (HI0 : TokInv p0 s done st0).
  { destruct HI as [H1 H2 H3 H4]. constructor; simpl; auto. }
  assert (Hl0 : s_line st0 = s_line st /\ s_col st0 = s_col st) by (split; reflexivity).
  clearbody st0. destruct Hl0 as [Hl0 Hc0].
  destruct (state_is st0 STRING) eqn:Estr.
  - (* inside a string literal *)
    apply state_is_true in Estr.
    assert (Hns : state_is st0 COMMENT = false /\ state_is st0 KEYWORD = false /\
                  state_is st0 OPERATOR = false /\ state_is st0 PAREN = false).
    { unfold state_is. rewrite Estr. simpl. auto. }
    destruct Hns as [N1 [N2 [N3 N4]]].
    destruct HI0 as [Hsplit Hkw Hlok Hp].
    assert (Hp' := Hp). unfold pending in Hp'. rewrite Estr in Hp'.
    destruct Hp' as [d0 [q [d1 [Hd [Hq Htp]]]]].
    destruct (quote_is st0 c_btick) eqn:Ebt.
    + simpl. unfold state_is; simpl. rewrite Estr. simpl.
      split; [|split; simpl; lia]. ti_intro. rewrite Estr.
      exists d0, q, (d1 ++ [c_nl]). split; [rewrite Hd, <- app_assoc; reflexivity|auto].
    + destruct (s_escaped st0) eqn:Eesc.
      * simpl. unfold state_is; simpl. rewrite Estr. simpl.
        split; [|split; simpl; lia]. ti_intro. rewrite Estr.
        exists d0, q, (d1 ++ [c_nl]). split; [rewrite Hd, <- app_assoc; reflexivity|auto].
      * simpl. unfold cites. unfold Cur in Hcur. rewrite Hl0, Hc0. auto.
  - simpl.
    destruct (state_is st0 COMMENT) eqn:Ecom.
    { apply state_is_true in Ecom. simpl. split; [|split; simpl; lia].
      destruct HI0 as [Hsplit Hkw Hlok Hp]. ti_intro. unfold pending in Hp; rewrite Ecom in Hp; exact Hp. }
    destruct (state_is st0 KEYWORD || state_is st0 OPERATOR) eqn:Ekw.
    { destruct (emit_kwop _ _ _ _ HI0 Ekw) as [st' [Hap [HI' [Hn' [Hl' [Hc' _]]]]]].
      rewrite Hap. simpl. split; [|split; simpl; lia].
      destruct HI' as [Hsplit Hkw Hlok Hp]. ti_intro. rewrite Hn'.
      unfold pending in Hp. rewrite Hn' in Hp. exact Hp. }
    destruct (state_is st0 PAREN) eqn:Epar.
    { apply state_is_true in Epar.
      match goal with |- context [if ?b then set_escaped _ false else _] => destruct b end;
      ( simpl; split; [|split; simpl; lia];
        destruct HI0 as [Hsplit Hkw Hlok Hp]; ti_intro; rewrite Epar;
        unfold pending in Hp; rewrite Epar in Hp;
        destruct Hp as [d0 [p [r [Hd [Hts [Hlp [Hpa [Hrp Htp]]]]]]]];
        exists d0, p, (r ++ [c_nl]); rewrite Hts; simpl;
        repeat split; auto; rewrite Hd, Hts, <- app_assoc; reflexivity ). }
    simpl. split; [|split; simpl; lia].
    destruct HI0 as [Hsplit Hkw Hlok Hp]. ti_intro.
    unfold pending in Hp.
    destruct (s_state st0) as [ty|] eqn:Es; auto.
    unfold state_is in *. rewrite Es in *.
    destruct ty; simpl in *; try discriminate; auto.
Qed.

Lemma split_nl_aux_nonnil : forall l cur, split_nl_aux cur l <> [].
Proof. induction l as [|c r IH]; intros cur; simpl; [discriminate|]. destruct (ceqb c c_nl); [discriminate|apply IH]. Qed.

Lemma parse_multiline_string_ok : forall st (P : tk -> Prop) (Q : diag -> Z -> Z -> Prop),
  (forall v, P (set_tokstr st v)) -> (forall d, Q d (s_line st) (s_col st)) ->
  res_ok P Q (parse_multiline_string st).
Proof.
  intros st P Q HP HQ. unfold parse_multiline_string.
  pose proof (split_nl_aux_nonnil (s_tokstr st) []) as Hnn. unfold split_nl.
  destruct (split_nl_aux [] (s_tokstr st)) as [|a [|b [|c l]]]; try congruence; simpl; auto.
  repeat match goal with |- context [if ?b then _ else _] => destruct b end; simpl; auto.
Qed.

Section WithUni.
Variable uni : str -> option char.

(* the STRING token closed by the current character *)
Lemma close_string : forall p0 s done c rest st v,
  TokInv p0 s done st -> s = done ++ c :: rest -> s_state st = Some STRING ->
  exists st', append_token (set_tokstr (push st c) v) = Ok st' /\ TokInv p0 s (done ++ [c]) st' /\
              keeps_pos st st'.
Proof.
  intros p0 s done c rest st v [Hsplit Hkw Hlok Hp] Hs Hst.
  unfold pending in Hp. rewrite Hst in Hp. destruct Hp as [d0 [q [d1 [Hd [Hq Htp]]]]].
  destruct (pos_after p0 d0) as [l k] eqn:Epos.
  eexists. split.
  { eapply append_token_ok; simpl; eauto. discriminate. }
  split; [|split; reflexivity].
  ti_intro.
  - apply Forall_snoc; auto. split.
    + exists d0, (q :: d1 ++ c :: rest). split; [rewrite Hs, Hd, <- app_assoc; reflexivity|].
      split; [simpl; congruence|]. unfold token_src; simpl. eauto.
    + unfold shape; simpl; discriminate.
  - reflexivity.
Qed.

Lemma parse_string_ok : forall p0 s done c rest st,
  TokInv p0 s done st -> s = done ++ c :: rest -> s_state st = Some STRING -> Cur p0 done st ->
  res_ok (fun st' => TokInv p0 s (done ++ [c]) st' /\ keeps_pos st st')
         (cites p0 done) (parse_string uni true c st).
Proof.
  intros p0 s done c rest st HI Hs Hst Hcur.
  assert (Hext : forall st', s_keywords st' = s_keywords st -> s_lok st' = s_lok st ->
                  s_state st' = Some STRING -> s_tokpos st' = s_tokpos st -> TokInv p0 s (done ++ [c]) st').
  { intros st' E1 E2 E3 E4. destruct HI as [Hsplit Hkw Hlok Hp].
    constructor; [eapply split_snoc; eauto|rewrite E1; auto|rewrite E2; auto|].
    unfold pending in *. rewrite E3. rewrite Hst in Hp. destruct Hp as [d0 [q [d1 [Hd [Hq Htp]]]]].
    exists d0, q, (d1 ++ [c]). rewrite E4. split; [rewrite Hd, <- app_assoc; reflexivity|auto]. }
  unfold parse_string.
  destruct (ceqb c c_bslash && negb (s_escaped (push st c))) eqn:E1.
  { simpl. split; [apply Hext; auto|split; reflexivity]. }
  destruct (opt_is (s_quote (push st c)) c && negb (s_escaped (push st c))) eqn:E2.
  - destruct (quote_is (push st c) c_btick) eqn:Ebt.
    + destruct (py_backtick uni (removelast (tl (s_tokstr (push st c))))) as [v| |] eqn:Epy.
      * eapply res_ok_bind.
        { apply parse_multiline_string_ok with
            (P := fun x => exists v', x = set_tokstr (push st c) v') (Q := cites p0 done).
          - intros v'. exists v'. reflexivity.
          - intros d. unfold cites. simpl. exact Hcur. }
        intros a [v' ->].
        destruct (close_string p0 s done c rest st v' HI Hs Hst) as [st' [Hap [HI' Hk]]].
        replace (set_tokstr (set_tokstr (push st c) v) v') with (set_tokstr (push st c) v') by reflexivity.
        rewrite Hap. simpl. auto.
      * unfold bad_literal, cites. simpl. exact Hcur.
      * unfold bad_literal, cites. simpl. exact Hcur.
    + destruct (py_str_literal uni (s_tokstr (push st c))) as [v|] eqn:Epy.
      * destruct (close_string p0 s done c rest st v HI Hs Hst) as [st' [Hap [HI' Hk]]].
        rewrite Hap. simpl. auto.
      * unfold bad_literal, cites. simpl. exact Hcur.
  - destruct (s_escaped (push st c)) eqn:E3; simpl; (split; [apply Hext; auto|split; reflexivity]).
Qed.

(* ---- indexing into self.keywords *)
Lemma nth_tok_ok : forall l i, (i < List.length l)%nat -> exists t, nth_tok l i = Ok t /\ nth_error l i = Some t.
Proof.
  intros l i H. unfold nth_tok. destruct (nth_error l i) eqn:E; eauto.
  apply nth_error_None in E. lia.
Qed.
Lemma nth_back_ok : forall l k, (1 <= k)%nat -> (k <= List.length l)%nat -> exists t, nth_back l k = Ok t.
Proof.
  intros l k H1 H2. unfold nth_back.
  destruct (Nat.ltb (List.length l) k) eqn:E; [apply Nat.ltb_lt in E; lia|].
  destruct (nth_tok_ok l (List.length l - k)) as [t [Ht _]]; [lia|eauto].
Qed.

(* ---- __case_label_length *)
Lemma find_colon_spec : forall l i,
  find_colon l i = O \/
  exists j t, find_colon l i = S (i + j) /\ nth_error l j = Some t /\ t_type t = OPERATOR.
Proof.
  induction l as [|t r IH]; intros i; [left; reflexivity|]. cbn [find_colon].
  destruct (ttype_eqb (t_type t) OPERATOR && seqb (t_str t) (of_string ":"%string)) eqn:E.
  - right. exists O, t. split; [f_equal; lia|split; [reflexivity|]].
    apply andb_true_iff in E as [E _]. destruct (t_type t); simpl in E; congruence.
  - destruct (IH (S i)) as [H|[j [t' [H1 [H2 H3]]]]]; auto.
    right. exists (S j), t'. split; [rewrite H1; f_equal; lia|auto].
Qed.

Lemma nth_error_firstn_some : forall {A} n (l : list A) j x, nth_error (firstn n l) j = Some x -> nth_error l j = Some x.
Proof.
  induction n as [|n IH]; intros l j x H; [destruct j; discriminate|].
  destruct l as [|a l]; [destruct j; discriminate|].
  destruct j; simpl in *; auto.
Qed.

(* the label never reaches past a token that is not a `:` operator; here: the bracket token just appended *)
Lemma case_label_ok : forall st last front,
  s_keywords st = front ++ [last] -> t_type last <> OPERATOR ->
  exists lbl, case_label_length st = Ok lbl /\ (lbl < List.length (s_keywords st))%nat.
Proof.
  intros st last front Hk Hty. unfold case_label_length.
  destruct (nth_tok_ok (s_keywords st) 0) as [t0 [Ht0 _]].
  { rewrite Hk, app_length. simpl. lia. }
  rewrite Ht0. cbn [bind].
  destruct (mem_str (t_str t0) [of_string "case"%string; of_string "default"%string]).
  2:{ exists O. split; auto. rewrite Hk, app_length. simpl. lia. }
  eexists. split; [reflexivity|].
  destruct (find_colon_spec (firstn 4 (s_keywords st)) 0) as [H|[j [t [H1 [H2 H3]]]]].
  - rewrite H. rewrite Hk, app_length. simpl. lia.
  - rewrite H1. simpl. apply nth_error_firstn_some in H2.
    assert (Hj : (j < List.length (s_keywords st))%nat) by (apply nth_error_Some; congruence).
    (* j is not the last index: the last token is not an operator *)
    destruct (Nat.eq_dec j (List.length front)) as [E|E].
    + subst j. rewrite Hk, nth_error_app2, Nat.sub_diag in H2 by lia. simpl in H2. inversion H2; subst. congruence.
    + rewrite Hk, app_length in *. simpl in *. lia.
Qed.

Local Opaque mem_str terminate_line of_string.
Lemma stl_ok : forall st start lbl,
  case_label_length st = Ok lbl ->
  (start + lbl < List.length (s_keywords st))%nat ->
  (forall t0, nth_error (s_keywords st) (start + lbl) = Some t0 ->
              seqb (strip_dollar (t_str t0)) (of_string "execute"%string) = true ->
              (2 <= List.length (s_keywords st))%nat) ->
  exists b, should_terminate_line st start = Ok b.
Proof.
  intros st start lbl Hlbl Hlen Hex. unfold should_terminate_line. rewrite Hlbl. cbn [bind].
  destruct (nth_tok_ok _ _ Hlen) as [t0 [Ht0 Hn0]]. rewrite Ht0. cbn [bind].
  destruct (mem_str (strip_dollar (t_str t0)) terminate_line); [eauto|].
  assert (Htail : exists b,
    (if Nat.leb 3 (List.length (s_keywords st))
     then do t2 <- nth_back (s_keywords st) 2;
          if seqb (t_str t2) (of_string "run"%string)
          then do t3 <- nth_back (s_keywords st) 3; Ok (seqb (t_str t3) (of_string "return"%string))
          else Ok false
     else Ok false) = Ok b).
  { destruct (Nat.leb 3 (List.length (s_keywords st))) eqn:E3; [|eauto].
    apply Nat.leb_le in E3.
    destruct (nth_back_ok (s_keywords st) 2) as [t2 Ht2]; [lia|lia|]. rewrite Ht2. cbn [bind].
    destruct (seqb (t_str t2) (of_string "run"%string)); [|eauto].
    destruct (nth_back_ok (s_keywords st) 3) as [t3 Ht3]; [lia|lia|]. rewrite Ht3. cbn [bind]. eauto. }
  destruct Htail as [bt Hbt]. rewrite Hbt.
  destruct (seqb (strip_dollar (t_str t0)) (of_string "execute"%string)) eqn:Eex.
  - destruct (nth_back_ok (s_keywords st) 2) as [t2 Ht2]; [lia|eauto|].
    rewrite Ht2. cbn [bind].
    destruct (mem_str (t_str t2) [of_string "run"%string; of_string "expand"%string]); [eauto|].
    destruct (is_decorator (strip_dollar (t_str t0))); eauto.
  - cbn [bind].
    destruct (is_decorator (strip_dollar (t_str t0))); eauto.
Qed.

Lemma is_shorten_if_ok : forall st lbl,
  case_label_length st = Ok lbl -> (lbl < List.length (s_keywords st))%nat ->
  exists b, is_shorten_if st = Ok b /\ (b = true -> (lbl + 3 <= List.length (s_keywords st))%nat).
Proof.
  intros st lbl Hlbl Hlen. unfold is_shorten_if. rewrite Hlbl. cbn [bind].
  destruct (nth_tok_ok (s_keywords st) lbl Hlen) as [t0 [Ht0 _]].
  rewrite Ht0. cbn [bind].
  destruct (seqb (t_str t0) (of_string "if"%string)); [|exists false; split; [auto|discriminate]].
  destruct (Nat.leb (lbl + 3) (List.length (s_keywords st))) eqn:E3; [|exists false; split; [auto|discriminate]].
  apply Nat.leb_le in E3.
  destruct (nth_tok_ok (s_keywords st) (lbl + 2)) as [t2 [Ht2 _]]; [lia|]. rewrite Ht2. cbn [bind].
  eexists; split; [reflexivity|auto].
Qed.
Local Transparent mem_str terminate_line of_string.

Lemma paren_pair_curly : forall p, is_lparen p = true -> ceqb p c_lcurly = true -> paren_pair p = c_rcurly.
Proof. intros p _ H. unfold paren_pair. rewrite H. reflexivity. Qed.

Lemma opt_is_true : forall o c, opt_is o c = true -> o = Some c.
Proof. intros [q|] c H; simpl in H; [apply ceqb_eq in H; subst; auto|discriminate]. Qed.

Lemma rev_snoc_head : forall (l : str) c, rev (l ++ [c]) = c :: rev l.
Proof. intros; rewrite rev_app_distr; reflexivity. Qed.

Lemma parse_paren_ok : forall p0 s done c rest es st,
  TokInv p0 s done st -> s = done ++ c :: rest -> s_state st = Some PAREN -> Cur p0 done st ->
  res_ok (fun r : tk * bool => TokInv p0 s (done ++ [c]) (fst r) /\ keeps_pos st (fst r))
         (cites p0 done) (parse_paren c es st).
Proof.
  intros p0 s done c rest es st HI Hs Hst Hcur.
  destruct HI as [Hsplit Hkw Hlok Hp].
  assert (Hp' := Hp). unfold pending in Hp'. rewrite Hst in Hp'.
  destruct Hp' as [d0 [p [r [Hd [Hts [Hlp [Hpa [Hrp Htp]]]]]]]].
  (* any state that only differs from (push st c) in the string/comment/slash/count flags *)
  assert (Hext : forall st', s_keywords st' = s_keywords st -> s_lok st' = s_lok st ->
                  s_state st' = Some PAREN -> s_tokpos st' = s_tokpos st ->
                  s_tokstr st' = s_tokstr st ++ [c] -> s_paren st' = s_paren st -> s_rparen st' = s_rparen st ->
                  TokInv p0 s (done ++ [c]) st').
  { intros st' E1 E2 E3 E4 E5 E6 E7.
    constructor; [eapply split_snoc; eauto|rewrite E1; auto|rewrite E2; auto|].
    unfold pending. rewrite E3. exists d0, p, (r ++ [c]).
    rewrite E5, E4, E6, E7, Hts. simpl. repeat split; auto.
    rewrite Hd, Hts, <- app_assoc. reflexivity. }
  unfold parse_paren.
  set (st1 := push st c).
  destruct (s_is_string st1) eqn:Eis.
  { repeat match goal with |- context [if ?b then _ else _] => destruct b end; simpl;
      (split; [apply Hext; auto|split; reflexivity]). }
  destruct (s_is_comment st1) eqn:Eic.
  { simpl. split; [apply Hext; auto|split; reflexivity]. }
  set (st2 := if negb (ceqb c c_slash) && s_is_slash st1 then set_is_slash st1 false else st1).
  assert (Hst2 : s_keywords st2 = s_keywords st /\ s_lok st2 = s_lok st /\ s_state st2 = Some PAREN /\
                 s_tokpos st2 = s_tokpos st /\ s_tokstr st2 = s_tokstr st ++ [c] /\ s_paren st2 = s_paren st /\
                 s_rparen st2 = s_rparen st /\ s_line st2 = s_line st /\ s_col st2 = s_col st /\
                 s_pcount st2 = s_pcount st).
  { unfold st2. destruct (negb (ceqb c c_slash) && s_is_slash st1); simpl; repeat split; auto. }
  clearbody st2. destruct Hst2 as [K1 [K2 [K3 [K4 [K5 [K6 [K7 [K8 [K9 K10]]]]]]]]].
  destruct (opt_is (s_rparen st2) c && Z.eqb (s_pcount st2) 0) eqn:Eclose.
  2:{ repeat match goal with |- context [if ?b then _ else _] => destruct b end; simpl;
        (split; [apply Hext; auto|split; simpl; auto]). }
  (* the closing bracket *)
  apply andb_true_iff in Eclose as [Erp _].
  rewrite K7, Hrp in Erp. simpl in Erp. apply ceqb_eq in Erp.
  set (st3 := if opt_is (s_paren st2) c_lcurly then set_state st2 (Some PAREN_CURLY)
              else if opt_is (s_paren st2) c_lround then set_state st2 (Some PAREN_ROUND)
              else if opt_is (s_paren st2) c_lsquare then set_state st2 (Some PAREN_SQUARE) else st2).
  assert (Hty : exists ty, s_state st3 = Some ty /\
                  (ty = PAREN_CURLY -> opt_is (s_paren st2) c_lcurly = true) /\
                  (ty = PAREN_CURLY \/ ty = PAREN_ROUND \/ ty = PAREN_SQUARE \/ ty = PAREN) /\
                  s_keywords st3 = s_keywords st /\ s_lok st3 = s_lok st /\ s_tokpos st3 = s_tokpos st /\
                  s_tokstr st3 = s_tokstr st ++ [c] /\ s_line st3 = s_line st /\ s_col st3 = s_col st).
  { unfold st3. destruct (opt_is (s_paren st2) c_lcurly) eqn:Q1.
    { exists PAREN_CURLY. simpl. repeat split; auto. }
    destruct (opt_is (s_paren st2) c_lround) eqn:Q2.
    { exists PAREN_ROUND. simpl. repeat split; auto; discriminate. }
    destruct (opt_is (s_paren st2) c_lsquare) eqn:Q3.
    { exists PAREN_SQUARE. simpl. repeat split; auto; discriminate. }
    exists PAREN. rewrite K3. repeat split; auto; discriminate. }
  clearbody st3. destruct Hty as [ty [T1 [T2 [T3 [T4 [T5 [T6 [T7 [T8 T9]]]]]]]]].
  destruct (pos_after p0 d0) as [l k] eqn:Epos.
  assert (Hap : append_token st3 =
    Ok (set_state (set_tokpos (set_tokstr (set_keywords st3
          (s_keywords st3 ++ [mkTok ty l k (s_tokstr st3) (quote_is st3 c_btick)])) []) None) None)).
  { eapply append_token_ok; eauto; [rewrite T6; auto|].
    intros ->. specialize (T2 eq_refl). rewrite K6, Hpa in T2. simpl in T2.
    rewrite T7, Hts. unfold curly_shape_ok. simpl. rewrite T2. simpl.
    rewrite rev_snoc_head. simpl. rewrite <- Erp.
    rewrite (paren_pair_curly p Hlp T2). reflexivity. }
  rewrite Hap. simpl.
  set (t := mkTok ty l k (s_tokstr st3) (quote_is st3 c_btick)).
  set (st4 := set_state (set_tokpos (set_tokstr (set_keywords st3 (s_keywords st3 ++ [t])) []) None) None).
  assert (HI4 : TokInv p0 s (done ++ [c]) st4).
  { constructor; simpl; [eapply split_snoc; eauto| |rewrite T5; auto|reflexivity].
    rewrite T4. apply Forall_snoc; auto. split.
    - exists d0, ((s_tokstr st ++ [c]) ++ rest). split.
      + rewrite Hs, Hd. repeat rewrite <- app_assoc. reflexivity.
      + split; [simpl; congruence|]. unfold token_src. simpl. rewrite T7.
        destruct T3 as [ -> | [ -> | [ -> | -> ] ] ]; (split; [destruct (s_tokstr st); discriminate|eexists; reflexivity]).
    - unfold shape. simpl. intros _. rewrite T7, Hts. exists p, r, c. auto. }
  assert (Hk4 : keeps_pos st st4) by (split; simpl; auto).
  assert (Hne4 : s_keywords st4 <> []) by (simpl; destruct (s_keywords st3); discriminate).
  destruct (opt_is (s_paren st2) c_lcurly && es) eqn:Ecur; [|simpl; auto].
  apply andb_true_iff in Ecur as [Ecur _].
  (* __case_label_length / __should_terminate_line(): no index error *)
  assert (Hkk4 : s_keywords st4 = s_keywords st3 ++ [t]) by reflexivity.
  assert (Htt : t_type t <> OPERATOR).
  { simpl. destruct T3 as [ -> | [ -> | [ -> | -> ] ] ]; discriminate. }
  destruct (case_label_ok st4 t (s_keywords st3) Hkk4 Htt) as [lbl [Hlbl Hlt]].
  destruct (stl_ok st4 0 lbl Hlbl) as [b0 Hb0].
  { simpl. exact Hlt. }
  { intros t0 Hn Hex. rewrite Hkk4 in *. rewrite app_length in *. simpl in Hlt |- *.
    destruct (s_keywords st3) as [|a kw]; [|simpl; lia].
    simpl in Hlt. assert (lbl = O) by lia. subst lbl.
    simpl in Hn. inversion Hn; subst t0. simpl in Hex. exfalso.
    rewrite T7, Hts in Hex. simpl in Hex.
    rewrite K6, Hpa in Ecur. simpl in Ecur. apply ceqb_eq in Ecur. subst p.
    simpl in Hex. discriminate. }
  fold t. fold st4. rewrite Hb0. simpl.
  destruct b0; [|simpl; auto].
  destruct (is_shorten_if_ok st4 lbl Hlbl Hlt) as [b1 [Hb1 Hlen]]. rewrite Hb1. simpl.
  destruct b1.
  - destruct (stl_ok st4 2 lbl Hlbl) as [b2 Hb2]; [specialize (Hlen eq_refl); lia| intros; specialize (Hlen eq_refl); lia|].
    rewrite Hb2. simpl. destruct b2; simpl; auto.
    destruct (append_keywords_ok _ _ _ _ HI4 Hne4) as [st5 [H5 [HI5 E5]]]. rewrite H5. simpl.
    split; auto. subst st5. split; simpl; auto.
  - simpl. destruct (append_keywords_ok _ _ _ _ HI4 Hne4) as [st5 [H5 [HI5 E5]]]. rewrite H5. simpl.
    split; auto. subst st5. split; simpl; auto.
Qed.

(* ------------------------------------------------------------------ one character *)
Definition Inv (p0 : pos) (s done : str) (st : tk) : Prop :=
  TokInv p0 s done st /\ (s_line st, s_col st + 1) = pos_after p0 done.

Lemma ti_set_is_slash : forall p0 s done st v, TokInv p0 s done st -> TokInv p0 s done (set_is_slash st v).
Proof. intros p0 s done st v [H1 H2 H3 H4]. constructor; simpl; auto. Qed.

Lemma inv_set_is_slash : forall p0 s done st v, Inv p0 s done st -> Inv p0 s done (set_is_slash st v).
Proof. intros p0 s done st v [H1 H2]. split; [apply ti_set_is_slash; auto|exact H2]. Qed.

Lemma removelast_snoc : forall (l : str) x, removelast (l ++ [x]) = l.
Proof. intros. apply removelast_last. Qed.

Lemma nonnil_snoc : forall (l : str), l <> [] -> exists t x, l = t ++ [x].
Proof. intros l H. destruct (exists_last H) as [t [x E]]. eauto. Qed.

Lemma adv_not_nl : forall p c, ceqb c c_nl = false -> adv p c = (fst p, snd p + 1).
Proof. intros p c H. unfold adv. rewrite H. reflexivity. Qed.

Lemma step_ok : forall p0 s done c rest es st,
  Inv p0 s done st -> s = done ++ c :: rest ->
  res_ok (Inv p0 s (done ++ [c])) (cites p0 done) (step uni true es c st).
Proof.
  intros p0 s done c rest es st [HI Hpos] Hs.
  unfold step.
  set (st1 := set_pos st (s_line st) (s_col st + 1)).
  assert (HI1 : TokInv p0 s done st1) by (apply ti_set_pos; auto).
  assert (Hcur : Cur p0 done st1) by (unfold Cur; simpl; auto).
  assert (Hl1 : s_line st1 = s_line st /\ s_col st1 = s_col st + 1) by (split; reflexivity).
  clearbody st1. destruct Hl1 as [Hl1 Hc1].
  (* how the position advances over a character that is not a newline *)
  assert (Hadv : ceqb c c_nl = false -> forall st', keeps_pos st1 st' ->
                 (s_line st', s_col st' + 1) = pos_after p0 (done ++ [c])).
  { intros Hnl st' [K1 K2]. rewrite pos_after_snoc, adv_not_nl; auto.
    unfold Cur in Hcur. rewrite <- Hcur. simpl. rewrite K1, K2. reflexivity. }
  destruct (ceqb c c_semi && state_none st1 && negb es) eqn:E0.
  { simpl. unfold cites. exact Hcur. }
  destruct (ceqb c c_nl) eqn:Enl.
  { apply ceqb_eq in Enl. subst c.
    eapply res_ok_bind; [eapply parse_newline_ok; eauto|].
    intros st' [HI' [Hl' Hc']]. simpl. split; [apply ti_set_is_slash; auto|]. simpl.
    rewrite pos_after_snoc. unfold adv. rewrite ceqb_refl.
    unfold Cur in Hcur. rewrite <- Hcur. simpl. rewrite Hl', Hc'. reflexivity. }
  specialize (Hadv eq_refl).
  destruct (ceqb c c_slash && s_is_slash st1 && negb (state_is st1 PAREN) && negb (state_is st1 STRING)) eqn:Esl.
  { (* second slash of a // comment *)
    apply andb_true_iff in Esl as [Esl Ens]. apply andb_true_iff in Esl as [_ Enp].
    apply negb_true_iff in Ens. apply negb_true_iff in Enp.
    destruct HI1 as [Hsplit Hkw Hlok Hp].
    assert (Hidle : forall st', s_keywords st' = s_keywords st1 -> s_lok st' = s_lok st1 ->
                      s_line st' = s_line st1 -> s_col st' = s_col st1 ->
                      Inv p0 s (done ++ [c]) (set_state (set_tokstr st' []) (Some COMMENT))).
    { intros st' E1 E2 E3 E4. split; [|apply Hadv; split; simpl; auto].
      constructor; simpl; [eapply split_snoc; eauto|rewrite E1; auto|rewrite E2; auto|reflexivity]. }
    unfold pending in Hp.
    destruct (s_state st1) as [ty|] eqn:Est.
    2:{ rewrite Hp. simpl. specialize (Hidle st1 eq_refl eq_refl eq_refl eq_refl).
        rewrite <- Hp. replace (set_tokstr st1 (s_tokstr st1)) with st1 by (destruct st1; reflexivity).
        rewrite <- Hp in Hidle.
        replace (set_tokstr st1 (s_tokstr st1)) with st1 in Hidle by (destruct st1; reflexivity).
        destruct st1; simpl in *. subst. apply inv_set_is_slash. exact Hidle. }
    destruct ty; try contradiction;
      try (unfold state_is in Ens, Enp; rewrite Est in Ens, Enp; simpl in Ens, Enp; discriminate).
    - (* KEYWORD *)
      destruct Hp as [Hne [d0 [Hd Htp]]].
      destruct (nonnil_snoc _ Hne) as [t [x Et]].
      rewrite Et, removelast_snoc.
      destruct t as [|t1 t'] eqn:Ett.
      + simpl. apply inv_set_is_slash. apply (Hidle st1); auto.
      + simpl.
        set (st2 := set_tokstr st1 (t1 :: t')).
        assert (HI2 : TokInv p0 s (d0 ++ t1 :: t') st2).
        { constructor; simpl; auto.
          - exists (x :: c :: rest). rewrite Hs, Hd, Et. repeat rewrite <- app_assoc. reflexivity.
          - unfold pending; simpl. rewrite Est. split; [discriminate|]. exists d0. auto. }
        destruct (emit_kwop _ _ _ _ HI2) as [st' [Hap [HI' [Hn' [Hl' [Hc' [_ [Hlok' _]]]]]]]].
        { unfold state_is; simpl. rewrite Est. reflexivity. }
        fold st2. rewrite Hap. simpl. apply inv_set_is_slash. split; [|apply Hadv; split; simpl; auto].
        destruct HI' as [G1 G2 G3 G4]. constructor; simpl; auto.
        * eapply split_snoc; eauto.
        * unfold pending in G4. rewrite Hn' in G4. unfold pending; simpl. exact G4.
    - (* OPERATOR *)
      destruct Hp as [Hne [d0 [Hd Htp]]].
      destruct (nonnil_snoc _ Hne) as [t [x Et]].
      rewrite Et, removelast_snoc.
      destruct t as [|t1 t'] eqn:Ett.
      + simpl. apply inv_set_is_slash. apply (Hidle st1); auto.
      + simpl.
        set (st2 := set_tokstr st1 (t1 :: t')).
        assert (HI2 : TokInv p0 s (d0 ++ t1 :: t') st2).
        { constructor; simpl; auto.
          - exists (x :: c :: rest). rewrite Hs, Hd, Et. repeat rewrite <- app_assoc. reflexivity.
          - unfold pending; simpl. rewrite Est. split; [discriminate|]. exists d0. auto. }
        destruct (emit_kwop _ _ _ _ HI2) as [st' [Hap [HI' [Hn' [Hl' [Hc' [_ [Hlok' _]]]]]]]].
        { unfold state_is; simpl. rewrite Est. apply orb_true_r. }
        fold st2. rewrite Hap. simpl. apply inv_set_is_slash. split; [|apply Hadv; split; simpl; auto].
        destruct HI' as [G1 G2 G3 G4]. constructor; simpl; auto.
        * eapply split_snoc; eauto.
        * unfold pending in G4. rewrite Hn' in G4. unfold pending; simpl. exact G4.
    - (* COMMENT *)
      rewrite Hp. simpl. apply inv_set_is_slash. apply (Hidle st1); auto. }
  (* the general case *)
  clear Esl.
  eapply res_ok_bind with
    (P1 := fun r : tk * bool => keeps_pos st1 (fst r) /\
             if snd r then TokInv p0 s (done ++ [c]) (fst r)
             else TokInv p0 s done (fst r) /\ (state_is (fst r) KEYWORD || state_is (fst r) OPERATOR = false)).
  { destruct (state_is st1 KEYWORD || state_is st1 OPERATOR) eqn:Ekw.
    - eapply res_ok_weaken; [eapply parse_kw_ok; eauto|].
      intros [st' b] [Hk Hb]. simpl in *. split; auto. destruct b; auto.
      destruct Hb as [Hb1 Hb2]. split; auto. unfold state_is. rewrite Hb2. reflexivity.
    - simpl. split; [split; reflexivity|auto]. }
  intros [st2 cont1] [Hk2 Hb]. simpl in Hk2, Hb.
  destruct cont1.
  { simpl. split; [apply ti_set_is_slash; auto|]. apply (Hadv (set_is_slash st2 (ceqb c c_slash))).
    destruct Hk2; split; simpl; auto. }
  destruct Hb as [HI2 Hnkw].
  assert (Hcur2 : Cur p0 done st2) by (destruct Hk2 as [K1 K2]; unfold Cur in *; rewrite K1, K2; auto).
  eapply res_ok_bind with
    (P1 := fun r : tk * bool => keeps_pos st1 (fst r) /\ TokInv p0 s (done ++ [c]) (fst r)).
  { destruct (state_none st2) eqn:En.
    { assert (s_state st2 = None) by (unfold state_none in En; destruct (s_state st2); [discriminate|auto]).
      eapply res_ok_weaken; [eapply parse_none_ok; eauto|].
      intros [st' b] [G1 [G2 G3]]. simpl in *. destruct Hk2. split; [split; congruence|auto]. }
    destruct (state_is st2 STRING) eqn:Es.
    { apply state_is_true in Es.
      eapply res_ok_bind; [eapply parse_string_ok; eauto|].
      intros st' [G1 [G2 G3]]. simpl. destruct Hk2. split; [split; congruence|auto]. }
    destruct (state_is st2 PAREN) eqn:Ep.
    { apply state_is_true in Ep.
      eapply res_ok_weaken; [eapply parse_paren_ok; eauto|].
      intros [st' b] [G1 [G2 G3]]. simpl in *. destruct Hk2. split; [split; congruence|auto]. }
    (* COMMENT: nothing happens *)
    simpl. split; auto.
    destruct HI2 as [Hsplit Hkw Hlok Hp]. ti_intro.
    unfold pending in Hp. unfold state_none, state_is in *.
    destruct (s_state st2) as [ty|]; [|discriminate].
    destruct ty; simpl in *; try discriminate; auto. }
  intros [st3 cont2] [Hk3 HI3]. simpl in Hk3, HI3.
  destruct cont2; simpl.
  - destruct (state_none st2).
    + split; [apply ti_set_is_slash; auto|]. apply (Hadv (set_is_slash st3 false)).
      destruct Hk3; split; simpl; auto.
    + split; auto.
  - split; [apply ti_set_is_slash; auto|]. apply (Hadv (set_is_slash st3 (ceqb c c_slash))).
    destruct Hk3; split; simpl; auto.
Qed.

(* a diagnostic raised inside the character loop cites a character of the text *)
Definition cites_char (p0 : pos) (s : str) (l c : Z) : Prop :=
  exists d1 c1 r1, s = d1 ++ c1 :: r1 /\ (l, c) = pos_after p0 d1.

Lemma parse_chars_ok : forall rest p0 s done es st,
  Inv p0 s done st -> s = done ++ rest ->
  res_ok (Inv p0 s s) (fun _ l c => cites_char p0 s l c) (parse_chars uni true es rest st).
Proof.
  induction rest as [|c rest IH]; intros p0 s done es st HI Hs; simpl.
  - rewrite app_nil_r in Hs. subst. exact HI.
  - eapply res_ok_bind with (P1 := Inv p0 s (done ++ [c])).
    + pose proof (step_ok p0 s done c rest es st HI Hs) as H.
      destruct (step uni true es c st); simpl in *; auto.
      unfold cites in H. exists done, c, rest. auto.
    + intros st' HI'. apply (IH p0 s (done ++ [c]) es st' HI').
      rewrite <- app_assoc. exact Hs.
Qed.

Lemma init_inv : forall s line col asemi, Inv (line, col) s [] (init line col asemi).
Proof.
  intros. split.
  - constructor; simpl; [exists s; reflexivity|constructor|constructor|reflexivity].
  - simpl. f_equal. lia.
Qed.
End WithUni.

(* ------------------------------------------------------------------ the tail of parse *)
Lemma nth_back_in : forall l k, (1 <= k)%nat -> (k <= List.length l)%nat -> exists t, nth_back l k = Ok t /\ In t l.
Proof.
  intros l k H1 H2. unfold nth_back.
  destruct (Nat.ltb (List.length l) k) eqn:E; [apply Nat.ltb_lt in E; lia|].
  destruct (nth_tok_ok l (List.length l - k)) as [t [Ht Hn]]; [lia|].
  exists t. split; auto. eapply nth_error_In; eauto.
Qed.

Definition fin_diag (printable : char -> bool) (p0 : pos) (s : str) (d : diag) (l c : Z) : Prop :=
  (d = DStringLineBreakEOF /\ (l, c + 1) = pos_after p0 s) \/
  (d = DBracketNeverClosed /\ exists d0 p r, s = d0 ++ p :: r /\ is_lparen p = true /\ (l, c) = pos_after p0 d0) \/
  (d = DExpectedSemicolon /\ exists t, tok_good p0 s t /\ (l, c) = cite_end printable t).

Lemma finish_ok : forall printable p0 s alms es st,
  Inv p0 s s st ->
  res_ok (stmts_good p0 s) (fin_diag printable p0 s) (finish printable alms es st).
Proof.
  intros printable p0 s alms es st [HI Hpos]. unfold finish.
  destruct (state_is st STRING) eqn:Es.
  { simpl. left. split; auto. }
  destruct (state_is st PAREN) eqn:Ep.
  { apply state_is_true in Ep. destruct HI as [_ _ _ Hp]. unfold pending in Hp. rewrite Ep in Hp.
    destruct Hp as [d0 [p [r [Hd [Hts [Hlp [_ [_ Htp]]]]]]]]. rewrite Htp.
    destruct (pos_after p0 d0) as [l k] eqn:E. simpl. right. left. split; auto.
    exists d0, p, r. rewrite Hd, Hts. auto. }
  (* pending text, if any, is a KEYWORD / OPERATOR *)
  assert (Hpend : s_tokstr st <> [] -> state_is st KEYWORD || state_is st OPERATOR = true).
  { intros Hne. destruct HI as [_ _ _ Hp]. unfold pending in Hp. unfold state_is in *.
    destruct (s_state st) as [ty|]; [|congruence].
    destruct ty; simpl in *; try discriminate; try contradiction; auto. }
  assert (Hflush : forall st0, TokInv p0 s s st0 -> (s_tokstr st0 <> [] -> state_is st0 KEYWORD || state_is st0 OPERATOR = true) ->
            exists st', (match s_tokstr st0 with [] => Ok st0 | _ => append_token st0 end) = Ok st' /\
                        TokInv p0 s s st' /\ s_tokstr st' = [] /\ s_lok st' = s_lok st0 /\
                        (s_keywords st0 <> [] \/ s_tokstr st0 <> [] -> s_keywords st' <> [])).
  { intros st0 HI0 Hp0. destruct (s_tokstr st0) as [|a b] eqn:Ets.
    - exists st0. split; [reflexivity|]. split; [exact HI0|]. split; [exact Ets|]. split; [reflexivity|].
      intros [H|H]; [exact H|congruence].
    - destruct (emit_kwop _ _ _ _ HI0) as [st' [Hap [HI' [Hn' [_ [_ [Hk' [Hlok' _]]]]]]]].
      { apply Hp0. discriminate. }
      exists st'. split; [exact Hap|]. split; [exact HI'|]. split; [|split; [exact Hlok'|intros _; exact Hk']].
      destruct HI' as [_ _ _ Hp']. unfold pending in Hp'. rewrite Hn' in Hp'. exact Hp'. }
  destruct (Hflush st HI Hpend) as [st' [Hfl [HI' [Hts' [Hlok' Hk']]]]].
  destruct es; cbn [andb negb].
  - (* expect_semicolon *)
    destruct ((match s_keywords st with [] => false | _ => true end) || (match s_tokstr st with [] => false | _ => true end)) eqn:Ene.
    2:{ cbn [bind]. destruct HI; auto. }
    rewrite Hfl. cbn [bind].
    assert (Hne' : s_keywords st' <> []).
    { apply Hk'. apply orb_true_iff in Ene as [E|E]; [left|right]; intro X; rewrite X in E; discriminate. }
    destruct alms.
    + destruct (append_keywords_ok _ _ _ _ HI' Hne') as [st5 [H5 [HI5 _]]]. rewrite H5. cbn [bind].
      destruct HI5; auto.
    + destruct (nth_back_in (s_keywords st') 1) as [t [Ht Hin]]; [lia|destruct (s_keywords st'); [congruence|simpl; lia]|].
      rewrite Ht. cbn [bind]. destruct (cite_end printable t) as [l k] eqn:Ece. simpl.
      right. right. split; auto. exists t. split; auto.
      destruct HI' as [_ Hkw _ _]. rewrite Forall_forall in Hkw. auto.
  - cbn [bind]. rewrite Hfl. cbn [bind].
    destruct (s_keywords st') as [|a b] eqn:Ek.
    + cbn [bind]. destruct HI'; auto.
    + destruct (append_keywords_ok _ _ _ _ HI') as [st5 [H5 [HI5 _]]]; [rewrite Ek; discriminate|].
      rewrite H5. cbn [bind]. destruct HI5; auto.
Qed.

(* ------------------------------------------------------------------ the whole of Tokenizer.parse *)
Definition diag_ok (printable : char -> bool) (p0 : pos) (s : str) (d : diag) (l c : Z) : Prop :=
  cites_char p0 s l c \/ fin_diag printable p0 s d l c.

Theorem parse_ok : forall uni printable alms es asemi s line col,
  res_ok (stmts_good (line, col) s) (diag_ok printable (line, col) s)
         (parse uni printable alms es asemi s line col).
Proof.
  intros. unfold parse, parse_gen.
  eapply res_ok_bind with (P1 := Inv (line, col) s s).
  - pose proof (parse_chars_ok uni s (line, col) s [] es (init line col asemi) (init_inv s line col asemi) eq_refl) as H.
    destruct (parse_chars uni true es s (init line col asemi)); simpl in *; auto.
    left. exact H.
  - intros st HI. pose proof (finish_ok printable (line, col) s alms es st HI) as H.
    destruct (finish printable alms es st); simpl in *; auto. right. exact H.
Qed.

Corollary parse_never_crashes : forall uni printable alms es asemi s line col e,
  parse uni printable alms es asemi s line col <> Crash e.
Proof.
  intros. pose proof (parse_ok uni printable alms es asemi s line col) as H.
  intros E. rewrite E in H. exact H.
Qed.

Corollary parse_statements_nonempty : forall uni printable alms es asemi s line col progs,
  parse uni printable alms es asemi s line col = Ok progs -> Forall (fun st => (1 <= List.length st)%nat) progs.
Proof.
  intros. pose proof (parse_ok uni printable alms es asemi s line col) as G. rewrite H in G. simpl in G.
  unfold stmts_good in G. rewrite Forall_forall in *. intros st Hin. destruct (G st Hin) as [Hne _].
  destruct st; [congruence|simpl; lia].
Qed.

Corollary parse_tokens_faithful : forall uni printable alms es asemi s line col progs stmt t,
  parse uni printable alms es asemi s line col = Ok progs -> In stmt progs -> In t stmt ->
  faithful_from (line, col) s t /\ shape t.
Proof.
  intros. pose proof (parse_ok uni printable alms es asemi s line col) as G. rewrite H in G. simpl in G.
  unfold stmts_good in G. rewrite Forall_forall in G. destruct (G stmt H0) as [_ Hall].
  rewrite Forall_forall in Hall. apply Hall. auto.
Qed.

Corollary parse_diag_pos : forall uni printable alms es asemi s line col d l c,
  parse uni printable alms es asemi s line col = Diag d l c -> diag_ok printable (line, col) s d l c.
Proof.
  intros. pose proof (parse_ok uni printable alms es asemi s line col) as G. rewrite H in G. exact G.
Qed.

(* the characters are consumed one by one, left to right, each exactly once *)
Lemma parse_chars_app : forall uni fixed es a b st,
  parse_chars uni fixed es (a ++ b) st = bind (parse_chars uni fixed es a st) (parse_chars uni fixed es b).
Proof.
  induction a as [|c a IH]; intros b st; simpl; auto.
  destruct (step uni fixed es c st); simpl; auto.
Qed.
