(* Proofs.IfElseBase — fuel-free view of MC.Sem used by the control-flow proofs (C04, C05):
   `steps c st st'` / `runs l st st'` = "with enough fuel, c / the lines l take st to st'",
   with the equations the lowering proofs need (sequencing, function call, guards, merge). *)
From Coq Require Import ZArith String List Bool Lia.
From JMCV Require Import Base.Int32 Base.Dec MC.Syntax MC.Sem MC.Facts Model.Names Model.PrivAlloc Model.IfElse.
Import ListNotations.

(* all guards of an `execute` hold in st (a test on an unset score is false) *)
Definition tests_hold (st : state) (ts : list (bool * test)) : bool :=
  forallb (fun pt => Bool.eqb (fst pt) (test_true st (snd pt))) ts.

Lemma run_mods_tests ts ms stores st k :
  run_mods (mods_of ts ++ ms) stores st k =
  if tests_hold st ts then run_mods ms stores st k
  else Some (apply_stores stores r_fail st, r_fail).
Proof.
  induction ts as [|[pos t] ts IH]; cbn [mods_of map app run_mods tests_hold forallb fst snd]; [reflexivity|].
  destruct (Bool.eqb pos (test_true st t)); cbn [andb]; [exact IH|reflexivity].
Qed.

Lemma run_mods_nil st k :
  run_mods [] [] st k = match k st with Some (st', r) => Some (st', r) | None => None end.
Proof. cbn. destruct (k st) as [[st' r]|]; reflexivity. Qed.

Section Runs.
  Variable ft : string -> option (list cmd).
  Variable env : nat -> state -> state.

  Definition steps (c : cmd) (st st' : state) : Prop :=
    exists fuel r, exec ft env fuel no_menv c st = Some (st', r).
  Definition runs (l : list cmd) (st st' : state) : Prop :=
    exists fuel, exec_list ft env fuel l st = Some st'.

  Lemma runs_nil st st' : runs [] st st' <-> st' = st.
  Proof.
    split.
    - intros [fuel H]. cbn in H. congruence.
    - intros ->. exists O. reflexivity.
  Qed.

  Lemma runs_cons c l st st' :
    runs (c :: l) st st' <-> exists st1, steps c st st1 /\ runs l st1 st'.
  Proof.
    split.
    - intros [fuel H]. unfold exec_list in H. cbn [seq_run] in H.
      destruct (exec ft env fuel no_menv c st) as [[st1 r]|] eqn:E; [|discriminate].
      exists st1. split; [exists fuel, r; exact E|exists fuel; exact H].
    - intros (st1 & (f1 & r & H1) & (f2 & H2)). exists (Nat.max f1 f2).
      unfold exec_list. cbn [seq_run].
      rewrite (exec_mono ft env _ _ _ _ _ H1 (Nat.max f1 f2)) by lia.
      apply (exec_list_mono ft env _ _ _ _ H2). lia.
  Qed.

  Lemma runs_app l1 l2 st st' :
    runs (l1 ++ l2) st st' <-> exists st1, runs l1 st st1 /\ runs l2 st1 st'.
  Proof.
    revert st. induction l1 as [|c l1 IH]; intros st; cbn [app].
    - split.
      + intros H. exists st. split; [apply runs_nil; reflexivity|exact H].
      + intros (st1 & H1 & H2). apply runs_nil in H1. subst. exact H2.
    - rewrite runs_cons. split.
      + intros (st1 & Hc & H). apply IH in H. destruct H as (st2 & Ha & Hb).
        exists st2. split; [apply runs_cons; eauto|exact Hb].
      + intros (st2 & Ha & Hb). apply runs_cons in Ha. destruct Ha as (st1 & Hc & Ha).
        exists st1. split; [exact Hc|]. apply IH. eauto.
  Qed.

  Lemma runs_single c st st' : runs [c] st st' <-> steps c st st'.
  Proof.
    rewrite runs_cons. split.
    - intros (st1 & H & Hn). apply runs_nil in Hn. subst. exact H.
    - intros H. exists st'. split; [exact H|apply runs_nil; reflexivity].
  Qed.

  Lemma steps_det c st a b : steps c st a -> steps c st b -> a = b.
  Proof.
    intros (f1 & r1 & H1) (f2 & r2 & H2).
    pose proof (exec_mono ft env _ _ _ _ _ H1 (Nat.max f1 f2) ltac:(lia)) as A.
    pose proof (exec_mono ft env _ _ _ _ _ H2 (Nat.max f1 f2) ltac:(lia)) as B.
    congruence.
  Qed.
  Lemma runs_det l st a b : runs l st a -> runs l st b -> a = b.
  Proof.
    intros (f1 & H1) (f2 & H2).
    pose proof (exec_list_mono ft env _ _ _ _ H1 (Nat.max f1 f2) ltac:(lia)) as A.
    pose proof (exec_list_mono ft env _ _ _ _ H2 (Nat.max f1 f2) ltac:(lia)) as B.
    congruence.
  Qed.

  Lemma steps_set s z st st' : steps (CSet s z) st st' <-> st' = set_sc st s z.
  Proof.
    split.
    - intros (fuel & r & H). destruct fuel; cbn in H; congruence.
    - intros ->. exists 1%nat, (r_ok z). reflexivity.
  Qed.

  Lemma steps_ext n st st' : steps (CExt n) st st' <-> st' = log (env n st) (EExt n).
  Proof.
    split.
    - intros (fuel & r & H). destruct fuel; cbn in H; congruence.
    - intros ->. exists 1%nat, (r_ok 1). reflexivity.
  Qed.

  Lemma steps_call f body st st' :
    ft f = Some body -> (steps (CCall f) st st' <-> runs body st st').
  Proof.
    intros Hf. split.
    - intros (fuel & r & H). destruct fuel; [discriminate|]. cbn [exec] in H. rewrite Hf in H.
      unfold call_res in H.
      destruct (seq_run (exec ft env fuel no_menv) body st) as [x|] eqn:E; [|discriminate].
      exists fuel. unfold exec_list. congruence.
    - intros (fuel & H). exists (S fuel), (r_ok 0). cbn [exec]. rewrite Hf.
      unfold exec_list in H. rewrite H. reflexivity.
  Qed.

  (* execute <tests> run c *)
  Lemma steps_guard ts c st st' :
    steps (CExecute (mods_of ts) c) st st' <->
    if tests_hold st ts then steps c st st' else st' = st.
  Proof.
    split.
    - intros (fuel & r & H). destruct fuel; [discriminate|]. cbn [exec] in H.
      rewrite <- (app_nil_r (mods_of ts)) in H. rewrite run_mods_tests in H.
      destruct (tests_hold st ts).
      + rewrite run_mods_nil in H.
        destruct (exec ft env fuel no_menv c st) as [[x y]|] eqn:E; [|discriminate].
        exists fuel, y. congruence.
      + cbn in H. congruence.
    - destruct (tests_hold st ts) eqn:T.
      + intros (fuel & r & H). exists (S fuel), r. cbn [exec].
        rewrite <- (app_nil_r (mods_of ts)). rewrite run_mods_tests, T, run_mods_nil, H. reflexivity.
      + intros ->. exists 1%nat, r_fail. cbn [exec].
        rewrite <- (app_nil_r (mods_of ts)). rewrite run_mods_tests, T. reflexivity.
  Qed.

  (* the junction merge does not change the meaning *)
  Lemma steps_merge1 ts c st st' :
    steps (merge1 (mods_of ts) c) st st' <-> steps (CExecute (mods_of ts) c) st st'.
  Proof.
    destruct c; cbn [merge1]; try reflexivity.
    rewrite steps_guard. split.
    - intros (fuel & r & H). destruct fuel; [discriminate|]. cbn [exec] in H.
      rewrite run_mods_tests in H. destruct (tests_hold st ts).
      + exists (S fuel), r. exact H.
      + cbn in H. congruence.
    - destruct (tests_hold st ts) eqn:T.
      + intros (fuel & r & H). destruct fuel; [discriminate|]. exists (S fuel), r.
        cbn [exec] in *. rewrite run_mods_tests, T. exact H.
      + intros ->. exists 1%nat, r_fail. cbn [exec]. rewrite run_mods_tests, T. reflexivity.
  Qed.

  Lemma steps_merge1_guard ts c st st' :
    steps (merge1 (mods_of ts) c) st st' <->
    if tests_hold st ts then steps c st st' else st' = st.
  Proof. rewrite steps_merge1. apply steps_guard. Qed.
End Runs.
