(* Proofs.MathFn — the emitted Math.sqrt / Math.random code (Model.MathFn) run in MC.Sem. *)
From Coq Require Import ZArith String List Bool Lia.
From JMCV Require Import Base.Int32 Base.Dec MC.Syntax MC.Sem MC.Facts Model.Names
     Model.VarOp Proofs.VarOp Model.MathFn Proofs.MathFnNewton Proofs.MathFnLcg.
Import ListNotations.
Open Scope Z_scope.

(* ------------------------------------------------------------------ straight-line code *)
(* commands without control flow: set / add / remove / operation (not swap) *)
Definition is_prim (c : cmd) : bool :=
  match c with
  | COp _ OSwap _ => false
  | COp _ _ _ | CSet _ _ | CAdd _ _ | CRemove _ _ => true
  | _ => false
  end.
Definition prim_step (st : state) (c : cmd) : state :=
  match c with
  | CSet s z => set_sc st s z
  | CAdd s z => set_sc st s (wrap (rd (sc st) s + z))
  | CRemove s z => set_sc st s (wrap (rd (sc st) s - z))
  | COp a o b => fst (do_op st a o b)
  | _ => st
  end.
(* score written / scores read-and-touched by a primitive command *)
Definition dst (c : cmd) : option score :=
  match c with CSet s _ | CAdd s _ | CRemove s _ | COp s _ _ => Some s | _ => None end.
Definition src (c : cmd) : option score :=
  match c with COp _ _ b => Some b | _ => None end.
(* new value (as read) of the written score *)
Definition prim_val (st : state) (c : cmd) : Z :=
  match c with
  | CSet _ z => z
  | CAdd s z => wrap (rd (sc st) s + z)
  | CRemove s z => wrap (rd (sc st) s - z)
  | COp a o b => sop_meaning o (rd (sc st) a) (rd (sc st) b)
  | _ => 0
  end.

Lemma rd_prim st c k : is_prim c = true ->
  rd (sc (prim_step st c)) k =
  match dst c with Some d => if score_eqb d k then prim_val st c else rd (sc st) k | None => rd (sc st) k end.
Proof.
  destruct c; try discriminate; intros Hp; cbn [prim_step dst prim_val].
  - unfold set_sc, rd; cbn [sc]. destruct (upd_cases (sc st) s (Some z) k) as [[-> ->]|[N ->]].
    + now rewrite score_eqb_refl.
    + now rewrite score_eqb_neq.
  - unfold set_sc; cbn [sc]. destruct (score_eqb_spec s k) as [->|N].
    + now rewrite rd_upd_same. + now rewrite rd_upd_other.
  - unfold set_sc; cbn [sc]. destruct (score_eqb_spec s k) as [->|N].
    + now rewrite rd_upd_same. + now rewrite rd_upd_other.
  - destruct (score_eqb_spec s k) as [->|N].
    + unfold rd at 1. now rewrite do_op_target.
    + destruct (score_eqb_spec s2 k) as [->|N2].
      * unfold rd at 1. rewrite do_op_other by congruence. destruct o; try reflexivity; discriminate.
      * unfold rd. now rewrite do_op_frame by congruence.
Qed.

Definition is_set (st : state) (k : score) : Prop := sc st k <> None.
Lemma is_set_rd st k : is_set st k -> sc st k = Some (rd (sc st) k).
Proof. unfold is_set, rd. destruct (sc st k); congruence. Qed.

Lemma prim_keeps_set st c k : is_prim c = true -> is_set st k -> is_set (prim_step st c) k.
Proof.
  unfold is_set. destruct c; try discriminate; intros Hp H; cbn [prim_step].
  1-3: unfold set_sc; cbn [sc]; match goal with |- upd _ ?a ?v _ <> _ =>
         destruct (upd_cases (sc st) a v k) as [[_ ->]|[_ ->]] end; congruence.
  destruct (score_eqb_spec s k) as [->|N]; [rewrite do_op_target; discriminate|].
  destruct (score_eqb_spec s2 k) as [->|N2]; [rewrite do_op_other by congruence; discriminate|].
  now rewrite do_op_frame by congruence.
Qed.
Lemma prim_sets_dst st c d : is_prim c = true -> dst c = Some d -> is_set (prim_step st c) d.
Proof.
  unfold is_set. destruct c; try discriminate; intros Hp [= <-]; cbn [prim_step].
  1-3: unfold set_sc; cbn [sc]; rewrite upd_same; discriminate.
  rewrite do_op_target; discriminate.
Qed.
Lemma prim_frame st c k : is_prim c = true -> dst c <> Some k -> src c <> Some k ->
  sc (prim_step st c) k = sc st k.
Proof.
  destruct c; try discriminate; intros Hp Hd Hs; cbn [prim_step dst src] in *.
  1-3: unfold set_sc; cbn [sc]; apply upd_other; congruence.
  apply do_op_frame; congruence.
Qed.
(* a score that is set and not written keeps its value, even when it is read *)
Lemma prim_frame_set st c k : is_prim c = true -> dst c <> Some k -> is_set st k ->
  sc (prim_step st c) k = sc st k.
Proof.
  intros Hp Hd Hs. rewrite (is_set_rd st k Hs), (is_set_rd _ k (prim_keeps_set st c k Hp Hs)).
  f_equal. rewrite rd_prim by exact Hp. destruct (dst c) as [d|]; [|reflexivity].
  rewrite score_eqb_neq; congruence.
Qed.
Lemma prim_rest st c : stg (prim_step st c) = stg st /\ tr (prim_step st c) = tr st.
Proof. destruct c; cbn [prim_step]; auto. apply do_op_rest. Qed.

Definition run_prims (l : list cmd) (st : state) : state := fold_left prim_step l st.

Lemma prims_keep_set l : forall st k, forallb is_prim l = true -> is_set st k -> is_set (run_prims l st) k.
Proof.
  induction l as [|c l IH]; intros st k Hp H; [exact H|]. cbn in Hp. apply andb_true_iff in Hp as [H1 H2].
  cbn. apply IH; auto. now apply prim_keeps_set.
Qed.
Lemma prims_set_dst l : forall st d, forallb is_prim l = true -> In (Some d) (map dst l) -> is_set (run_prims l st) d.
Proof.
  induction l as [|c l IH]; intros st d Hp Hin; [destruct Hin|]. cbn in Hp. apply andb_true_iff in Hp as [H1 H2].
  cbn. destruct Hin as [E|Hin].
  - apply prims_keep_set; auto. now apply prim_sets_dst.
  - now apply IH.
Qed.
Lemma prims_frame l : forall st k, forallb is_prim l = true ->
  ~ In (Some k) (map dst l) -> ~ In (Some k) (map src l) -> sc (run_prims l st) k = sc st k.
Proof.
  induction l as [|c l IH]; intros st k Hp Hd Hs; [reflexivity|]. cbn in Hp. apply andb_true_iff in Hp as [H1 H2].
  cbn in *. rewrite IH by tauto.
    apply prim_frame; [exact H1 | intros E; apply Hd; now left | intros E; apply Hs; now left].
Qed.
Lemma prims_frame_set l : forall st k, forallb is_prim l = true ->
  ~ In (Some k) (map dst l) -> is_set st k -> sc (run_prims l st) k = sc st k.
Proof.
  induction l as [|c l IH]; intros st k Hp Hd Hs; [reflexivity|]. cbn in Hp. apply andb_true_iff in Hp as [H1 H2].
  cbn in *. rewrite IH; auto.
  - apply prim_frame_set; auto.
  - now apply prim_keeps_set.
Qed.
Lemma prims_rd_frame l : forall st k, forallb is_prim l = true ->
  ~ In (Some k) (map dst l) -> rd (sc (run_prims l st)) k = rd (sc st) k.
Proof.
  induction l as [|c l IH]; intros st k Hp Hd; [reflexivity|]. cbn in Hp. apply andb_true_iff in Hp as [H1 H2].
  cbn in *. rewrite IH by tauto. rewrite rd_prim by exact H1.
  destruct (dst c) as [d|]; [|reflexivity]. rewrite score_eqb_neq; [reflexivity|]. intros ->. apply Hd. now left.
Qed.
Lemma prims_rest l : forall st, stg (run_prims l st) = stg st /\ tr (run_prims l st) = tr st.
Proof.
  induction l as [|c l IH]; intros st; [auto|]. unfold run_prims in *. cbn [fold_left].
  destruct (IH (prim_step st c)) as [-> ->]. apply prim_rest.
Qed.

(* disequality of scores decided on the holder names *)
Lemma ne_by_holder (a b : score) : String.eqb (fst a) (fst b) = false -> a <> b.
Proof. intros H ->. now rewrite String.eqb_refl in H. Qed.

Ltac sne := first [ assumption | apply ne_by_holder; vm_compute; reflexivity
                  | apply not_eq_sym; assumption | congruence ].
Ltac seq_simpl :=
  repeat match goal with
         | |- context [score_eqb ?a ?a] => rewrite (score_eqb_refl a)
         | |- context [score_eqb ?a ?b] => rewrite (score_eqb_neq a b) by sne
         end.
(* read a concrete score after a list of primitive commands *)
Ltac rd_run :=
  unfold run_prims; cbn [fold_left];
  repeat (rewrite rd_prim by reflexivity; cbn [dst prim_val]; seq_simpl).

Section Exec.
  Variable ft : string -> option (list cmd).
  Variable env : nat -> state -> state.

  Lemma exec_prim f me c st : is_prim c = true ->
    exists r, exec ft env (S f) me c st = Some (prim_step st c, r).
  Proof.
    destruct c; try discriminate; intros _; cbn [exec prim_step]; eauto.
    destruct (do_op st s o s2); cbn; eauto.
  Qed.

  Lemma seq_prims f me l : forall st, forallb is_prim l = true ->
    seq_run (exec ft env (S f) me) l st = Some (run_prims l st).
  Proof.
    induction l as [|c l IH]; intros st Hp; [reflexivity|]. cbn in Hp. apply andb_true_iff in Hp as [H1 H2].
    cbn [seq_run]. destruct (exec_prim f me c st H1) as [r ->]. now apply IH.
  Qed.

  (* inversion: a terminating run of primitive commands had fuel and produced run_prims *)
  Lemma seq_prims_inv f me l : forall st st', l <> [] -> forallb is_prim l = true ->
    seq_run (exec ft env f me) l st = Some st' -> exists f', f = S f' /\ st' = run_prims l st.
  Proof.
    intros st st' Hne Hp H. destruct f as [|f'].
    - destruct l; [congruence|]. cbn in H. discriminate.
    - exists f'. split; [reflexivity|]. rewrite seq_prims in H by exact Hp. congruence.
  Qed.

  Lemma exec_call f me fn body st st' : ft fn = Some body ->
    seq_run (exec ft env f no_menv) body st = Some st' ->
    exec ft env (S f) me (CCall fn) st = Some (st', r_ok 0).
  Proof. intros Hf H. cbn [exec]. rewrite Hf, H. reflexivity. Qed.

  Lemma exec_call_inv f me fn body st x : ft fn = Some body ->
    exec ft env f me (CCall fn) st = Some x ->
    exists f', f = S f' /\ seq_run (exec ft env f' no_menv) body st = Some (fst x).
  Proof.
    intros Hf H. destruct f as [|f']; [discriminate|]. exists f'. split; [reflexivity|].
    cbn [exec] in H. rewrite Hf in H. unfold call_res in H.
    destruct (seq_run _ body st); [|discriminate]. injection H as <-. reflexivity.
  Qed.

  (* `execute if|unless <test> run body` *)
  Lemma exec_if1 f me pos t body st :
    exec ft env (S f) me (CExecute [MIf pos t] body) st =
    if Bool.eqb pos (test_true st t) then exec ft env f me body st else Some (st, r_fail).
  Proof.
    cbn [exec run_mods]. destruct (Bool.eqb pos (test_true st t)); [|reflexivity].
    destruct (exec ft env f me body st) as [[s r]|]; reflexivity.
  Qed.
End Exec.

(* ================================================================== Math.sqrt *)
Definition sqrt_ft_ok (nm : names) (ft : string -> option (list cmd)) : Prop :=
  ft (sqrt_nr_name nm) = Some (sqrt_nr_body nm) /\ ft (sqrt_main_name nm) = Some (sqrt_main_body nm).

Lemma not_in_sqrt_scratch nm k : ~ In k (sqrt_scratch nm) ->
  k <> sq_x nm /\ k <> sq_xn nm /\ k <> sq_xsq nm /\ k <> sq_N nm /\ k <> sq_diff nm.
Proof. intros H. repeat split; intros ->; apply H; cbn; tauto. Qed.

Section Sqrt.
  Variable ft : string -> option (list cmd).
  Variable env : nat -> state -> state.
  Variable nm : names.
  Hypothesis Hft : sqrt_ft_ok nm ft.

  Notation two := (kscore nm 2).

  (* the seven operations of newton_raphson.mcfunction *)
  Lemma nr_ops_effect st n x :
    sc st (sq_xn nm) = Some x -> sc st (sq_N nm) = Some n -> sc st two = Some 2 ->
    x <> 0 -> Forall in_int32 (nstep_vals n x) ->
    let st' := run_prims (sqrt_nr_ops nm) st in
    sc st' (sq_xn nm) = Some (nstep n x) /\ sc st' (sq_diff nm) = Some (x - nstep n x) /\
    sc st' (sq_N nm) = Some n /\ sc st' two = Some 2 /\
    (forall k, k <> sq_x nm -> k <> sq_xn nm -> k <> sq_diff nm -> k <> sq_N nm -> k <> two ->
               sc st' k = sc st k) /\
    stg st' = stg st /\ tr st' = tr st.
  Proof.
    intros Hx HN H2 Hx0 Hv st'.
    assert (Rx : rd (sc st) (sq_xn nm) = x) by (unfold rd; now rewrite Hx).
    assert (RN : rd (sc st) (sq_N nm) = n) by (unfold rd; now rewrite HN).
    assert (R2 : rd (sc st) two = 2) by (unfold rd; now rewrite H2).
    assert (V : in_int32 (n / x) /\ in_int32 (n / x + x) /\ in_int32 (nstep n x) /\ in_int32 (x - nstep n x)).
    { unfold nstep_vals in Hv. rewrite !Forall_cons_iff in Hv. tauto. }
    destruct V as [V1 [V2 [V3 V4]]].
    assert (Exn : rd (sc st') (sq_xn nm) = nstep n x).
    { subst st'. unfold sqrt_nr_ops. rd_run. cbn [sop_meaning]. rewrite Rx, RN, R2.
      rewrite (proj2 (Z.eqb_neq x 0) Hx0). cbn [Z.eqb].
      rewrite (wrap_id (n / x)) by exact V1. rewrite (wrap_id (n / x + x)) by exact V2.
      unfold nstep. now rewrite wrap_id by exact V3. }
    assert (Ed : rd (sc st') (sq_diff nm) = x - nstep n x).
    { subst st'. unfold sqrt_nr_ops. rd_run. cbn [sop_meaning]. rewrite Rx, RN, R2.
      rewrite (proj2 (Z.eqb_neq x 0) Hx0). cbn [Z.eqb].
      rewrite (wrap_id (n / x)) by exact V1. rewrite (wrap_id (n / x + x)) by exact V2.
      fold (nstep n x). rewrite (wrap_id (nstep n x)) by exact V3. now rewrite wrap_id by exact V4. }
    assert (Hp : forallb is_prim (sqrt_nr_ops nm) = true) by reflexivity.
    repeat split.
    - rewrite <- Exn. apply is_set_rd. apply prims_set_dst; [exact Hp|]. cbn. auto.
    - rewrite <- Ed. apply is_set_rd. apply prims_set_dst; [exact Hp|]. cbn. auto 10.
    - rewrite <- HN. apply prims_frame_set; [exact Hp| |unfold is_set; congruence].
      cbn. intros H; repeat destruct H as [H|H]; try (injection H as H; revert H; sne); auto.
    - rewrite <- H2. apply prims_frame_set; [exact Hp| |unfold is_set; congruence].
      cbn. intros H; repeat destruct H as [H|H]; try (injection H as H; revert H; sne); auto.
    - intros k N1 N2 N3 N4 N5. apply prims_frame; [exact Hp| |]; cbn;
        intros H; repeat destruct H as [H|H]; try discriminate; try (injection H as H; congruence); auto.
    - apply prims_rest.
    - apply prims_rest.
  Qed.

  Definition nr_frame (st st' : state) : Prop :=
    (forall k, k <> sq_x nm -> k <> sq_xn nm -> k <> sq_diff nm -> k <> sq_N nm -> k <> two ->
               sc st' k = sc st k) /\
    stg st' = stg st /\ tr st' = tr st.

  (* the recursive function newton_raphson follows the ideal run as long as the ideal
     values are in int32 *)
  Lemma nr_exec n : forall x vs y, nr_run n x vs y -> Forall in_int32 vs ->
    forall st, sc st (sq_xn nm) = Some x -> sc st (sq_N nm) = Some n -> sc st two = Some 2 ->
    exists fuel st', exec ft env fuel no_menv (CCall (sqrt_nr_name nm)) st = Some (st', r_ok 0) /\
      sc st' (sq_xn nm) = Some y /\ sc st' (sq_N nm) = Some n /\ sc st' two = Some 2 /\
      nr_frame st st'.
  Proof.
    induction 1 as [x Hx0 Hd | x vs y Hx0 Hd Hr IH]; intros Hv st Hx HN H2.
    - destruct (nr_ops_effect st n x Hx HN H2 Hx0 Hv) as [E1 [E2 [E3 [E4 [F [HS HT]]]]]].
      exists 2%nat, (run_prims (sqrt_nr_ops nm) st). split; [|unfold nr_frame; auto 10].
      apply exec_call with (body := sqrt_nr_body nm); [apply Hft|].
      unfold sqrt_nr_body. rewrite seq_run_app, seq_prims by reflexivity.
      cbn [seq_run]. unfold sqrt_nr_loop. rewrite exec_if1. cbn [test_true]. rewrite E2. cbn [in_range].
      replace ((0 <=? x - nstep n x) && (x - nstep n x <=? 1)) with true
        by (symmetry; apply andb_true_iff; split; apply Z.leb_le; lia).
      reflexivity.
    - apply Forall_app in Hv as [Hv1 Hv2].
      destruct (nr_ops_effect st n x Hx HN H2 Hx0 Hv1) as [E1 [E2 [E3 [E4 [F [HS HT]]]]]].
      destruct (IH Hv2 _ E1 E3 E4) as [f0 [st' [Hex [Y1 [Y2 [Y3 [F' [HS' HT']]]]]]]].
      exists (S (S f0)), st'. split.
      + apply exec_call with (body := sqrt_nr_body nm); [apply Hft|].
        unfold sqrt_nr_body. rewrite seq_run_app, seq_prims by reflexivity.
        cbn [seq_run]. unfold sqrt_nr_loop. rewrite exec_if1. cbn [test_true]. rewrite E2. cbn [in_range].
        replace ((0 <=? x - nstep n x) && (x - nstep n x <=? 1)) with false.
        * cbn [Bool.eqb]. now rewrite Hex.
        * symmetry. apply andb_false_iff.
          destruct (Z_lt_le_dec (x - nstep n x) 0); [left; apply Z.leb_gt; lia|right; apply Z.leb_gt; lia].
      + unfold nr_frame. repeat split; auto; try congruence.
        intros k N1 N2 N3 N4 N5. rewrite F' by assumption. now apply F.
  Qed.

  (* main.mcfunction on a state where N holds n: follows the ideal run started at 1225 *)
  Lemma sqrt_main_exec st n vs y :
    nr_run n 1225 vs y -> Forall in_int32 vs -> in_int32 (y * y) -> in_int32 (y - 1) ->
    sc st (sq_N nm) = Some n -> sc st two = Some 2 ->
    exists fuel st', exec ft env fuel no_menv (CCall (sqrt_main_name nm)) st = Some (st', r_ok 0) /\
      sc st' (sq_xn nm) = Some (if y * y >? n then y - 1 else y) /\
      (forall k, ~ In k (sqrt_scratch nm) -> k <> two -> sc st' k = sc st k) /\
      sc st' two = Some 2 /\ stg st' = stg st /\ tr st' = tr st.
  Proof.
    intros Hr Hv Hyy Hy1 HN H2.
    set (st1 := prim_step st (CSet (sq_xn nm) 1225)).
    assert (A1 : sc st1 (sq_xn nm) = Some 1225) by (subst st1; unfold prim_step, set_sc; cbn [sc]; apply upd_same).
    assert (A2 : sc st1 (sq_N nm) = Some n).
    { subst st1. unfold prim_step, set_sc; cbn [sc]. rewrite upd_other by sne. exact HN. }
    assert (A3 : sc st1 two = Some 2).
    { subst st1. unfold prim_step, set_sc; cbn [sc]. rewrite upd_other by sne. exact H2. }
    destruct (nr_exec n _ _ _ Hr Hv st1 A1 A2 A3) as [f0 [st2 [Hex [Y1 [Y2 [Y3 [F2 [S2 T2]]]]]]]].
    set (sqops := [COp (sq_xsq nm) OAssign (sq_xn nm); COp (sq_xsq nm) OMul (sq_xn nm)]).
    set (st3 := run_prims sqops st2).
    assert (Hp : forallb is_prim sqops = true) by reflexivity.
    assert (Ry : rd (sc st2) (sq_xn nm) = y) by (unfold rd; now rewrite Y1).
    assert (B1 : sc st3 (sq_xsq nm) = Some (y * y)).
    { rewrite (is_set_rd st3) by (apply prims_set_dst; [exact Hp|cbn; auto]). f_equal.
      subst st3 sqops. rd_run. cbn [sop_meaning]. rewrite Ry. now apply wrap_id. }
    assert (B2 : sc st3 (sq_N nm) = Some n).
    { rewrite <- Y2. apply prims_frame_set; [exact Hp| |unfold is_set; congruence].
      cbn. intros H; repeat destruct H as [H|H]; try (injection H as H; revert H; sne); auto. }
    assert (B3 : sc st3 (sq_xn nm) = Some y).
    { rewrite <- Y1. apply prims_frame_set; [exact Hp| |unfold is_set; congruence].
      cbn. intros H; repeat destruct H as [H|H]; try (injection H as H; revert H; sne); auto. }
    assert (B4 : forall k, k <> sq_xsq nm -> k <> sq_xn nm -> sc st3 k = sc st2 k).
    { intros k N1 N2. apply prims_frame; [exact Hp| |]; cbn;
        intros H; repeat destruct H as [H|H]; try discriminate; try (injection H as H; congruence); auto. }
    destruct (prims_rest sqops st2) as [S3 T3]. fold st3 in S3, T3.
    set (st4 := if y * y >? n then prim_step st3 (CRemove (sq_xn nm) 1) else st3).
    exists (S (S (S f0))), st4. split.
    { apply exec_call with (body := sqrt_main_body nm); [apply Hft|].
      unfold sqrt_main_body. cbn [seq_run].
      change (exec ft env (S (S f0)) no_menv (CSet (sq_xn nm) 1225) st) with (Some (st1, r_ok 1225)).
      cbn iota beta.
      rewrite (exec_mono ft env _ _ _ _ _ Hex (S (S f0))) by lia.
      change (exec ft env (S (S f0)) no_menv (COp (sq_xsq nm) OAssign (sq_xn nm)) st2)
        with (Some (do_op st2 (sq_xsq nm) OAssign (sq_xn nm))).
      destruct (do_op st2 (sq_xsq nm) OAssign (sq_xn nm)) as [sa ra] eqn:Ea.
      change (exec ft env (S (S f0)) no_menv (COp (sq_xsq nm) OMul (sq_xn nm)) sa)
        with (Some (do_op sa (sq_xsq nm) OMul (sq_xn nm))).
      destruct (do_op sa (sq_xsq nm) OMul (sq_xn nm)) as [sb rb] eqn:Eb.
      assert (Esb : sb = st3).
      { subst st3 sqops. unfold run_prims. cbn [fold_left prim_step]. rewrite Ea. cbn [fst]. now rewrite Eb. }
      subst sb. rewrite exec_if1. cbn [test_true]. rewrite B1, B2. cbn [cmp_true].
      subst st4. destruct (y * y >? n); cbn [Bool.eqb]; reflexivity. }
    assert (C : sc st4 (sq_xn nm) = Some (if y * y >? n then y - 1 else y)).
    { subst st4. destruct (y * y >? n); [|exact B3]. unfold prim_step, set_sc; cbn [sc]. rewrite upd_same. f_equal.
      unfold rd. rewrite B3. now apply wrap_id. }
    assert (D : forall k, k <> sq_xn nm -> sc st4 k = sc st3 k).
    { intros k N. subst st4. destruct (y * y >? n); [|reflexivity]. unfold prim_step, set_sc; cbn [sc]. apply upd_other. congruence. }
    assert (ST : stg st4 = stg st3 /\ tr st4 = tr st3).
    { subst st4. destruct (y * y >? n); auto. }
    destruct ST as [S4 T4].
    split; [exact C|]. split; [|split; [|split]].
    - intros k Hk Hk2. destruct (not_in_sqrt_scratch nm k Hk) as [N1 [N2 [N3 [N4 N5]]]].
      rewrite D, B4, F2 by assumption. subst st1. unfold prim_step, set_sc; cbn [sc]. apply upd_other. congruence.
    - rewrite D, B4 by sne. exact Y3.
    - rewrite S4, S3, S2. reflexivity.
    - rewrite T4, T3, T2. reflexivity.
  Qed.

  Definition sqrt_post (target arg : score) (r : Z) (st st' : state) : Prop :=
    sc st' target = Some r /\
    (forall k, k <> target -> ~ In k (sqrt_scratch nm) ->
               rd (sc st') k = rd (sc st) k /\ (k <> arg -> sc st' k = sc st k)) /\
    stg st' = stg st /\ tr st' = tr st.

  (* the call site: N = arg; main; target = x_n *)
  Lemma sqrt_simulates target arg st n vs r :
    sqrt_trace n vs r -> Forall in_int32 vs ->
    rd (sc st) arg = n -> sc st two = Some 2 ->
    exists fuel st', exec_list ft env fuel (sqrt_run nm target arg) st = Some st' /\
                     sqrt_post target arg r st st'.
  Proof.
    intros [vs0 [y [Hr [-> ->]]]] Hv Harg H2.
    apply Forall_app in Hv as [Hv0 Hv1].
    assert (Hyy : in_int32 (y * y)) by (inversion Hv1; assumption).
    set (c1 := COp (sq_N nm) OAssign arg).
    set (st1 := prim_step st c1).
    assert (A1 : sc st1 (sq_N nm) = Some n).
    { rewrite (is_set_rd st1) by (apply prim_sets_dst; reflexivity). f_equal.
      subst st1 c1. rewrite rd_prim by reflexivity. cbn [dst prim_val sop_meaning]. now rewrite score_eqb_refl. }
    assert (A2 : sc st1 two = Some 2).
    { rewrite <- H2. apply prim_frame_set; [reflexivity| |unfold is_set; congruence].
      cbn. intros H; injection H as H; revert H; sne. }
    (* the decrement is only executed, and only needs to be in range, when y*y > n *)
    assert (Hmain : exists fuel st2, exec ft env fuel no_menv (CCall (sqrt_main_name nm)) st1 = Some (st2, r_ok 0) /\
      sc st2 (sq_xn nm) = Some (if y * y >? n then y - 1 else y) /\
      (forall k, ~ In k (sqrt_scratch nm) -> k <> two -> sc st2 k = sc st1 k) /\
      sc st2 two = Some 2 /\ stg st2 = stg st1 /\ tr st2 = tr st1).
    { destruct (y * y >? n) eqn:Eg.
      - assert (Hy1 : in_int32 (y - 1)) by (inversion Hv1 as [|? ? _ Hv2]; inversion Hv2; assumption).
        pose proof (sqrt_main_exec st1 n vs0 y Hr Hv0 Hyy Hy1 A1 A2) as M. now rewrite Eg in M.
      - (* y - 1 is never computed, but it is in range anyway *)
        destruct (Z_le_gt_dec INT_MIN (y - 1)) as [Hlo|Hlo].
        + assert (Hy1' : in_int32 (y - 1)).
          { unfold in_int32 in *. split; [exact Hlo|]. 
            assert (y <= y * y \/ y <= 0) by nia. unfold INT_MAX in *. lia. }
          pose proof (sqrt_main_exec st1 n vs0 y Hr Hv0 Hyy Hy1' A1 A2) as M. now rewrite Eg in M.
        + (* y < INT_MIN + 1 is impossible: y*y would exceed INT_MAX *)
          exfalso. unfold in_int32, INT_MIN, INT_MAX in *. nia. }
    destruct Hmain as [f0 [st2 [Hex [X1 [F2 [X2 [S2 T2]]]]]]].
    set (c3 := COp target OAssign (sq_xn nm)).
    set (st3 := prim_step st2 c3).
    exists (S f0), st3. split.
    { unfold exec_list, sqrt_run. cbn [seq_run].
      change (exec ft env (S f0) no_menv (COp (sq_N nm) OAssign arg) st) with (Some (do_op st (sq_N nm) OAssign arg)).
      destruct (do_op st (sq_N nm) OAssign arg) as [sa ra] eqn:Ea.
      assert (sa = st1) by (subst st1 c1; cbn [prim_step]; now rewrite Ea). subst sa.
      rewrite (exec_mono ft env _ _ _ _ _ Hex (S f0)) by lia.
      change (exec ft env (S f0) no_menv (COp target OAssign (sq_xn nm)) st2) with (Some (do_op st2 target OAssign (sq_xn nm))).
      destruct (do_op st2 target OAssign (sq_xn nm)) as [sb rb] eqn:Eb.
      f_equal. subst st3 c3. cbn [prim_step]. now rewrite Eb. }
    unfold sqrt_post. split; [|split; [|split]].
    - subst st3 c3. cbn [prim_step]. rewrite do_op_target. cbn [sop_meaning]. unfold rd. now rewrite X1.
    - intros k Nt Hk.
      destruct (not_in_sqrt_scratch nm k Hk) as [_ [Nx [_ [NN _]]]].
      assert (E21 : sc st2 k = sc st1 k).
      { destruct (score_eqb_spec k two) as [->|N2]; [congruence|]. now apply F2. }
      split.
      + subst st3 c3. rewrite rd_prim by reflexivity. cbn [dst]. rewrite score_eqb_neq by congruence.
        unfold rd at 1. rewrite E21. fold (rd (sc st1) k).
        subst st1 c1. rewrite rd_prim by reflexivity. cbn [dst]. now rewrite score_eqb_neq by congruence.
      + intros Na. subst st3 c3. rewrite prim_frame; [|reflexivity|cbn; congruence|cbn; congruence].
        rewrite E21. subst st1 c1. apply prim_frame; [reflexivity|cbn; congruence|cbn; congruence].
    - subst st3 c3. rewrite (proj1 (prim_rest st2 _)), S2. subst st1 c1. apply prim_rest.
    - subst st3 c3. rewrite (proj2 (prim_rest st2 _)), T2. subst st1 c1. apply prim_rest.
  Qed.
End Sqrt.

(* the ideal run stays in int32 and ends at the integer square root *)
Lemma sqrt_ideal n : 0 <= n <= INT_MAX ->
  exists vs, sqrt_trace n vs (Z.sqrt n) /\ Forall in_int32 vs.
Proof.
  intros Hn. destruct (nr_from_1225 n Hn) as [vs0 [y [Hr [Hv Hp]]]].
  destruct (final_fix n y Hn Hp) as [Hyy [Hy1 E]].
  exists (vs0 ++ [y * y] ++ (if y * y >? n then [y - 1] else [])). split.
  - exists vs0, y. split; [exact Hr|]. split; [reflexivity|]. now rewrite E.
  - apply Forall_app. split; [exact Hv|]. constructor; [exact Hyy|].
    destruct (y * y >? n); constructor; auto.
Qed.

Theorem sqrt_correct ft env nm target arg st n :
  sqrt_ft_ok nm ft ->
  rd (sc st) arg = n -> 0 <= n <= INT_MAX -> sc st (kscore nm 2) = Some 2 ->
  forallb wf_cmd (sqrt_run nm target arg ++ sqrt_nr_body nm ++ sqrt_main_body nm) = true /\
  exists fuel st', exec_list ft env fuel (sqrt_run nm target arg) st = Some st' /\
                   sqrt_post nm target arg (Z.sqrt n) st st'.
Proof.
  intros Hft Harg Hn H2. split; [reflexivity|].
  destruct (sqrt_ideal n Hn) as [vs [Ht Hv]].
  exact (sqrt_simulates ft env nm Hft target arg st n vs _ Ht Hv Harg H2).
Qed.

(* ================================================================== Math.random *)
Definition random_ft_ok (nm : names) (ft : string -> option (list cmd)) : Prop :=
  ft (random_main_name nm) = Some (random_main_body nm).

Lemma not_in_random_scratch nm k : ~ In k (random_scratch nm) ->
  k <> rn_seed nm /\ k <> rn_result nm /\ k <> rn_a nm /\ k <> rn_c nm /\ k <> rn_bound nm /\ k <> rn_tmp nm.
Proof. intros H. repeat split; intros ->; apply H; cbn; tauto. Qed.

Definition opnd_val (st : state) (o : opnd) : Z :=
  match o with PLit z => z | PScore s => rd (sc st) s end.
(* literals are int32; score operands are not the generator's own scratch scores *)
Definition opnd_ok (nm : names) (o : opnd) : Prop :=
  match o with PLit z => in_int32 z | PScore s => ~ In s (random_scratch nm) end.
Definition opnd_scores (o : opnd) : list score := match o with PLit _ => [] | PScore s => [s] end.
Definition kloaded (nm : names) (st : state) (ints : list Z) : Prop :=
  forall z, In z ints -> sc st (kscore nm z) = Some z.

Lemma rd_in_int32 st k : int32_state st -> in_int32 (rd (sc st) k).
Proof.
  intros H. unfold rd. destruct (sc st k) eqn:E; [eapply H; eauto|].
  unfold in_int32, INT_MIN, INT_MAX; lia.
Qed.

Section Random.
  Variable ft : string -> option (list cmd).
  Variable env : nat -> state -> state.
  Variable nm : names.
  Hypothesis Hft : random_ft_ok nm ft.

  (* the seven operations of math_random/main for any multiplier / increment *)
  Lemma rn_ops_effect st b :
    sc st (rn_bound nm) = Some b -> 1 <= b <= INT_MAX ->
    let s' := wrap (wrap (rd (sc st) (rn_seed nm) * rd (sc st) (rn_a nm)) + rd (sc st) (rn_c nm)) in
    let st' := run_prims (random_main_ops nm) st in
    sc st' (rn_seed nm) = Some s' /\ sc st' (rn_result nm) = Some (s' mod b) /\
    sc st' (rn_tmp nm) = Some (tmp_of b s') /\ sc st' (rn_bound nm) = Some b /\
    (forall k, is_set st k -> k <> rn_seed nm -> k <> rn_result nm -> k <> rn_tmp nm -> sc st' k = sc st k) /\
    (forall k, ~ In k (random_scratch nm) -> sc st' k = sc st k) /\
    stg st' = stg st /\ tr st' = tr st.
  Proof.
    intros Hb Hbr s' st'.
    assert (Rb : rd (sc st) (rn_bound nm) = b) by (unfold rd; now rewrite Hb).
    assert (Hp : forallb is_prim (random_main_ops nm) = true) by reflexivity.
    assert (Hb0 : (b =? 0) = false) by (apply Z.eqb_neq; lia).
    pose proof (Z.mod_pos_bound s' b ltac:(lia)) as Hr.
    assert (Es : rd (sc st') (rn_seed nm) = s').
    { subst st'. unfold random_main_ops. rd_run. cbn [sop_meaning]. reflexivity. }
    assert (Er : rd (sc st') (rn_result nm) = s' mod b).
    { subst st'. unfold random_main_ops. rd_run. cbn [sop_meaning]. rewrite Rb, Hb0.
      fold s'. apply wrap_id. unfold in_int32, INT_MIN, INT_MAX in *. lia. }
    assert (Et : rd (sc st') (rn_tmp nm) = tmp_of b s').
    { subst st'. unfold random_main_ops. rd_run. cbn [sop_meaning]. rewrite Rb, Hb0.
      fold s'. reflexivity. }
    assert (Fset : forall k, is_set st k -> k <> rn_seed nm -> k <> rn_result nm -> k <> rn_tmp nm ->
                             sc st' k = sc st k).
    { intros k Hk N1 N2 N3. apply prims_frame_set; [exact Hp| |exact Hk].
      cbn. intros H; repeat destruct H as [H|H]; try (injection H as H; congruence); auto. }
    repeat split.
    - rewrite <- Es. apply is_set_rd. apply prims_set_dst; [exact Hp|]. cbn. auto.
    - rewrite <- Er. apply is_set_rd. apply prims_set_dst; [exact Hp|]. cbn. auto 10.
    - rewrite <- Et. apply is_set_rd. apply prims_set_dst; [exact Hp|]. cbn. auto 10.
    - rewrite <- Hb. apply Fset; [unfold is_set; congruence| | |]; sne.
    - exact Fset.
    - intros k Hk. destruct (not_in_random_scratch nm k Hk) as [N1 [N2 [N3 [N4 [N5 N6]]]]].
      apply prims_frame; [exact Hp| |]; cbn;
        intros H; repeat destruct H as [H|H]; try discriminate; try (injection H as H; congruence); auto.
    - apply prims_rest.
    - apply prims_rest.
  Qed.

  Definition rn_frame (st st' : state) : Prop :=
    (forall k, ~ In k (random_scratch nm) -> sc st' k = sc st k) /\ stg st' = stg st /\ tr st' = tr st.

  (* partial correctness of the rejection loop: whenever it terminates, the result is
     a remainder modulo the bound, for every seed / multiplier / increment *)
  Lemma random_main_partial b : 1 <= b <= INT_MAX ->
    forall fuel st x, sc st (rn_bound nm) = Some b ->
    exec ft env fuel no_menv (CCall (random_main_name nm)) st = Some x ->
    (exists v, sc (fst x) (rn_result nm) = Some v /\ 0 <= v < b) /\ rn_frame st (fst x).
  Proof.
    intros Hbr. induction fuel as [fuel IH] using lt_wf_ind. intros st x Hb Hex.
    destruct (exec_call_inv ft env _ _ _ _ _ _ Hft Hex) as [f1 [-> Hseq]].
    unfold random_main_body in Hseq. rewrite seq_run_app in Hseq.
    destruct (seq_run (exec ft env f1 no_menv) (random_main_ops nm) st) as [st7|] eqn:E7; [|discriminate].
    destruct (seq_prims_inv ft env f1 no_menv (random_main_ops nm) st st7 ltac:(unfold random_main_ops; discriminate) ltac:(reflexivity) E7) as [f2 [-> ->]].
    destruct (rn_ops_effect st b Hb Hbr) as [_ [Er [_ [Eb [_ [F [HS HT]]]]]]].
    set (st7 := run_prims (random_main_ops nm) st) in *.
    cbn [seq_run] in Hseq. unfold random_main_loop in Hseq. rewrite exec_if1 in Hseq.
    destruct (Bool.eqb true (test_true st7 (Matches (rn_tmp nm) (To 0)))).
    - destruct (exec ft env f2 no_menv (CCall (random_main_name nm)) st7) as [y|] eqn:Ey; [|discriminate].
      destruct (IH f2 ltac:(lia) st7 y Eb Ey) as [Hv [F' [HS' HT']]].
      assert (fst x = fst y) by (destruct y as [sy ry]; cbn [fst]; injection Hseq as Hseq; congruence).
      rewrite H. split; [exact Hv|]. unfold rn_frame. repeat split; try congruence.
      intros k Hk. rewrite F' by exact Hk. now apply F.
    - injection Hseq as <-. split; [|unfold rn_frame; auto].
      exists (wrap (wrap (rd (sc st) (rn_seed nm) * rd (sc st) (rn_a nm)) + rd (sc st) (rn_c nm)) mod b).
      split; [exact Er|]. apply Z.mod_pos_bound. lia.
  Qed.

  (* termination of the rejection loop with the generator's real constants *)
  Lemma random_main_total b : 1 <= b <= INT_MAX ->
    forall s, lcg_reaches b s ->
    forall st, rd (sc st) (rn_seed nm) = s -> sc st (rn_a nm) = Some LCG_A -> sc st (rn_c nm) = Some LCG_C ->
               sc st (rn_bound nm) = Some b ->
    exists fuel x, exec ft env fuel no_menv (CCall (random_main_name nm)) st = Some x.
  Proof.
    intros Hbr s Hreach.
    assert (Step : forall s st, rd (sc st) (rn_seed nm) = s -> sc st (rn_a nm) = Some LCG_A ->
                     sc st (rn_c nm) = Some LCG_C -> sc st (rn_bound nm) = Some b ->
                     let st7 := run_prims (random_main_ops nm) st in
                     rd (sc st7) (rn_seed nm) = lcg s /\ sc st7 (rn_a nm) = Some LCG_A /\
                     sc st7 (rn_c nm) = Some LCG_C /\ sc st7 (rn_bound nm) = Some b /\
                     sc st7 (rn_tmp nm) = Some (tmp_of b (lcg s))).
    { intros s0 st Hs Ha Hc Hb st7.
      destruct (rn_ops_effect st b Hb Hbr) as [Es [_ [Et [Eb [Fset _]]]]]. fold st7 in Es, Et, Eb, Fset.
      assert (El : wrap (wrap (rd (sc st) (rn_seed nm) * rd (sc st) (rn_a nm)) + rd (sc st) (rn_c nm)) = lcg s0).
      { unfold lcg, rd. rewrite Ha, Hc. fold (rd (sc st) (rn_seed nm)). now rewrite Hs. }
      rewrite El in Es, Et.
      repeat split; auto.
      - unfold rd. now rewrite Es.
      - rewrite <- Ha. apply Fset; [unfold is_set; congruence| | |]; sne.
      - rewrite <- Hc. apply Fset; [unfold is_set; congruence| | |]; sne. }
    induction Hreach as [s Hacc | s Hr IH]; intros st Hs Ha Hc Hb;
      destruct (Step s st Hs Ha Hc Hb) as [S1 [S2 [S3 [S4 S5]]]];
      set (st7 := run_prims (random_main_ops nm) st) in *.
    - exists 2%nat, (st7, r_ok 0).
      apply exec_call with (body := random_main_body nm); [exact Hft|].
      unfold random_main_body. rewrite seq_run_app, seq_prims by reflexivity.
      fold st7. cbn [seq_run]. unfold random_main_loop. rewrite exec_if1. cbn [test_true]. rewrite S5. cbn [in_range].
      destruct (tmp_acc b (lcg s) Hbr Hacc) as [_ Hpos].
      replace (tmp_of b (lcg s) <=? 0) with false by (symmetry; apply Z.leb_gt; lia).
      reflexivity.
    - destruct (IH st7 S1 S2 S3 S4) as [f0 [y Hy]].
      destruct (tmp_of b (lcg s) <=? 0) eqn:Et.
      + exists (S (S f0)), (fst y, r_ok 0).
        apply exec_call with (body := random_main_body nm); [exact Hft|].
        unfold random_main_body. rewrite seq_run_app, seq_prims by reflexivity.
        fold st7. cbn [seq_run]. unfold random_main_loop. rewrite exec_if1. cbn [test_true]. rewrite S5. cbn [in_range].
        rewrite Et. cbn [Bool.eqb]. rewrite Hy. destruct y. reflexivity.
      + exists 2%nat, (st7, r_ok 0).
        apply exec_call with (body := random_main_body nm); [exact Hft|].
        unfold random_main_body. rewrite seq_run_app, seq_prims by reflexivity.
        fold st7. cbn [seq_run]. unfold random_main_loop. rewrite exec_if1. cbn [test_true]. rewrite S5. cbn [in_range].
        rewrite Et. reflexivity.
  Qed.
End Random.

Definition random_post (nm : names) (target : score) (lo hi : opnd) (a b : Z) (st st' : state) : Prop :=
  (exists v, sc st' target = Some v /\ a <= v <= b) /\
  (forall k, k <> target -> ~ In k (random_scratch nm) ->
     rd (sc st') k = rd (sc st) k /\
     (~ In k (opnd_scores lo ++ opnd_scores hi ++ map (kscore nm) (random_ints lo)) -> sc st' k = sc st k)) /\
  stg st' = stg st /\ tr st' = tr st.

Lemma random_wf nm target lo hi :
  match lo, hi with
  | PLit a, PLit b => in_int32 a /\ 1 <= b - a + 1 <= INT_MAX
  | PLit a, _ => in_int32 a
  | _, _ => True
  end ->
  forallb wf_cmd (random_run nm target lo hi ++ random_main_body nm) = true.
Proof.
  assert (W : forall z, in_int32b (wrap z) = true) by (intros; apply in_int32b_spec, wrap_range).
  assert (T : forall a, in_int32 a ->
     forallb wf_cmd (random_tail_cmds nm target (PLit a)) = true).
  { intros a Ha. unfold random_tail_cmds. unfold in_int32, INT_MIN, INT_MAX in Ha.
    destruct (a =? INT_MIN) eqn:E1; [reflexivity|]. apply Z.eqb_neq in E1. unfold INT_MIN in E1.
    destruct (a <? 0) eqn:E2; [apply Z.ltb_lt in E2|apply Z.ltb_ge in E2].
    - cbn. unfold INT_MAX. rewrite andb_true_r. apply andb_true_iff; split; apply Z.leb_le; lia.
    - destruct (0 <? a) eqn:E3; [|reflexivity]. cbn. unfold INT_MAX. rewrite andb_true_r.
      apply andb_true_iff; split; apply Z.leb_le; lia. }
  unfold random_run. destruct lo as [a|s], hi as [b|t]; intros H; rewrite !forallb_app.
  - destruct H as [Ha Hb]. rewrite T by exact Ha. cbn.
    rewrite (proj2 (in_int32b_spec (b - a + 1))); [reflexivity|]. unfold in_int32, INT_MIN, INT_MAX in *. lia.
  - rewrite T by exact H. cbn. now rewrite W.
  - cbn. now rewrite W.
  - reflexivity.
Qed.

Section RandomTop.
  Variable ft : string -> option (list cmd).
  Variable env : nat -> state -> state.
  Variable nm : names.
  Hypothesis Hft : random_ft_ok nm ft.

  Lemma bound_effect st lo hi a b :
    opnd_ok nm lo -> opnd_ok nm hi -> opnd_val st lo = a -> opnd_val st hi = b ->
    1 <= b - a + 1 <= INT_MAX ->
    let l := random_bound_cmds nm lo hi in
    let st1 := run_prims l st in
    forallb is_prim l = true /\ l <> [] /\
    sc st1 (rn_bound nm) = Some (b - a + 1) /\
    (forall k, k <> rn_bound nm -> rd (sc st1) k = rd (sc st) k) /\
    (forall k, k <> rn_bound nm -> ~ In k (opnd_scores lo ++ opnd_scores hi) -> sc st1 k = sc st k) /\
    (forall k, k <> rn_bound nm -> is_set st k -> sc st1 k = sc st k) /\
    stg st1 = stg st /\ tr st1 = tr st.
  Proof.
    intros Hlo Hhi Ea Eb Hr l st1.
    assert (Hp : forallb is_prim l = true) by (subst l; destruct lo, hi; reflexivity).
    assert (Hd : forall k, k <> rn_bound nm -> ~ In (Some k) (map dst l)).
    { intros k N H. subst l. destruct lo, hi; cbn in H; repeat destruct H as [H|H]; try congruence; auto. }
    assert (Hs : forall k, ~ In k (opnd_scores lo ++ opnd_scores hi) -> ~ In (Some k) (map src l)).
    { intros k N H. apply N. subst l.
      destruct lo, hi; cbn in H |- *; repeat destruct H as [H|H]; try discriminate; try (injection H as H); auto. }
    assert (Id : in_int32 (b - a + 1)) by (unfold in_int32, INT_MIN, INT_MAX in *; lia).
    split; [exact Hp|]. split; [subst l; destruct lo, hi; discriminate|].
    split; [|split; [|split; [|split]]].
    - rewrite (is_set_rd st1).
      2:{ apply prims_set_dst; [exact Hp|]. subst l. destruct lo, hi; cbn; auto. }
      f_equal. subst st1 l. destruct lo as [x|s], hi as [y|t]; cbn [opnd_val opnd_ok] in *; unfold random_bound_cmds.
      + rd_run. congruence.
      + destruct (not_in_random_scratch nm t Hhi) as [_ [_ [_ [_ [N _]]]]].
        rd_run. cbn [sop_meaning]. rewrite wrap_add_l, Ea, Eb. transitivity (wrap (b - a + 1)); [f_equal; lia|now apply wrap_id].
      + destruct (not_in_random_scratch nm s Hlo) as [_ [_ [_ [_ [N _]]]]].
        rd_run. cbn [sop_meaning]. rewrite wrap_sub_l, Ea, Eb. transitivity (wrap (b - a + 1)); [f_equal; lia|now apply wrap_id].
      + destruct (not_in_random_scratch nm s Hlo) as [_ [_ [_ [_ [N _]]]]].
        destruct (not_in_random_scratch nm t Hhi) as [_ [_ [_ [_ [N' _]]]]].
        rd_run. cbn [sop_meaning]. rewrite wrap_add_l, Ea, Eb. transitivity (wrap (b - a + 1)); [f_equal; lia|now apply wrap_id].
    - intros k N. apply prims_rd_frame; auto.
    - intros k N1 N2. apply prims_frame; auto.
    - intros k N Hk. apply prims_frame_set; auto.
    - split; apply prims_rest.
  Qed.

  Lemma tail_effect st target lo v a :
    ~ In target (random_scratch nm) -> opnd_ok nm lo ->
    (forall z, In z (random_ints lo) -> target <> kscore nm z) -> kloaded nm st (random_ints lo) ->
    sc st (rn_result nm) = Some v -> opnd_val st lo = a -> in_int32 (v + a) ->
    let l := random_tail_cmds nm target lo in
    let st' := run_prims l st in
    forallb is_prim l = true /\
    sc st' target = Some (v + a) /\
    (forall k, k <> target -> k <> rn_result nm -> rd (sc st') k = rd (sc st) k) /\
    (forall k, k <> target -> k <> rn_result nm ->
               ~ In k (opnd_scores lo ++ map (kscore nm) (random_ints lo)) -> sc st' k = sc st k) /\
    stg st' = stg st /\ tr st' = tr st.
  Proof.
    intros Ht Hlo Hk Hld Hv Ea Hin l st'.
    destruct (not_in_random_scratch nm target Ht) as [_ [Ntr _]].
    assert (Rv : rd (sc st) (rn_result nm) = v) by (unfold rd; now rewrite Hv).
    assert (Hp : forallb is_prim l = true).
    { subst l. destruct lo as [x|s]; [|reflexivity]. unfold random_tail_cmds.
      destruct (x =? INT_MIN); [reflexivity|]. destruct (x <? 0); [reflexivity|]. destruct (0 <? x); reflexivity. }
    assert (Hd : forall k, k <> target -> k <> rn_result nm -> ~ In (Some k) (map dst l)).
    { intros k N1 N2 H. subst l. destruct lo as [x|s]; unfold random_tail_cmds in H.
      - destruct (x =? INT_MIN); [|destruct (x <? 0); [|destruct (0 <? x)]];
          cbn in H; repeat destruct H as [H|H]; try congruence; auto.
      - cbn in H; repeat destruct H as [H|H]; try congruence; auto. }
    assert (Hs : forall k, k <> rn_result nm -> ~ In k (opnd_scores lo ++ map (kscore nm) (random_ints lo)) ->
                           ~ In (Some k) (map src l)).
    { intros k N0 N H. apply N. subst l. destruct lo as [x|s]; unfold random_tail_cmds, random_ints in *.
      - destruct (x =? INT_MIN); [|destruct (x <? 0); [|destruct (0 <? x)]];
          cbn in H |- *; repeat destruct H as [H|H]; try discriminate; try (injection H as H); auto; congruence.
      - cbn in H |- *; repeat destruct H as [H|H]; try discriminate; try (injection H as H); auto; congruence. }
    split; [exact Hp|]. split; [|split; [|split]].
    - rewrite (is_set_rd st').
      2:{ apply prims_set_dst; [exact Hp|]. subst l. destruct lo as [x|s]; unfold random_tail_cmds.
          - destruct (x =? INT_MIN); [|destruct (x <? 0); [|destruct (0 <? x)]]; cbn; auto.
          - cbn; auto. }
      f_equal. subst st' l. destruct lo as [x|s]; cbn [opnd_val opnd_ok] in *; unfold random_tail_cmds, random_ints in *.
      + subst x. destruct (a =? INT_MIN) eqn:E1.
        * apply Z.eqb_eq in E1.
          assert (NK : target <> kscore nm a) by (apply Hk; now left).
          assert (RK : rd (sc st) (kscore nm a) = a) by (unfold rd; rewrite (Hld a); [reflexivity|now left]).
          rd_run. cbn [sop_meaning]. rewrite Rv, RK. now apply wrap_id.
        * destruct (a <? 0) eqn:E2.
          { rd_run. cbn [sop_meaning]. rewrite Rv. transitivity (wrap (v + a)); [f_equal; lia|now apply wrap_id]. }
          destruct (0 <? a) eqn:E3.
          { rd_run. cbn [sop_meaning]. rewrite Rv. now apply wrap_id. }
          apply Z.ltb_ge in E2, E3. rd_run. cbn [sop_meaning]. rewrite Rv. lia.
      + destruct (not_in_random_scratch nm s Hlo) as [_ [Nsr _]].
        rd_run. cbn [sop_meaning]. rewrite Rv, Ea. now apply wrap_id.
    - intros k N1 N2. apply prims_rd_frame; auto.
    - intros k N1 N2 N3. apply prims_frame; auto.
    - split; apply prims_rest.
  Qed.

  Section Run.
    Variables (target : score) (lo hi : opnd) (st : state).
    Hypothesis Ht : ~ In target (random_scratch nm).
    Hypothesis Hlo : opnd_ok nm lo.
    Hypothesis Hhi : opnd_ok nm hi.
    Hypothesis Hk : forall z, In z (random_ints lo) -> target <> kscore nm z.
    Hypothesis Hld : kloaded nm st (random_ints lo).
    Hypothesis H32 : int32_state st.
    Let a := opnd_val st lo.
    Let b := opnd_val st hi.
    Hypothesis Hr : 1 <= b - a + 1 <= INT_MAX.

    Lemma opnd_in_int32 o : opnd_ok nm o -> in_int32 (opnd_val st o).
    Proof. destruct o; cbn; [auto|]. intros _. now apply rd_in_int32. Qed.

    Lemma kscore_not_scratch z : ~ In (kscore nm z) (random_scratch nm) \/ z <> INT_MIN.
    Proof.
      destruct (Z.eq_dec z INT_MIN) as [->|N]; [left|now right].
      cbn. intros H. repeat destruct H as [H|H]; try (revert H; apply not_eq_sym; sne); auto.
    Qed.

    (* everything after the bound computation and a terminated call of main *)
    Lemma random_finish st2 l3 :
      l3 = random_tail_cmds nm target lo ->
      let st1 := run_prims (random_bound_cmds nm lo hi) st in
      (exists v, sc st2 (rn_result nm) = Some v /\ 0 <= v < b - a + 1) -> rn_frame nm st1 st2 ->
      random_post nm target lo hi a b st (run_prims l3 st2).
    Proof.
      intros -> st1 [v [Hv Hvr]] [F2 [S2 T2]].
      destruct (bound_effect st lo hi a b Hlo Hhi eq_refl eq_refl Hr) as [_ [_ [_ [R1 [F1 [FS1 [S1 T1]]]]]]].
      fold st1 in R1, F1, FS1, S1, T1.
      pose proof (opnd_in_int32 lo Hlo) as Ia. pose proof (opnd_in_int32 hi Hhi) as Ib. fold a in Ia. fold b in Ib.
      (* operand and constant values are still the same in st2 *)
      assert (Rsame : forall k, ~ In k (random_scratch nm) -> rd (sc st2) k = rd (sc st) k).
      { intros k Hk'. destruct (not_in_random_scratch nm k Hk') as [_ [_ [_ [_ [N _]]]]].
        unfold rd at 1. rewrite F2 by exact Hk'. fold (rd (sc st1) k). now apply R1. }
      assert (Ea2 : opnd_val st2 lo = a).
      { subst a. destruct lo as [x|s]; cbn [opnd_val opnd_ok] in *; [reflexivity|]. now apply Rsame. }
      assert (Hld2 : kloaded nm st2 (random_ints lo)).
      { intros z Hz. unfold random_ints in Hz. destruct lo as [x|s]; [|destruct Hz].
        destruct (x =? INT_MIN) eqn:E; [|destruct Hz]. destruct Hz as [<-|[]]. apply Z.eqb_eq in E. subst x.
        destruct (kscore_not_scratch INT_MIN) as [NS|]; [|congruence].
        destruct (not_in_random_scratch nm _ NS) as [_ [_ [_ [_ [N _]]]]].
        rewrite F2 by exact NS. rewrite FS1; [| exact N |].
        - apply Hld. cbn. now left.
        - unfold is_set. rewrite (Hld INT_MIN); [discriminate|cbn; now left]. }
      assert (Hin : in_int32 (v + a)) by (unfold in_int32, INT_MIN, INT_MAX in *; lia).
      destruct (tail_effect st2 target lo v a Ht Hlo Hk Hld2 Hv Ea2 Hin) as [_ [E3 [R3 [F3 [S3 T3]]]]].
      unfold random_post. split; [|split; [|split]].
      - exists (v + a). split; [exact E3|lia].
      - intros k Nt Hk'. destruct (not_in_random_scratch nm k Hk') as [_ [Nr [_ [_ [Nb _]]]]].
        split.
        + rewrite R3 by assumption. now apply Rsame.
        + intros Hn. rewrite F3; [| exact Nt | exact Nr |].
          * rewrite F2 by exact Hk'. apply F1; [exact Nb|]. intros Hi. apply Hn.
            apply in_app_or in Hi as [Hi|Hi]; apply in_or_app; [now left|right; apply in_or_app; now left].
          * intros Hi. apply Hn.
            apply in_app_or in Hi as [Hi|Hi]; apply in_or_app; [now left|right; apply in_or_app; now right].
      - rewrite S3, S2. exact S1.
      - rewrite T3, T2. exact T1.
    Qed.

    (* partial correctness: for every multiplier/increment and every fuel *)
    Lemma random_partial fuel st' :
      exec_list ft env fuel (random_run nm target lo hi) st = Some st' ->
      random_post nm target lo hi a b st st'.
    Proof.
      intros H. unfold random_run in H. rewrite exec_list_app in H.
      destruct (bound_effect st lo hi a b Hlo Hhi eq_refl eq_refl Hr) as [Hp1 [Hne1 [B1 _]]].
      destruct (exec_list ft env fuel (random_bound_cmds nm lo hi) st) as [st1|] eqn:E1; [|discriminate].
      destruct (seq_prims_inv ft env fuel no_menv _ st st1 Hne1 Hp1 E1) as [f1 [-> ->]].
      rewrite exec_list_app in H. unfold exec_list at 1 in H. cbn [seq_run] in H.
      destruct (exec ft env (S f1) no_menv (CCall (random_main_name nm)) _) as [x|] eqn:E2; [|discriminate].
      destruct (random_main_partial ft env nm Hft _ Hr _ _ _ B1 E2) as [Hv F2].
      destruct x as [st2 r2]. cbn [fst] in *.
      assert (Hp3 : forallb is_prim (random_tail_cmds nm target lo) = true).
      { destruct lo as [x|s]; [|reflexivity]. unfold random_tail_cmds.
        destruct (x =? INT_MIN); [reflexivity|]. destruct (x <? 0); [reflexivity|]. destruct (0 <? x); reflexivity. }
      unfold exec_list in H. rewrite seq_prims in H by exact Hp3. injection H as <-.
      now apply random_finish.
    Qed.

    (* termination, with the multiplier and increment that setup.mcfunction stores *)
    Lemma random_total :
      sc st (rn_a nm) = Some LCG_A -> sc st (rn_c nm) = Some LCG_C ->
      exists fuel st', exec_list ft env fuel (random_run nm target lo hi) st = Some st'.
    Proof.
      intros Ha Hc.
      destruct (bound_effect st lo hi a b Hlo Hhi eq_refl eq_refl Hr) as [Hp1 [Hne1 [B1 [_ [_ [FS1 _]]]]]].
      set (st1 := run_prims (random_bound_cmds nm lo hi) st) in *.
      assert (Ha1 : sc st1 (rn_a nm) = Some LCG_A).
      { rewrite <- Ha. apply FS1; [sne|unfold is_set; congruence]. }
      assert (Hc1 : sc st1 (rn_c nm) = Some LCG_C).
      { rewrite <- Hc. apply FS1; [sne|unfold is_set; congruence]. }
      destruct (random_main_total ft env nm Hft _ Hr _ (lcg_always_reaches _ _ Hr) st1 eq_refl Ha1 Hc1 B1)
        as [f0 [[st2 r2] Hex]].
      assert (Hp3 : forallb is_prim (random_tail_cmds nm target lo) = true).
      { destruct lo as [x|s]; [|reflexivity]. unfold random_tail_cmds.
        destruct (x =? INT_MIN); [reflexivity|]. destruct (x <? 0); [reflexivity|]. destruct (0 <? x); reflexivity. }
      exists (S f0), (run_prims (random_tail_cmds nm target lo) st2).
      unfold random_run. rewrite exec_list_app.
      replace (exec_list ft env (S f0) (random_bound_cmds nm lo hi) st) with (Some st1)
        by (symmetry; apply seq_prims; exact Hp1).
      rewrite exec_list_app.
      replace (exec_list ft env (S f0) [CCall (random_main_name nm)] st1) with (Some st2).
      2:{ unfold exec_list. cbn [seq_run]. now rewrite (exec_mono ft env _ _ _ _ _ Hex (S f0)) by lia. }
      unfold exec_list. now apply seq_prims.
    Qed.
  End Run.
End RandomTop.

(* setup.mcfunction stores the multiplier and increment; __load__ runs it when the seed is unset *)
Lemma random_setup_effect ft env nm st :
  forallb wf_cmd (random_load_line nm :: random_setup_body nm) = true /\
  exists st', exec_list ft env 3 (random_setup_body nm) st = Some st' /\
    sc st' (rn_a nm) = Some LCG_A /\ sc st' (rn_c nm) = Some LCG_C /\ is_set st' (rn_seed nm) /\
    (forall k, k <> rn_a nm -> k <> rn_c nm -> k <> rn_seed nm -> sc st' k = sc st k).
Proof.
  split; [reflexivity|].
  set (e1 := EOther ("summon area_effect_cloud ~ ~ ~ {Tags:[""" ++ random_tag nm ++ """]}")%string).
  set (e2 := EOther ("data get entity @e[limit=1,type=area_effect_cloud,tag=" ++ random_tag nm ++ "] UUID[0] 1")%string).
  set (e3 := EOther ("kill @e[type=area_effect_cloud,tag=" ++ random_tag nm ++ "]")%string).
  exists (set_sc (set_sc (log (set_sc (log (log st e1) e2) (rn_seed nm) 1) e3) (rn_a nm) LCG_A) (rn_c nm) LCG_C).
  split; [reflexivity|]. unfold set_sc, log, is_set; cbn [sc].
  split; [|split; [|split]].
  - rewrite upd_other by sne. apply upd_same.
  - apply upd_same.
  - rewrite !upd_other by sne. rewrite upd_same. discriminate.
  - intros k N1 N2 N3. now rewrite !upd_other by congruence.
Qed.

(* ================================================================== final statements (Props/C20.v) *)
Theorem random_range_thm ft env nm target lo hi st :
  random_ft_ok nm ft ->
  ~ In target (random_scratch nm) -> opnd_ok nm lo -> opnd_ok nm hi ->
  (forall z, In z (random_ints lo) -> target <> kscore nm z) ->
  kloaded nm st (random_ints lo) -> int32_state st ->
  1 <= opnd_val st hi - opnd_val st lo + 1 <= INT_MAX ->
  forallb wf_cmd (random_run nm target lo hi ++ random_main_body nm) = true /\
  forall fuel st', exec_list ft env fuel (random_run nm target lo hi) st = Some st' ->
                   random_post nm target lo hi (opnd_val st lo) (opnd_val st hi) st st'.
Proof.
  intros Hft Ht Hlo Hhi Hk Hld H32 Hr. split.
  - apply random_wf. destruct lo as [a|s], hi as [b|t]; cbn [opnd_ok opnd_val] in *; auto.
  - intros fuel st'. now apply random_partial.
Qed.

Theorem random_correct_thm ft env nm target lo hi st :
  random_ft_ok nm ft ->
  ~ In target (random_scratch nm) -> opnd_ok nm lo -> opnd_ok nm hi ->
  (forall z, In z (random_ints lo) -> target <> kscore nm z) ->
  kloaded nm st (random_ints lo) -> int32_state st ->
  1 <= opnd_val st hi - opnd_val st lo + 1 <= INT_MAX ->
  sc st (rn_a nm) = Some LCG_A -> sc st (rn_c nm) = Some LCG_C ->
  exists fuel st', exec_list ft env fuel (random_run nm target lo hi) st = Some st' /\
                   random_post nm target lo hi (opnd_val st lo) (opnd_val st hi) st st'.
Proof.
  intros Hft Ht Hlo Hhi Hk Hld H32 Hr Ha Hc.
  assert (T : exists fuel st', exec_list ft env fuel (random_run nm target lo hi) st = Some st')
    by (eapply random_total; eauto).
  destruct T as [fuel [st' H]].
  exists fuel, st'. split; [exact H|]. eapply random_partial; eauto.
Qed.

(* what `execute if score tmp matches ..0` decides, for every fresh seed and bound *)
Theorem rejection_test_thm b s : 1 <= b <= INT_MAX -> in_int32 s ->
  (lcg_acc b s -> 0 < tmp_of b s) /\ (~ lcg_acc b s -> tmp_of b s <= 0).
Proof. intros Hb Hs. split; [intros H; now apply tmp_acc|now apply tmp_rej]. Qed.

(* `execute <mods> run <call>`: the commands moved into a private function behave as inline *)
Theorem wrapped_call_thm ft env fuel me f run st st' :
  ft f = Some run -> exec_list ft env fuel run st = Some st' ->
  exec ft env (S fuel) me (CCall f) st = Some (st', r_ok 0).
Proof. intros Hf H. now apply exec_call with (body := run). Qed.

(* ------------------------------------------------------------------ the pinned (unrepaired) MathRandom *)
(* What the pinned tree emitted for the bound and for the final addition of min;
   kept as a regression witness of the two defects repaired by the fix. *)
Definition random_bound_cmds_pinned (nm : names) (lo hi : opnd) : list cmd :=
  let bound := rn_bound nm in
  match lo, hi with
  | PLit a, PLit b => [CSet bound (b - a + 1)]
  | PScore s, PLit b => [CSet bound (b + 1); COp bound OSub s]
  | PLit a, PScore t => [CSet bound (- a + 1); COp bound OAdd t]
  | PScore s, PScore t => [COp bound OAssign t; COp bound OSub s; CAdd bound 1]
  end.
Definition random_tail_cmds_pinned (nm : names) (target : score) (lo : opnd) : list cmd :=
  COp target OAssign (rn_result nm) ::
  match lo with
  | PLit a => if a <? 0 then [CRemove target (- a)] else if 0 <? a then [CAdd target a] else []
  | PScore s => [COp target OAdd s]
  end.
Definition random_run_pinned (nm : names) (target : score) (lo hi : opnd) : list cmd :=
  random_bound_cmds_pinned nm lo hi ++ [CCall (random_main_name nm)] ++ random_tail_cmds_pinned nm target lo.

Definition demo_ft (nm : names) : string -> option (list cmd) :=
  fun f => if String.eqb f (random_main_name nm) then Some (random_main_body nm)
           else if String.eqb f (sqrt_main_name nm) then Some (sqrt_main_body nm)
           else if String.eqb f (sqrt_nr_name nm) then Some (sqrt_nr_body nm)
           else None.
Definition demo_state (l : list (score * Z)) : state :=
  mkState (fun k => match find (fun p => score_eqb (fst p) k) l with Some p => Some (snd p) | None => None end)
          (fun _ => None) [].

(* `$x = Math.random($x, 10)` with x = 3: the pinned code leaves 2 * r (r = result in 0..7), here 14 > 10 *)
Lemma random_alias_pinned_refuted :
  let nm := default_names in
  let x := vs nm "$x" in
  let st := demo_state [(x, 3); (rn_seed nm, 6); (rn_a nm, LCG_A); (rn_c nm, LCG_C)] in
  exists st', exec_list (demo_ft nm) (fun _ s => s) 20 (random_run_pinned nm x (PScore x) (PLit 10)) st = Some st' /\
              sc st' x = Some 14.
Proof. eexists. split; vm_compute; reflexivity. Qed.

(* `Math.random($lo)` / `Math.random(-2147483648, …)`: commands that Minecraft rejects *)
Lemma random_pinned_not_wf nm target s t :
  forallb wf_cmd (random_run_pinned nm target (PScore s) (PLit INT_MAX)) = false /\
  forallb wf_cmd (random_run_pinned nm target (PLit INT_MIN) (PScore t)) = false /\
  forallb wf_cmd (random_run_pinned nm target (PLit INT_MIN) (PLit (-5))) = false.
Proof. repeat split; reflexivity. Qed.
