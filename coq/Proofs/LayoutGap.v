(* Proofs.LayoutGap — round 5 of C15: the end of a STRING token is its RECORDED source end (Token._macro_end, set by
   Tokenizer.append_token at the closing quote) for EVERY character content; len(repr(string)) is irrelevant once the end
   is recorded, and is wrong (too far right) as a substitute whenever the literal holds a raw character whose repr() is
   longer than one column (TAB, DEL, control characters; outside ASCII: NBSP, soft hyphen, zero-width characters ...). *)
From Coq Require Import ZArith String List Bool Ascii Lia.
From JMCV Require Import Model.Layout.
Import ListNotations.
Open Scope Z_scope.

(* a STRING token at (l, c) whose literal occupies n source columns on line l, with the recorded end *)
Definition lit_tok (l c n : Z) (s : str) (g : bool) : token := mkTok STRING l c s 0 (Some (l, c + n)) g.
(* the same token without the record (what a tokenizer that does not record the end hands over) *)
Definition lit_tok_norec (l c : Z) (s : str) (g : bool) : token := mkTok STRING l c s 0 None g.
(* any token that starts k columns after the literal's closing quote, on the same line *)
Definition after_gap (cur : token) (l c n k : Z) : Prop := t_line cur = l /\ t_col cur = c + n + k.

Lemma pos_eqb_spec a b : pos_eqb a b = true <-> a = b.
Proof.
  destruct a as [a1 a2], b as [b1 b2]; unfold pos_eqb; cbn.
  rewrite andb_true_iff, !Z.eqb_eq. split; [intros [-> ->]; reflexivity | intros H; inversion H; auto].
Qed.

(* the recorded end decides: for every type, text, _macro_length of the previous token *)
Lemma recorded_end_decides :
  forall cur prev e, t_mend prev = Some e -> is_connected cur prev = pos_eqb e (t_line cur, t_col cur).
Proof. intros cur prev e H. unfold is_connected, tok_end. rewrite H. reflexivity. Qed.

(* a literal with a recorded end: glued iff the gap is empty - whatever its characters are *)
Lemma gap_decides :
  forall l c n s g cur k, after_gap cur l c n k ->
    is_connected cur (lit_tok l c n s g) = (k =? 0).
Proof.
  intros l c n s g cur k [Hl Hc]. rewrite (recorded_end_decides cur _ (l, c + n)) by reflexivity.
  unfold pos_eqb; cbn. rewrite Hl, Hc, Z.eqb_refl; cbn.
  destruct (Z.eqb_spec k 0) as [-> | Hk]; [apply Z.eqb_eq; lia | apply Z.eqb_neq; lia].
Qed.

(* two layouts that differ only in the WIDTH of a non-empty gap (and in where the literal stands): same decision *)
Lemma gap_width_irrelevant :
  forall l c n s g cur k l' c' g' cur' k',
    0 < k -> 0 < k' -> after_gap cur l c n k -> after_gap cur' l' c' n k' ->
    is_connected cur (lit_tok l c n s g) = is_connected cur' (lit_tok l' c' n s g').
Proof.
  intros. rewrite (gap_decides l c n s g cur k), (gap_decides l' c' n s g' cur' k') by assumption.
  destruct (Z.eqb_spec k 0), (Z.eqb_spec k' 0); try lia; reflexivity.
Qed.

(* the next token on another line is never glued to a one-line literal *)
Lemma other_line_apart :
  forall l c n s g cur, t_line cur <> l -> is_connected cur (lit_tok l c n s g) = false.
Proof.
  intros. rewrite (recorded_end_decides cur _ (l, c + n)) by reflexivity. unfold pos_eqb; cbn.
  destruct (Z.eqb_spec l (t_line cur)); [congruence | reflexivity].
Qed.

(* WITHOUT the record the decision is made from len(repr(string)): glued iff the gap is exactly repr_len s - n wide *)
Lemma unrecorded_end_decides :
  forall l c n s g cur k, after_gap cur l c n k ->
    is_connected cur (lit_tok_norec l c s g) = (k =? repr_len s - n).
Proof.
  intros l c n s g cur k [Hl Hc]. unfold is_connected, tok_end, lit_tok_norec, tok_length, pos_eqb.
  cbn [t_mend t_ty t_line t_col t_str fst snd]. generalize (repr_len s) as rl. intros rl.
  rewrite Hl, Hc, Z.eqb_refl. cbn [andb].
  destruct (Z.eqb_spec k (rl - n)); [apply Z.eqb_eq; lia | apply Z.eqb_neq; lia].
Qed.

(* every raw character of the class costs repr() at least one extra column: a literal written without backslashes
   (source width = characters + 2 quotes) that holds a TAB has a repr() strictly longer than its source text *)
Definition rl_char (e : bool) (c : ascii) : Z :=
  if Ascii.eqb c BSLASH then 2
  else if Ascii.eqb c NL || Ascii.eqb c TAB || Ascii.eqb c CR then 2
  else if Ascii.eqb c SQ then (if e then 2 else 1)
  else if Nat.ltb (nat_of_ascii c) 32 || Nat.eqb (nat_of_ascii c) 127 then 4
  else 1.
Definition rl_body (e : bool) (s : str) : Z := fold_right (fun c acc => rl_char e c + acc) 0 s.
Lemma repr_len_body : forall s, repr_len s = 2 + rl_body (has_char SQ s && has_char DQ s) s.
Proof. reflexivity. Qed.
Lemma rl_char_ge : forall e c, 1 <= rl_char e c.
Proof. intros e c. unfold rl_char. repeat match goal with |- context [if ?q then _ else _] => destruct q end; lia. Qed.
Lemma rl_body_ge : forall e s, len s <= rl_body e s.
Proof.
  intros e s. induction s as [| a r IH]; [cbn; lia |].
  unfold len in *. change (rl_body e (a :: r)) with (rl_char e a + rl_body e r).
  change (length (a :: r)) with (S (length r)). rewrite Nat2Z.inj_succ. pose proof (rl_char_ge e a). lia.
Qed.
Lemma rl_body_tab : forall e a b, len (a ++ TAB :: b) < rl_body e (a ++ TAB :: b).
Proof.
  intros e a b. induction a as [| x r IH].
  - change (rl_body e ([] ++ TAB :: b)) with (2 + rl_body e b). pose proof (rl_body_ge e b).
    unfold len in *. change (length ([] ++ TAB :: b)) with (S (length b)). rewrite Nat2Z.inj_succ. lia.
  - change (rl_body e ((x :: r) ++ TAB :: b)) with (rl_char e x + rl_body e (r ++ TAB :: b)).
    unfold len in *. change (length ((x :: r) ++ TAB :: b)) with (S (length (r ++ TAB :: b))). rewrite Nat2Z.inj_succ.
    pose proof (rl_char_ge e x). lia.
Qed.

Lemma repr_len_ge : forall s, len s + 2 <= repr_len s.
Proof. intros s. rewrite repr_len_body. pose proof (rl_body_ge (has_char SQ s && has_char DQ s) s). lia. Qed.

Lemma repr_len_tab : forall a b, len (a ++ TAB :: b) + 2 < repr_len (a ++ TAB :: b).
Proof.
  intros a b. rewrite repr_len_body.
  pose proof (rl_body_tab (has_char SQ (a ++ TAB :: b) && has_char DQ (a ++ TAB :: b)) a b). lia.
Qed.

(* refutation of the unrecorded end: a literal "a<TAB>key" at column 12, a `{` ONE blank behind its closing quote
   is judged glued (and a `{` right behind the quote is judged apart) *)
Definition tab_lit : str := [ch "a"; TAB; ch "k"; ch "e"; ch "y"].
Lemma unrecorded_end_wrong :
  let prev := lit_tok_norec 1 12 tab_lit false in
  is_connected (mkTok PAREN_CURLY 1 20 [ch "{"; ch "}"] 0 None false) prev = true /\
  is_connected (mkTok PAREN_CURLY 1 19 [ch "{"; ch "}"] 0 None true) prev = false.
Proof. split; vm_compute; reflexivity. Qed.
