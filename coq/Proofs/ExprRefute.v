(* Proofs.ExprRefute — what it means for the (faithful) model output to violate property C02 on a
   concrete statement and initial state, and the concrete witnesses, one per defect class (tag). *)
From Coq Require Import ZArith String List Bool Lia.
From JMCV Require Import Base.Int32 Base.Dec MC.Syntax MC.Sem MC.Facts Model.Names Model.VarOp Proofs.VarOp
     Model.Expr Model.ExprSpec Model.ExprFront Model.ExprBack.
Import ListNotations.
Open Scope Z_scope.

Record witness := mkW {
  w_target : svar;
  w_form : opc;                       (* PEmpty is `:=` *)
  w_e : expr;
  w_init : list (score * Z)           (* initial scores; the constants JMC materialises in __load__ are added *)
}.

Definition nm0 := default_names.
Definition lookup (l : list (score * Z)) (k : score) : option Z :=
  match find (fun p => score_eqb (fst p) k) l with Some p => Some (snd p) | None => None end.
Definition st_of (l : list (score * Z)) : state := mkState (lookup l) (fun _ => None) [].
Definition w_state (w : witness) (ints : list Z) : state :=
  st_of (map (fun z => (int_score nm0 z, z)) ints ++ w_init w).
Definition w_score (w : witness) : score := score_of nm0 (w_target w).
Definition model_run (w : witness) : M (list cmd * list Z) :=
  compile_expr nm0 (w_score w) (w_form w) (w_e w).
(* the value the property demands in the target *)
Definition expected (w : witness) : option Z :=
  let f := rd (lookup (w_init w)) in
  match eval nm0 f (w_e w) with
  | Some v => form_sem (w_form w) (f (w_score w)) v
  | None => None
  end.
Definition no_ft : string -> option (list cmd) := fun _ => None.
Definition no_env : nat -> state -> state := fun _ s => s.

(* the statement, compiled by the model (= the real compiler, by the correspondence), violates the
   property, and the tag t fired on the way *)
Inductive violates (w : witness) (t : tag) : Prop :=
| V_wrong_value cmds ints tags st' v :
    model_run w = (Ok (cmds, ints), tags) -> In t tags ->
    loaded nm0 (w_state w ints) ints ->
    exec_list no_ft no_env 1 cmds (w_state w ints) = Some st' ->
    expected w = Some v -> sc st' (w_score w) <> Some v ->
    violates w t
| V_invalid_command cmds ints tags v :
    model_run w = (Ok (cmds, ints), tags) -> In t tags -> expected w = Some v ->
    forallb wf_cmd (cmds ++ load_ints nm0 ints) = false ->
    violates w t
| V_rejected msg tags v :
    model_run w = (Diag msg, tags) -> In t tags -> expected w = Some v -> violates w t
| V_internal_error exc tags :
    model_run w = (Crash exc, tags) -> In t tags -> violates w t.

Definition sx : score := ("$x", "__variable__")%string.
Definition sa : score := ("$a", "__variable__")%string.
Definition sb : score := ("$b", "__variable__")%string.
Definition sc_ : score := ("$c", "__variable__")%string.
Definition sd : score := ("$d", "__variable__")%string.
Definition X := SDollar "$x". Definition A := EVar (SDollar "$a"). Definition B := EVar (SDollar "$b").
Definition C := EVar (SDollar "$c"). Definition D := EVar (SDollar "$d"). Definition XE := EVar (SDollar "$x").

Ltac wrong := eapply V_wrong_value;
  [ vm_compute; reflexivity | vm_compute; auto 10
  | intros z Hz; vm_compute in Hz; repeat (destruct Hz as [<-|Hz]; [vm_compute; reflexivity|]); destruct Hz
  | vm_compute; reflexivity | vm_compute; reflexivity | vm_compute; congruence ].

(* $x := $a + $b * $c * $d   computes (a + b*c) * d *)
Definition w_parse := mkW X PEmpty (EBin BAdd A (EBin BMul (EBin BMul B C) D)) [(sa, 1); (sb, 1); (sc_, 1); (sd, 2)].
Lemma refuted_parse : lits_ok (w_e w_parse) = true /\ violates w_parse T_parse_pop_lower.
Proof. split; [reflexivity|]. wrong. Qed.

(* $x := $b / -$a   computes (b / -1) * a *)
Definition w_neg := mkW X PEmpty (EBin BDiv B (ENeg A)) [(sa, 2); (sb, 7)].
Lemma refuted_neg : lits_ok (w_e w_neg) = true /\ violates w_neg T_neg_after_tight.
Proof. split; [reflexivity|]. wrong. Qed.

(* $x :+= -$a   is rejected: "Unrecognized expression token" *)
Definition w_iop_minus := mkW X PAdd (ENeg A) [(sa, 2); (sx, 1)].
Lemma refuted_iop_minus : lits_ok (w_e w_iop_minus) = true /\ violates w_iop_minus T_iop_leading_minus.
Proof. split; [reflexivity|]. eapply V_rejected; [vm_compute; reflexivity|vm_compute; auto 10|vm_compute; reflexivity]. Qed.

(* $x :+= $a * 2   computes (x + a) * 2 *)
Definition w_iop := mkW X PAdd (EBin BMul A (EConst 2)) [(sa, 1); (sx, 1)].
Lemma refuted_iop : lits_ok (w_e w_iop) = true /\ violates w_iop T_iop_inject.
Proof. split; [reflexivity|]. wrong. Qed.

(* $x := 0 - $a * $b + $x   overwrites $x (the renamed temporary) before reading it *)
Definition w_reuse := mkW X PEmpty (EBin BAdd (EBin BSub (EConst 0) (EBin BMul A B)) XE) [(sa, 1); (sb, 1); (sx, 5)].
Lemma refuted_reuse : lits_ok (w_e w_reuse) = true /\ violates w_reuse T_inject_reused_temp.
Proof. split; [reflexivity|]. wrong. Qed.

(* $x := (1 + 2) - (3 + 4)   is folded to -10 *)
Definition w_subfold := mkW X PEmpty (EBin BSub (EBin BAdd (EConst 1) (EConst 2)) (EBin BAdd (EConst 3) (EConst 4))) [].
Lemma refuted_subfold : lits_ok (w_e w_subfold) = true /\ violates w_subfold T_sub_rewrite_fold.
Proof. split; [reflexivity|]. wrong. Qed.

(* $x := (-3) ** 2   is folded to -9 *)
Definition w_pow := mkW X PEmpty (EBin BPow (EConst (-3)) (EConst 2)) [].
Lemma refuted_pow : lits_ok (w_e w_pow) = true /\ violates w_pow T_fold_pow_negbase.
Proof. split; [reflexivity|]. wrong. Qed.

(* $x := $a ** $b   is rejected *)
Definition w_pownc := mkW X PEmpty (EBin BPow A B) [(sa, 2); (sb, 3)].
Lemma refuted_pownc : lits_ok (w_e w_pownc) = true /\ violates w_pownc T_pow_nonconst.
Proof. split; [reflexivity|]. eapply V_rejected; [vm_compute; reflexivity|vm_compute; auto 10|vm_compute; reflexivity]. Qed.

(* $x := $a - 3 - 2   computes a + 5 *)
Definition w_minus := mkW X PEmpty (EBin BSub (EBin BSub A (EConst 3)) (EConst 2)) [(sa, 10)].
Lemma refuted_minus : lits_ok (w_e w_minus) = true /\ violates w_minus T_opt_final_minus.
Proof. split; [reflexivity|]. wrong. Qed.

(* $x := $a / 3 / -2   computes a / -6 *)
Definition w_div := mkW X PEmpty (EBin BDiv (EBin BDiv A (EConst 3)) (EConst (-2))) [(sa, 1)].
Lemma refuted_div : lits_ok (w_e w_div) = true /\ violates w_div T_opt_final_div.
Proof. split; [reflexivity|]. wrong. Qed.

(* $x := 7 % $a % 3   computes (7 % 3) % a *)
Definition w_mod := mkW X PEmpty (EBin BMod (EBin BMod (EConst 7) A) (EConst 3)) [(sa, 5)].
Lemma refuted_mod : lits_ok (w_e w_mod) = true /\ violates w_mod T_opt_final_mod.
Proof. split; [reflexivity|]. wrong. Qed.

(* $x := ($a - 3 - 2) * $b   computes (a - 1) * b *)
Definition w_mid := mkW X PEmpty (EBin BMul (EBin BSub (EBin BSub A (EConst 3)) (EConst 2)) B) [(sa, 10); (sb, 1)].
Lemma refuted_mid : lits_ok (w_e w_mid) = true /\ violates w_mid T_opt_mid_merge.
Proof. split; [reflexivity|]. wrong. Qed.

(* $x := $a + -2147483648   emits `scoreboard players remove $x __variable__ 2147483648` *)
Definition w_range := mkW X PEmpty (EBin BAdd A (EConst (-2147483648))) [(sa, 1)].
Lemma refuted_range : lits_ok (w_e w_range) = true /\ violates w_range T_const_range.
Proof. split; [reflexivity|]. eapply V_invalid_command; [vm_compute; reflexivity|vm_compute; auto 10|vm_compute; reflexivity|vm_compute; reflexivity]. Qed.

(* $x := 1 / 0   ZeroDivisionError escapes *)
Definition w_crash := mkW X PEmpty (EBin BDiv (EConst 1) (EConst 0)) [].
Lemma refuted_crash : lits_ok (w_e w_crash) = true /\ violates w_crash T_crash_fold.
Proof. split; [reflexivity|]. eapply V_internal_error; [vm_compute; reflexivity|vm_compute; auto 10]. Qed.

(* $x := ($x ** 0) ** 2   emits only `$x = $x`: `t = 1; t *= t` is reordered to `t = t; t *= 1` *)
Definition w_swap := mkW X PEmpty (EBin BPow (EPar (EBin BPow XE (EConst 0))) (EConst 2)) [(sx, 5)].
Lemma refuted_swap : lits_ok (w_e w_swap) = true /\ violates w_swap T_opt_swap_self.
Proof. split; [reflexivity|]. wrong. Qed.

(* $x := ($a * 2) ** 2 * 3   computes (a * 6) ** 2: constants merged across the squaring `x *= x` *)
Definition w_mself := mkW X PEmpty (EBin BMul (EBin BPow (EPar (EBin BMul A (EConst 2))) (EConst 2)) (EConst 3)) [(sa, 1)].
Lemma refuted_mself : lits_ok (w_e w_mself) = true /\ violates w_mself T_opt_merge_self.
Proof. split; [reflexivity|]. wrong. Qed.
