(* Proofs.ExprRefute — what it means for the (faithful) model output to violate property C02 on a
   concrete statement and initial state; the witness of the one class the repaired code still has
   (`**` needs a constant exponent); and the statements that witnessed the 15 repaired classes,
   now compiled to commands that compute the right value (checked by computation on the model). *)
From Coq Require Import ZArith String List Bool Lia.
From JMCV Require Import Base.Int32 Base.Dec MC.Syntax MC.Sem MC.Facts Model.Names Model.VarOp Proofs.VarOp
     Model.Expr Model.ExprSpec Model.ExprFront Model.ExprBack.
Import ListNotations.
Open Scope Z_scope.

Record witness := mkW {
  w_target : svar;
  w_form : opc;                       (* PEmpty is `:=` *)
  w_e : expr;
  w_init : list (score * Z)           (* initial scores; the constants JMC materialises in __load__ are added *)
}.

Definition nm0 := default_names.
Definition lookup (l : list (score * Z)) (k : score) : option Z :=
  match find (fun p => score_eqb (fst p) k) l with Some p => Some (snd p) | None => None end.
Definition st_of (l : list (score * Z)) : state := mkState (lookup l) (fun _ => None) [].
Definition w_state (w : witness) (ints : list Z) : state :=
  st_of (map (fun z => (int_score nm0 z, z)) ints ++ w_init w).
Definition w_score (w : witness) : score := score_of nm0 (w_target w).
Definition model_run (w : witness) : M (list cmd * list Z) :=
  compile_expr nm0 (w_score w) (w_form w) (w_e w).
(* the value the property demands in the target *)
Definition expected (w : witness) : option Z :=
  let f := rd (lookup (w_init w)) in
  match eval nm0 f (w_e w) with
  | Some v => form_sem (w_form w) (f (w_score w)) v
  | None => None
  end.
Definition no_ft : string -> option (list cmd) := fun _ => None.
Definition no_env : nat -> state -> state := fun _ s => s.

(* the statement, compiled by the model (= the real compiler, by the correspondence), violates the
   property, and the tag t fired on the way *)
Inductive violates (w : witness) (t : tag) : Prop :=
| V_wrong_value cmds ints tags st' v :
    model_run w = (Ok (cmds, ints), tags) -> In t tags ->
    loaded nm0 (w_state w ints) ints ->
    exec_list no_ft no_env 1 cmds (w_state w ints) = Some st' ->
    expected w = Some v -> sc st' (w_score w) <> Some v ->
    violates w t
| V_invalid_command cmds ints tags v :
    model_run w = (Ok (cmds, ints), tags) -> In t tags -> expected w = Some v ->
    forallb wf_cmd (cmds ++ load_ints nm0 ints) = false ->
    violates w t
| V_rejected msg tags v :
    model_run w = (Diag msg, tags) -> In t tags -> expected w = Some v -> violates w t
| V_internal_error exc tags :
    model_run w = (Crash exc, tags) -> In t tags -> violates w t.

Definition sx : score := ("$x", "__variable__")%string.
Definition sa : score := ("$a", "__variable__")%string.
Definition sb : score := ("$b", "__variable__")%string.
Definition sc_ : score := ("$c", "__variable__")%string.
Definition sd : score := ("$d", "__variable__")%string.
Definition X := SDollar "$x". Definition A := EVar (SDollar "$a"). Definition B := EVar (SDollar "$b").
Definition C := EVar (SDollar "$c"). Definition D := EVar (SDollar "$d"). Definition XE := EVar (SDollar "$x").

(* $x := $a ** $b   is rejected *)
Definition w_pownc := mkW X PEmpty (EBin BPow A B) [(sa, 2); (sb, 3)].
Lemma refuted_pownc : lits_ok (w_e w_pownc) = true /\ violates w_pownc T_pow_nonconst.
Proof. split; [reflexivity|]. eapply V_rejected; [vm_compute; reflexivity|vm_compute; auto 10|vm_compute; reflexivity]. Qed.

(* ------------------------------------------------------------------ the repaired classes *)
(* the statement compiles without firing a tag, its commands are accepted and run to completion, and
   the target holds the demanded value (when there is one: `1 / 0` has none and is rejected with a diagnostic) *)
Definition holds_b (w : witness) : bool :=
  match model_run w, expected w with
  | (Ok (cmds, ints), []), Some v =>
      forallb wf_cmd (cmds ++ load_ints nm0 ints) &&
      match exec_list no_ft no_env 1 cmds (w_state w ints) with
      | Some st' => match sc st' (w_score w) with Some x => x =? v | None => false end
      | None => false
      end
  | (Diag _, []), None => true
  | _, _ => false
  end.

Definition w_parse := mkW X PEmpty (EBin BAdd A (EBin BMul (EBin BMul B C) D)) [(sa, 1); (sb, 1); (sc_, 1); (sd, 2)].
Definition w_neg := mkW X PEmpty (EBin BDiv B (ENeg A)) [(sa, 2); (sb, 7)].
Definition w_iop_minus := mkW X PAdd (ENeg A) [(sa, 2); (sx, 1)].
Definition w_iop := mkW X PAdd (EBin BMul A (EConst 2)) [(sa, 1); (sx, 1)].
Definition w_reuse := mkW X PEmpty (EBin BAdd (EBin BSub (EConst 0) (EBin BMul A B)) XE) [(sa, 1); (sb, 1); (sx, 5)].
Definition w_subfold := mkW X PEmpty (EBin BSub (EBin BAdd (EConst 1) (EConst 2)) (EBin BAdd (EConst 3) (EConst 4))) [].
Definition w_pow := mkW X PEmpty (EBin BPow (EConst (-3)) (EConst 2)) [].
Definition w_minus := mkW X PEmpty (EBin BSub (EBin BSub A (EConst 3)) (EConst 2)) [(sa, 10)].
Definition w_div := mkW X PEmpty (EBin BDiv (EBin BDiv A (EConst 3)) (EConst (-2))) [(sa, 1)].
Definition w_mod := mkW X PEmpty (EBin BMod (EBin BMod (EConst 7) A) (EConst 3)) [(sa, 5)].
Definition w_mid := mkW X PEmpty (EBin BMul (EBin BSub (EBin BSub A (EConst 3)) (EConst 2)) B) [(sa, 10); (sb, 1)].
Definition w_range := mkW X PEmpty (EBin BAdd A (EConst (-2147483648))) [(sa, 1)].
Definition w_crash := mkW X PEmpty (EBin BDiv (EConst 1) (EConst 0)) [].
Definition w_swap := mkW X PEmpty (EBin BPow (EPar (EBin BPow XE (EConst 0))) (EConst 2)) [(sx, 5)].
Definition w_mself := mkW X PEmpty (EBin BMul (EBin BPow (EPar (EBin BMul A (EConst 2))) (EConst 2)) (EConst 3)) [(sa, 1)].
Definition w_nowrap := mkW X PEmpty (EBin BDiv (EBin BMul (EConst 1000000) (EConst 46341)) (EConst 46341)) [].
Definition w_float := mkW X PEmpty (EBin BMul (EBin BDiv (EConst 7) (EConst 2)) (EConst 2)) [].
Definition w_huge := mkW X PEmpty (EBin BPow (EConst 2) (EBin BPow (EConst 7) (EConst 7))) [].

Definition repaired_witnesses : list witness :=
  [w_parse; w_neg; w_iop_minus; w_iop; w_reuse; w_subfold; w_pow; w_minus; w_div; w_mod; w_mid;
   w_range; w_crash; w_swap; w_mself; w_nowrap; w_float; w_huge].

Lemma repaired_hold : forallb holds_b repaired_witnesses = true.
Proof. vm_compute. reflexivity. Qed.
