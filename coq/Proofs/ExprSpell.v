(* Proofs.ExprSpell — the spelling of a selector (blanks, tabs, line breaks in its bracket) is
   irrelevant: `clean_sel` is idempotent and the identity on compact text; the meaning of an
   expression (`eval`) and EVERYTHING the pipeline does with it (`compile_expr`: commands, constants,
   tags, diagnostics) depend on its variables only through `score_of`, i.e. through the CLEANED
   selector text — for the target and for each operand alike. *)
From Coq Require Import ZArith String Ascii List Bool.
From JMCV Require Import Base.Int32 Base.Dec MC.Syntax MC.Print Model.Names Model.VarOp Model.Expr Model.ExprSpec
     Model.ExprFront Model.ExprBack Proofs.ExprParse Proofs.ExprRefute.
Import ListNotations.

(* ------------------------------------------------------------------ clean_sel *)
Lemma dquote_not_blank c : is_dquote c = true -> is_blank c = false.
Proof. unfold is_dquote. intros H. apply Ascii.eqb_eq in H. subst c. reflexivity. Qed.

Lemma clean_from_idem s : forall b, clean_from b (clean_from b s) = clean_from b s.
Proof.
  induction s as [|c r IH]; intros b; [reflexivity|].
  cbn [clean_from]. destruct (is_dquote c) eqn:Q.
  - rewrite (dquote_not_blank c Q), andb_false_r. cbn [clean_from].
    rewrite Q, (dquote_not_blank c Q), andb_false_r. now rewrite IH.
  - destruct (negb b && is_blank c) eqn:B; [apply IH|].
    cbn [clean_from]. rewrite Q, B. now rewrite IH.
Qed.
Lemma clean_sel_idem s : clean_sel (clean_sel s) = clean_sel s.
Proof. apply clean_from_idem. Qed.

Fixpoint no_blank (s : string) : bool :=
  match s with EmptyString => true | String c r => negb (is_blank c) && no_blank r end.
Lemma clean_from_compact s : forall b, no_blank s = true -> clean_from b s = s.
Proof.
  induction s as [|c r IH]; intros b H; [reflexivity|].
  cbn [no_blank] in H. apply andb_true_iff in H. destruct H as [Hc Hr]. apply negb_true_iff in Hc.
  cbn [clean_from]. rewrite Hc, andb_false_r. now rewrite IH.
Qed.
Lemma clean_sel_compact s : no_blank s = true -> clean_sel s = s.
Proof. apply clean_from_compact. Qed.

(* two spellings of a selector that clean to the same text are the same score: as the target of
   the statement, as an operand, and in the meaning of the expression *)
Lemma spelling_irrelevant nm o s1 s2 :
  clean_sel s1 = clean_sel s2 ->
  score_of nm (SObjSel o s1) = score_of nm (SObjSel o s2) /\
  (forall rdv, eval nm rdv (EVar (SObjSel o s1)) = eval nm rdv (EVar (SObjSel o s2))) /\
  (forall form e, compile_expr nm (score_of nm (SObjSel o s1)) form e
                  = compile_expr nm (score_of nm (SObjSel o s2)) form e).
Proof.
  intros H. assert (E : score_of nm (SObjSel o s1) = score_of nm (SObjSel o s2)) by (cbn; now rewrite H).
  split; [exact E|]. split; [intros rdv; cbn [eval]; now rewrite E|intros form e; now rewrite E].
Qed.

(* ------------------------------------------------------------------ re-spelling an expression *)
Fixpoint retok (f : svar -> svar) (t : tok) : tok :=
  match t with
  | KVarT v => KVarT (f v)
  | KParen l => KParen (map (retok f) l)
  | _ => t
  end.

Section TokInd.
  Variable P : tok -> Prop.
  Hypothesis Hnum : forall z, P (KNum z).
  Hypothesis Hvar : forall v, P (KVarT v).
  Hypothesis Hop : forall o, P (KOp o).
  Hypothesis Hpar : forall l, Forall P l -> P (KParen l).
  Fixpoint tok_nested_ind (t : tok) : P t :=
    match t with
    | KNum z => Hnum z
    | KVarT v => Hvar v
    | KOp o => Hop o
    | KParen l =>
        Hpar l ((fix go (l : list tok) : Forall P l :=
                   match l with
                   | [] => Forall_nil P
                   | x :: r => Forall_cons x (tok_nested_ind x) (go r)
                   end) l)
    end.
End TokInd.

Lemma lvl_respell f e : lvl (respell f e) = lvl e.
Proof. destruct e; reflexivity. Qed.

Lemma render_respell f e : render (respell f e) = map (retok f) (render e).
Proof.
  induction e as [v|z|e IH|e IH|o l IHl r IHr]; cbn [respell render].
  - reflexivity.
  - destruct (z <? 0)%Z; reflexivity.
  - rewrite lvl_respell, IH. destruct (Nat.ltb (lvl e) 5); reflexivity.
  - rewrite IH. reflexivity.
  - rewrite !lvl_respell, IHl, IHr, !map_app.
    destruct (Nat.ltb (lvl l) (need_l o)), (Nat.ltb (lvl r) (need_r o)); reflexivity.
Qed.

Section Respell.
  Variable nm : names.
  Variable f : svar -> svar.
  Hypothesis Hf : same_scores nm f.

  Lemma eval_respell rdv e : eval nm rdv (respell f e) = eval nm rdv e.
  Proof.
    induction e as [v|z|e IH|e IH|o l IHl r IHr]; cbn [respell eval].
    - now rewrite Hf.
    - reflexivity.
    - now rewrite IH.
    - exact IH.
    - now rewrite IHl, IHr.
  Qed.

  Lemma ttt_list_ext l1 l2 :
    Forall2 (fun a b => forall st, ttt_tok nm a st = ttt_tok nm b st) l1 l2 ->
    forall st, ttt_list nm l1 st = ttt_list nm l2 st.
  Proof.
    induction 1 as [|a b r1 r2 Hab _ IH]; intros st; [reflexivity|].
    cbn [ttt_list]. rewrite Hab. destruct (ttt_tok nm b st) as [[x| | | ] tg]; cbn; try reflexivity.
    now rewrite IH.
  Qed.

  Lemma ttt_tok_retok t : forall st, ttt_tok nm (retok f t) st = ttt_tok nm t st.
  Proof.
    induction t as [z|v|o|l IH] using tok_nested_ind; intros [rt hang]; cbn [retok]; try reflexivity.
    - cbn [ttt_tok]. now rewrite Hf.
    - cbn [ttt_tok]. rewrite !ttt_inner.
      rewrite (ttt_list_ext (map (retok f) l) l); [reflexivity|].
      induction IH as [|x r Hx _ IHr]; cbn [map]; constructor; [exact Hx|exact IHr].
  Qed.

  Lemma compile_expr_respell out form e :
    compile_expr nm out form (respell f e) = compile_expr nm out form e.
  Proof.
    unfold compile_expr, compile_assign. rewrite render_respell.
    assert (E : tokens_to_tokens nm (map (retok f) (render e)) = tokens_to_tokens nm (render e)).
    { unfold tokens_to_tokens. rewrite (ttt_list_ext (map (retok f) (render e)) (render e)); [reflexivity|].
      induction (render e) as [|x r IH]; cbn [map]; constructor; [apply ttt_tok_retok|exact IH]. }
    rewrite E. destruct (render e); reflexivity.
  Qed.
End Respell.

(* the statement  target :<form>= e  and the same statement with every selector — target and
   operands — spelled differently: same score, same meaning, same output of the pipeline *)
Lemma respell_irrelevant nm f target form e :
  same_scores nm f ->
  score_of nm (f target) = score_of nm target /\
  (forall rdv, eval nm rdv (respell f e) = eval nm rdv e) /\
  compile_expr nm (score_of nm (f target)) form (respell f e) = compile_expr nm (score_of nm target) form e.
Proof.
  intros Hf. split; [apply Hf|]. split; [intros rdv; now apply eval_respell|].
  rewrite Hf. now apply compile_expr_respell.
Qed.

Lemma canon_same_scores nm : same_scores nm canon_svar.
Proof. intros [n|o s]; cbn; [reflexivity|now rewrite clean_sel_idem]. Qed.

(* ------------------------------------------------------------------ the seeded-bug shape, by computation *)
(* obj:@e[tag=x, limit=1] := $a * 2 + obj:@e[tag=x,<newline> limit=1 ]   from a = 6, old target = 1 *)
Definition spell_t : svar := SObjSel "obj" "@e[tag=x, limit=1]".
Definition spell_t' : svar := SObjSel "obj" "@e[tag=x,
 limit=1 ]".
Definition spell_holder : score := ("@e[tag=x,limit=1]", "obj")%string.
Definition w_spell : witness :=
  mkW spell_t PEmpty (EBin BAdd (EBin BMul A (EConst 2)) (EVar spell_t')) [(sa, 6%Z); (spell_holder, 1%Z)].
Definition spell_text : string :=
  ("scoreboard players operation __temp0__ __variable__ = $a __variable__" ++ String "010" "" ++
   "scoreboard players operation __temp0__ __variable__ *= 2 __int__" ++ String "010" "" ++
   "scoreboard players operation @e[tag=x,limit=1] obj += __temp0__ __variable__")%string.

Lemma spell_example :
  score_of nm0 spell_t = spell_holder /\ score_of nm0 spell_t' = spell_holder /\
  spell_t <> spell_t' /\
  (exists cmds ints, model_run w_spell = (Ok (cmds, ints), []) /\ pr_cmds cmds = spell_text) /\
  expected w_spell = Some 13%Z /\ holds_b w_spell = true.
Proof.
  split; [reflexivity|]. split; [reflexivity|]. split; [discriminate|].
  split; [|split; vm_compute; reflexivity].
  eexists _, _. split; vm_compute; reflexivity.
Qed.
