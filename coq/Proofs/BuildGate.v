(* Proofs.BuildGate — the build behind its two input checks ([Build.gate]: header namespaces, resource paths).
   [Build.run] = [Build.run_core] on the gated outcome.  Proofs/Build.v, BuildC10.v, BuildC11.v are about the core for
   EVERY outcome of the front end; this file carries their theorems over to [run] / [plan] (the statements of
   Props/C10.v, Props/C11.v) and proves what the checks add:
   - paths_lexical: every mutation of a plan is spelled with plain names (no "", ".", "..", no separator inside a
     segment) or lies below a territory folder spelled that way — the lexical territory of C10 is the real one;
   - statics_pointwise: a node inside a #static folder changes only where the build itself writes;
   - witnesses: resource path with "..", dropped #override, stale own entry in a shielded tick.json. *)
From Coq Require Import String Ascii List Bool Arith Lia.
From JMCV Require Import Model.FS Model.Build Proofs.FS Proofs.Build Proofs.BuildC10 Proofs.BuildC11.
Import ListNotations.
Open Scope string_scope.
Open Scope list_scope.

(* ------------------------------------------------------------------ the gate *)
Lemma gate_cases : forall v c h out,
  gate v c h out = out \/ gate v c h out = FailHeader \/ (exists o, out = Success o /\ gate v c h out = FailBuild).
Proof.
  intros v c h out. unfold gate. destruct (v_ns_checked v && negb (hdr_ok c h)); auto.
  destruct out as [| | |o]; auto. destruct (v_paths_checked v && negb (out_ok o)); eauto.
Qed.

Lemma gate_success : forall v c h out o, gate v c h out = Success o -> out = Success o.
Proof.
  intros v c h out o H. destruct (gate_cases v c h out) as [E|[E|(o' & _ & E)]]; congruence.
Qed.

Lemma gate_off : forall v c h out, v_ns_checked v = false -> v_paths_checked v = false -> gate v c h out = out.
Proof. intros v c h out H1 H2. unfold gate. rewrite H1, H2. destruct out; reflexivity. Qed.

Lemma gate_nonsuccess : forall v c h out, (forall o, out <> Success o) -> forall o, gate v c h out <> Success o.
Proof. intros v c h out Hn o E. apply gate_success in E. eapply Hn; eauto. Qed.

(* what an accepted input satisfies *)
Lemma gate_success_ok : forall v c h out o, gate v c h out = Success o ->
  (v_ns_checked v = true -> hdr_ok c h = true) /\ (v_paths_checked v = true -> out_ok o = true).
Proof.
  intros v c h out o H. unfold gate in H.
  destruct (v_ns_checked v && negb (hdr_ok c h)) eqn:E1; [discriminate|].
  destruct out as [| | |o']; try discriminate.
  destruct (v_paths_checked v && negb (out_ok o')) eqn:E2; [discriminate|]. inversion H; subst.
  split; intro Hv; rewrite Hv in *; simpl in *.
  - apply negb_false_iff in E1. exact E1.
  - apply negb_false_iff in E2. exact E2.
Qed.

Lemma gate_hdr_ok : forall v c h out fault t x, v_ns_checked v = true -> In x (plan v c h out fault t) -> hdr_ok c h = true.
Proof.
  intros v c h out fault t x Hv H. unfold plan, run, gate in H. rewrite Hv in H.
  destruct (hdr_ok c h); auto; simpl in H; contradiction.
Qed.

Lemma core_fail_not_done : forall v c h out fault t pl,
  (forall o, out <> Success o) -> run_core v c h out fault t <> (pl, RDone).
Proof.
  intros v c h out fault t pl Hn. unfold run_core. destruct out as [| | |o]; try discriminate.
  - destruct (is_dir t (ns_dir c)); [destruct (is_file t (cert_path c))|]; discriminate.
  - destruct (is_dir t (ns_dir c)); [destruct (is_file t (cert_path c))|]; discriminate.
  - exfalso. eapply Hn; eauto.
Qed.

Lemma run_done_core : forall v c h o fault t pl,
  run v c h (Success o) fault t = (pl, RDone) ->
  run_core v c h (Success o) fault t = (pl, RDone) /\ gate v c h (Success o) = Success o.
Proof.
  intros v c h o fault t pl H. unfold run in H.
  destruct (gate_cases v c h (Success o)) as [E|[E|(o' & _ & E)]]; rewrite E in H.
  - auto.
  - exfalso. eapply core_fail_not_done; [|exact H]. intros; discriminate.
  - exfalso. eapply core_fail_not_done; [|exact H]. intros; discriminate.
Qed.

Lemma plan_gate : forall v c h out fault t, plan v c h out fault t = plan_core v c h (gate v c h out) fault t.
Proof. reflexivity. Qed.

(* ------------------------------------------------------------------ C10 carried over *)
Theorem g_territory : forall v c h out fault t ops t' p,
  crash_trace (plan v c h out fault t) ops -> exec ops t = Some t' ->
  node_at t' p <> node_at t p ->
  terr_b c h p = true \/ (anc_b p = true /\ node_at t p = None /\ node_at t' p = Some NDir).
Proof. intros v c h out fault t ops t' p. rewrite plan_gate. apply territory. Qed.

Theorem g_statics_untouched : forall v c h out fault t ops t' p,
  sound v ->
  (forall o, out = Success o -> static_safe c h o = true) ->
  crash_trace (plan v c h out fault t) ops -> exec ops t = Some t' ->
  excepted h p = true -> node_at t' p = node_at t p.
Proof.
  intros v c h out fault t ops t' p Hv Hs. rewrite plan_gate. apply statics_untouched; auto.
  intros o E. apply Hs. eapply gate_success; eauto.
Qed.

Theorem g_refusal : forall v c h out fault t,
  is_dir t (ns_dir c) = true -> is_file t (cert_path c) = false ->
  run v c h out fault t = ([], match gate v c h out with FailHeader => RHeaderErr | _ => RRefused end).
Proof.
  intros v c h out fault t Hd Hf. unfold run. rewrite (refusal v c h (gate v c h out) fault t Hd Hf).
  destruct (gate v c h out); reflexivity.
Qed.

Theorem g_failed_compile_noop : forall v c h out fault t,
  v_cert_early v = false ->
  (forall o, out <> Success o) -> plan v c h out fault t = [] /\ exec (plan v c h out fault t) t = Some t.
Proof.
  intros v c h out fault t Hv Hn. rewrite plan_gate. apply failed_compile_noop; auto. apply gate_nonsuccess; auto.
Qed.

Theorem g_failed_build_noop : forall v c h out fault t,
  v_cert_early v = false -> v_tags_early v = true ->
  failed (snd (run v c h out fault t)) = true ->
  plan v c h out fault t = [] /\ exec (plan v c h out fault t) t = Some t.
Proof. intros v c h out fault t Hc Ht Hf. rewrite plan_gate. apply failed_build_noop; auto. Qed.

(* an input the checks reject is such a failed compile: nothing is touched *)
Theorem rejected_noop : forall v c h out fault t,
  v_cert_early v = false ->
  (v_ns_checked v = true /\ hdr_ok c h = false) \/
  (v_paths_checked v = true /\ exists o, out = Success o /\ out_ok o = false) ->
  plan v c h out fault t = [] /\ failed (snd (run v c h out fault t)) = true.
Proof.
  intros v c h out fault t Hc H.
  assert (Hn : forall o, gate v c h out <> Success o).
  { intros o E. destruct (gate_success_ok v c h out o E) as [A B]. pose proof (gate_success _ _ _ _ _ E) as Eo.
    destruct H as [[H1 H2]|[H1 (o' & H2 & H3)]].
    - rewrite (A H1) in H2. discriminate.
    - rewrite Eo in H2. inversion H2; subst. rewrite (B H1) in H3. discriminate. }
  split.
  - rewrite plan_gate. apply plan_fixed_nonsuccess; auto.
  - unfold run, run_core. destruct (gate v c h out) as [| | |o] eqn:E; try reflexivity.
    + destruct (is_dir t (ns_dir c)); [destruct (is_file t (cert_path c))|]; reflexivity.
    + destruct (is_dir t (ns_dir c)); [destruct (is_file t (cert_path c))|]; reflexivity.
    + exfalso. eapply Hn; eauto.
Qed.

Theorem g_failed_compile_noop_pinned_partial : forall c h out fault t,
  (forall o, out <> Success o) -> is_dir t (ns_dir c) = true -> plan pinned c h out fault t = [].
Proof.
  intros c h out fault t Hn Hd. rewrite plan_gate, gate_off; auto. apply failed_compile_noop_pinned_partial; auto.
Qed.

(* ------------------------------------------------------------------ statics, pointwise *)
(* Without [static_safe]: a node inside a #static folder changes only if the build itself writes there, i.e. it is the
   beginning of the path of jmc.txt / jmc.txt.tmp, a function tag, an emitted file, pack.mcmeta or a #copy destination. *)
Theorem statics_pointwise : forall v c h out fault t ops t' p,
  sound v ->
  crash_trace (plan v c h out fault t) ops -> exec ops t = Some t' ->
  excepted h p = true ->
  (forall o w, gate v c h out = Success o -> In w (written_paths c h o) -> is_prefix p w = false) ->
  node_at t' p = node_at t p.
Proof.
  intros v c h out fault t ops t' p Hv Hc He Hx Hw. eapply exec_frame; eauto.
  intros x Hxin Hp. destruct (crash_trace_in _ _ _ Hc Hxin) as (y & Hy & Hpy & _).
  rewrite plan_gate in Hy. destruct (gate v c h out) as [| | |o] eqn:Eg;
    try (rewrite plan_fixed_nonsuccess in Hy; [contradiction|apply Hv|intros; discriminate]).
  specialize (Hw o). apply run_shape in Hy.
  destruct Hy as [(F & s & HF & HFp & _ & Hex)|[(w & Hin & Hpw & Hne & Hk)|[H|[H Hk]]]].
  - apply del_list_fixed_flag in HF; auto. destruct (h_statics h) eqn:E.
    + rewrite (excepted_nil h p E) in Hx. discriminate.
    + rewrite Hpy, Hp in Hex. rewrite Hex in Hx; auto; discriminate.
  - apply folder_files_written in Hin. rewrite Hpy, Hp in Hpw. rewrite (Hw w eq_refl Hin) in Hpw. discriminate.
  - rewrite Hpy, Hp in H.
    assert (Hin : In p (written_paths c h o)). { unfold written_paths. right. right. apply in_or_app. auto. }
    pose proof (Hw p eq_refl Hin) as R. rewrite is_prefix_refl in R. discriminate.
  - rewrite Hpy, Hp in H.
    assert (Hin : In p (written_paths c h o)).
    { rewrite H. unfold written_paths. right. right. apply in_or_app. right. simpl. right. right. apply in_or_app. right.
      simpl. auto. }
    pose proof (Hw p eq_refl Hin) as R. rewrite is_prefix_refl in R. discriminate.
Qed.

(* ------------------------------------------------------------------ plain names *)
Definition seg_ok (p : path) : Prop := exists q, p = "." :: q /\ forallb plain q = true.

Lemma no_sep_app : forall a b, no_sep (a ++ b) = no_sep a && no_sep b.
Proof.
  induction a as [|ch a IH]; intros b; simpl; auto. rewrite IH.
  destruct (Ascii.eqb ch "/"), (Ascii.eqb ch "\"); reflexivity.
Qed.

Lemma long_plain : forall s, 2 < String.length s -> no_sep s = true -> plain s = true.
Proof.
  intros s Hl Hn. unfold plain. rewrite Hn.
  destruct s as [|a [|b [|d s]]]; simpl in Hl; try lia. simpl.
  destruct (Ascii.eqb a "."), (Ascii.eqb b "."); reflexivity.
Qed.

Lemma string_length_app : forall a b, String.length (a ++ b) = String.length a + String.length b.
Proof. induction a as [|ch a IH]; intros b; simpl; auto. Qed.

Lemma plain_ext : forall x e, plain x = true -> 2 < String.length e -> no_sep e = true -> plain (x ++ e) = true.
Proof.
  intros x e Hx Hl He. apply long_plain.
  - rewrite string_length_app. lia.
  - rewrite no_sep_app, He. unfold plain in Hx. apply andb_true_iff in Hx as [_ Hx]. rewrite Hx. reflexivity.
Qed.

Lemma add_ext_plain : forall e p, 2 < String.length e -> no_sep e = true ->
  forallb plain p = true -> forallb plain (add_ext e p) = true.
Proof.
  intros e p Hl He. induction p as [|x r IH]; intros H.
  - simpl. rewrite long_plain; auto.
  - simpl in H. apply andb_true_iff in H as [Hx Hr]. destruct r as [|y r'].
    + simpl. rewrite plain_ext; auto.
    + change (add_ext e (x :: y :: r')) with (x :: add_ext e (y :: r')). simpl forallb. rewrite Hx. simpl. apply IH. exact Hr.
Qed.

Lemma forallb_plain_app : forall a b, forallb plain (a ++ b) = forallb plain a && forallb plain b.
Proof. intros. apply forallb_app. Qed.

Lemma seg_ok_prefix : forall d w, seg_ok w -> is_prefix d w = true -> d <> [] -> seg_ok d.
Proof.
  intros d w (q & -> & Hq) Hp Hne. destruct d as [|x d]; [contradiction|].
  simpl in Hp. apply andb_true_iff in Hp as [Hx Hp]. apply String.eqb_eq in Hx. subst x.
  exists d. split; auto. apply is_prefix_split in Hp as (r & ->). rewrite forallb_plain_app in Hq.
  apply andb_true_iff in Hq as [Hq _]. exact Hq.
Qed.

Lemma hdr_ok_plain : forall c h o, hdr_ok c h = true -> In o (h_overrides h) -> plain o = true.
Proof.
  intros c h o H Hin. unfold hdr_ok in H. rewrite forallb_forall in H. apply H in Hin.
  apply andb_true_iff in Hin as [Hp _]. exact Hp.
Qed.

Lemma folderish_seg_ok : forall c h F,
  plain (c_ns c) = true -> hdr_ok c h = true -> folderish c h F -> seg_ok F.
Proof.
  intros c h F Hn Hh [->|[(o & Ho & ->)| ->]].
  - exists ["data"; c_ns c]. split; auto. simpl. rewrite Hn. reflexivity.
  - exists ["data"; o]. split; auto. simpl. rewrite (hdr_ok_plain c h o Hh Ho). reflexivity.
  - exists ["data"; "minecraft"]. split; auto.
Qed.

Lemma res_ok_plain : forall p, res_ok p = true -> p <> [] /\ forallb plain p = true.
Proof. intros [|x r] H; simpl in H; [discriminate|]. split; [discriminate|exact H]. Qed.

Lemma func_file_seg_ok : forall c h fp,
  plain (c_ns c) = true -> plain (c_ff c) = true -> res_ok fp = true -> seg_ok (func_file c h fp).
Proof.
  intros c h fp Hn Hf Hr. apply res_ok_plain in Hr as [Hne Hp]. unfold func_file.
  destruct fp as [|x r]; [contradiction|]. simpl in Hp. apply andb_true_iff in Hp as [Hx Hr].
  assert (He : forallb plain (add_ext ".mcfunction" r) = true) by (apply add_ext_plain; auto; simpl; lia).
  assert (He' : forallb plain (add_ext ".mcfunction" (x :: r)) = true).
  { apply add_ext_plain; auto; [simpl; lia|]. simpl. rewrite Hx, Hr. reflexivity. }
  destruct (mem x (h_overrides h)).
  - exists (["data"; x] ++ [c_ff c] ++ add_ext ".mcfunction" r). split; auto.
    rewrite !forallb_plain_app. simpl. rewrite Hx, Hf, He. reflexivity.
  - exists (["data"; c_ns c] ++ [c_ff c] ++ add_ext ".mcfunction" (x :: r)). split; auto.
    rewrite !forallb_plain_app. simpl forallb at 1 2. rewrite Hn, Hf, He'. reflexivity.
Qed.

Lemma json_file_seg_ok : forall c h jp,
  plain (c_ns c) = true -> res_ok jp = true -> seg_ok (json_file c h jp).
Proof.
  intros c h jp Hn Hr. apply res_ok_plain in Hr as [Hne Hp]. unfold json_file.
  destruct jp as [|x r]; [contradiction|]. simpl in Hp. apply andb_true_iff in Hp as [Hx Hr].
  assert (He : forallb plain (add_ext ".json" r) = true) by (apply add_ext_plain; auto; simpl; lia).
  assert (He' : forallb plain (add_ext ".json" (x :: r)) = true).
  { apply add_ext_plain; auto; [simpl; lia|]. simpl. rewrite Hx, Hr. reflexivity. }
  destruct (mem x (h_overrides h)).
  - exists (["data"; x] ++ add_ext ".json" r). split; auto.
    rewrite !forallb_plain_app. simpl. rewrite Hx, He. reflexivity.
  - exists (["data"; c_ns c] ++ add_ext ".json" (x :: r)). split; auto.
    rewrite !forallb_plain_app. simpl forallb at 1. rewrite Hn, He'. reflexivity.
Qed.

Lemma folder_files_seg_ok : forall c h o w,
  plain (c_ns c) = true -> plain (c_ff c) = true -> out_ok o = true ->
  In w (folder_files c h (Success o)) -> seg_ok w.
Proof.
  intros c h o w Hn Hf Ho H. unfold folder_files in H. destruct H as [<-|[<-|[<-|[<-|H]]]].
  - exists ["data"; c_ns c; "jmc.txt"]. split; auto. simpl. rewrite Hn. reflexivity.
  - exists ["data"; c_ns c; "jmc.txt.tmp"]. split; auto. simpl. rewrite Hn. reflexivity.
  - exists ["data"; "minecraft"; "tags"; c_ff c; "load.json"]. split; auto. simpl. rewrite Hf. reflexivity.
  - exists ["data"; "minecraft"; "tags"; c_ff c; "tick.json"]. split; auto. simpl. rewrite Hf. reflexivity.
  - unfold out_ok in Ho. apply andb_true_iff in Ho as [Hof Hoj]. rewrite forallb_forall in Hof, Hoj.
    apply in_map_iff in H as ([p s] & <- & Hin). unfold out_files in Hin. apply in_app_or in Hin as [Hin|Hin];
      apply in_map_iff in Hin as (e & Heq & He); inversion Heq; subst.
    + apply func_file_seg_ok; auto.
    + apply json_file_seg_ok; auto.
Qed.

(* C10: with the two checks in place every mutation of a plan — complete or killed anywhere — is
   (a) a deletion below a folder of the territory, the folder being spelled ./data/<plain name> (what lies below comes
       from directory listings), or
   (b) at a path spelled "." followed by plain names only, or
   (c) at a #copy destination (names from the listing of the copied folder).
   So no ".." / "" / "." / separator ever reaches the operating system from header or sources, and the lexical
   territory of C10_territory is the real one. *)
Theorem paths_lexical : forall v c h out fault t x,
  v_cert_early v = false -> v_ns_checked v = true -> v_paths_checked v = true ->
  plain (c_ns c) = true -> plain (c_ff c) = true ->
  In x (plan v c h out fault t) ->
  (exists F, folderish c h F /\ seg_ok F /\ is_prefix F (op_path x) = true /\ is_mkdir x = false)
  \/ seg_ok (op_path x)
  \/ In (op_path x) (copy_paths h).
Proof.
  intros v c h out fault t x Hce Hnc Hpc Hn Hf H.
  pose proof (gate_hdr_ok _ _ _ _ _ _ _ Hnc H) as Hh.
  rewrite plan_gate in H. destruct (gate v c h out) as [| | |o] eqn:Eg;
    try (rewrite plan_fixed_nonsuccess in H; [contradiction|exact Hce|intros; discriminate]).
  destruct (gate_success_ok _ _ _ _ _ Eg) as [_ Ho]. specialize (Ho Hpc).
  apply run_shape in H. destruct H as [(F & s & HF & HFp & Hk & _)|[(w & Hin & Hpw & Hne & _)|[H|[H _]]]].
  - left. exists F. apply del_list_folderish in HF. repeat split; auto. eapply folderish_seg_ok; eauto.
  - right. left. eapply seg_ok_prefix; eauto. eapply folder_files_seg_ok; eauto.
  - right. right. exact H.
  - right. left. rewrite H. exists ["pack.mcmeta"]. split; reflexivity.
Qed.

(* the tree without the resource-path check ([hardened]): Predicate.locations(name="../../foreign/predicate/x") *)
Definition u_out : output :=
  mkOutput [(["__load__"], "")] [(["predicate"; ".."; ".."; "foreign"; "predicate"; "x"], "[]")] false "{}".

Theorem paths_lexical_refuted_hardened :
  exists x, In x (plan hardened w_cfg w_hdr0 (Success u_out) None w_empty) /\ creates x = true /\
            In ".." (op_path x).
Proof.
  exists (Create ["."; "data"; "ns"; "predicate"; ".."; ".."; "foreign"; "predicate"; "x.json"]).
  vm_compute. split; [|split; auto 10]. auto 50.
Qed.

Example unsafe_path_rejected_guarded :
  run guarded w_cfg w_hdr0 (Success u_out) None w_empty = ([], RBuildErr) /\
  run guarded w_cfg (mkHdr [] [".."] None false) (Success w_out) None w_empty = ([], RHeaderErr) /\
  run guarded w_cfg (mkHdr [] ["ns"] None false) (Success w_out) None w_empty = ([], RHeaderErr).
Proof. vm_compute. auto. Qed.

(* ------------------------------------------------------------------ C11 carried over *)
Theorem g_fresh : forall v c h o s1 s2 pl1 pl2 s1' s2',
  sound v ->
  startable c h s1 -> startable c h s2 ->
  (forall p, excepted h p = true -> file_at s1 p = file_at s2 p) ->
  run v c h (Success o) None s1 = (pl1, RDone) -> exec pl1 s1 = Some s1' ->
  run v c h (Success o) None s2 = (pl2, RDone) -> exec pl2 s2 = Some s2' ->
  forall p, inside c h p = true \/ In p (map op_path (filter creates pl1)) ->
  file_at s1' p = file_at s2' p.
Proof.
  intros v c h o s1 s2 pl1 pl2 s1' s2' Hv S1 S2 Hst R1 E1 R2 E2.
  apply run_done_core in R1 as [R1 _]. apply run_done_core in R2 as [R2 _].
  exact (fresh v c h o s1 s2 pl1 pl2 s1' s2' Hv S1 S2 Hst R1 E1 R2 E2).
Qed.

Theorem g_fresh_empty : forall v c h o s pl s' ple e',
  sound v ->
  startable c h s -> (forall p, excepted h p = true -> file_at s p = None) ->
  run v c h (Success o) None s = (pl, RDone) -> exec pl s = Some s' ->
  run v c h (Success o) None empty_out = (ple, RDone) -> exec ple empty_out = Some e' ->
  forall p, inside c h p = true \/ In p (map op_path (filter creates pl)) -> file_at s' p = file_at e' p.
Proof.
  intros v c h o s pl s' ple e' Hv S Hst R1 E1 R2 E2.
  apply run_done_core in R1 as [R1 _]. apply run_done_core in R2 as [R2 _].
  exact (fresh_empty v c h o s pl s' ple e' Hv S Hst R1 E1 R2 E2).
Qed.

Theorem g_twice : forall v c h o s pl s' pl' s'',
  sound v ->
  startable c h s -> static_safe c h o = true ->
  run v c h (Success o) None s = (pl, RDone) -> exec pl s = Some s' ->
  run v c h (Success o) None s' = (pl', RDone) -> exec pl' s' = Some s'' ->
  forall p, inside c h p = true \/ In p (map op_path (filter creates pl')) ->
  file_at s'' p = file_at s' p.
Proof.
  intros v c h o s pl s' pl' s'' Hv S Hs R1 E1 R2 E2.
  apply run_done_core in R1 as [R1 _]. apply run_done_core in R2 as [R2 _].
  exact (twice v c h o s pl s' pl' s'' Hv S Hs R1 E1 R2 E2).
Qed.

Lemma cert_exclusive_gate : forall v c h out, cert_exclusive c h out = true -> cert_exclusive c h (gate v c h out) = true.
Proof.
  intros v c h out H. destruct (gate_cases v c h out) as [E|[E|(o & Eo & E)]]; rewrite E; auto;
    unfold cert_exclusive in *; rewrite forallb_app in *; apply andb_true_iff in H as [H _]; rewrite H; reflexivity.
Qed.

Theorem g_crash_cert_whole : forall v c h out fault s ops k,
  v_cert_atomic v = true -> cert_exclusive c h out = true ->
  crash_trace (plan v c h out fault s) ops -> exec ops s = Some k ->
  file_at k (cert_path c) = file_at s (cert_path c) \/ file_at k (cert_path c) = None \/
  file_at k (cert_path c) = Some (Raw (c_cert c)).
Proof.
  intros v c h out fault s ops k Ha Hx. rewrite plan_gate. apply crash_cert_whole; auto. apply cert_exclusive_gate; auto.
Qed.

Theorem g_crash_recover_cert : forall v c h o fault s ops k,
  sound v ->
  c_ns c <> "minecraft" -> ready c h s -> static_safe c h o = true ->
  crash_trace (plan v c h (Success o) fault s) ops -> exec ops s = Some k ->
  (forall p, excepted h p = true -> file_at k p = file_at s p) /\
  ( run v c h (Success o) None k = ([], RRefused)
    \/ forall pl k' s2 pl2 s2',
         run v c h (Success o) None k = (pl, RDone) -> exec pl k = Some k' ->
         startable c h s2 -> (forall p, excepted h p = true -> file_at s p = file_at s2 p) ->
         run v c h (Success o) None s2 = (pl2, RDone) -> exec pl2 s2 = Some s2' ->
         forall p, inside c h p = true \/ In p (map op_path (filter creates pl)) -> file_at k' p = file_at s2' p ) /\
  ( v_cert_atomic v = true -> cert_exclusive c h (Success o) = true ->
    file_at k (cert_path c) = file_at s (cert_path c) \/ file_at k (cert_path c) = None \/
    file_at k (cert_path c) = Some (Raw (c_cert c)) ).
Proof.
  intros v c h o fault s ops k Hv Hmc R Hs Hct He.
  destruct (gate_cases v c h (Success o)) as [E|E].
  - (* the input passes the checks: the core theorem *)
    rewrite plan_gate, E in Hct.
    destruct (crash_recover_cert v c h o fault s ops k Hv Hmc R Hs Hct He) as (A & B & C).
    split; [exact A|split; [|exact C]]. unfold run. rewrite E. destruct B as [B|B]; [left; exact B|right].
    intros pl k' s2 pl2 s2' R1 E1 S2 Hst R2 E2. eapply B; eauto.
  - (* the input is rejected: nothing happens, and the re-run is rejected again *)
    assert (Hn : forall o', gate v c h (Success o) <> Success o').
    { destruct E as [E|(o' & _ & E)]; rewrite E; intros; discriminate. }
    rewrite plan_gate, plan_fixed_nonsuccess in Hct; [|apply Hv|exact Hn].
    apply crash_trace_nil in Hct. subst ops. simpl in He. inversion He; subst k.
    split; [auto|split; [|auto]]. right. intros pl k' s2 pl2 s2' R1. exfalso. unfold run in R1.
    eapply core_fail_not_done; [|exact R1]. exact Hn.
Qed.

(* histories of the gated build *)
Inductive ghist (v : variant) (c : cfg) (h : hdr) : fs -> fs -> Prop :=
| ghist_refl : forall s, ghist v c h s s
| ghist_step : forall s m out fault copy nometa ops m',
    ghist v c h s m ->
    crash_trace (plan v c (mkHdr (h_statics h) (h_overrides h) copy nometa) out fault m) ops ->
    exec ops m = Some m' -> ghist v c h s m'.

Lemma ghist_hist : forall v c h s s', ghist v c h s s' -> hist v c h s s'.
Proof.
  intros v c h s s' H. induction H as [s|s m out fault copy nometa ops m' H IH Hct He].
  - apply hist_refl.
  - eapply hist_step; eauto.
Qed.

Theorem g_history_ready : forall v c h s0 s,
  sound v -> c_ns c <> "minecraft" -> clean c h s0 -> ghist v c h s0 s -> ready c h s.
Proof. intros v c h s0 s Hv Hmc C H. eapply history_ready; eauto. apply ghist_hist. exact H. Qed.

(* ------------------------------------------------------------------ C11: what an earlier build leaves outside the current folders *)
(* Build A declares `#override foo` and emits foo.h; build B drops the directive.  data/foo is not a folder of B, so B
   does not delete it (C10 forbids it): A's file survives, the fresh build of B does not have it.
   JMC keeps no record of the namespaces an earlier build overrode — known finding C11-dropped-override-left-behind. *)
Definition d_hdrA : hdr := mkHdr [] ["foo"] None false.
Definition d_A : output := mkOutput [(["g"], "say g"); (["foo"; "h"], "say h")] [] false "{}".
Definition d_after_A : fs := run_ops (plan guarded x_cfg d_hdrA (Success d_A) None x_empty) x_empty.
Definition d_after_B : fs := run_ops (plan guarded x_cfg x_hdr (Success x_B) None d_after_A) d_after_A.
Definition d_fresh : fs := run_ops (plan guarded x_cfg x_hdr (Success x_B) None x_empty) x_empty.

Theorem dropped_override_refuted :
  exec (plan guarded x_cfg d_hdrA (Success d_A) None x_empty) x_empty = Some d_after_A /\
  run guarded x_cfg x_hdr (Success x_B) None d_after_A = (plan guarded x_cfg x_hdr (Success x_B) None d_after_A, RDone) /\
  exec (plan guarded x_cfg x_hdr (Success x_B) None d_after_A) d_after_A = Some d_after_B /\
  exec (plan guarded x_cfg x_hdr (Success x_B) None x_empty) x_empty = Some d_fresh /\
  file_at d_after_B ["."; "data"; "foo"; "function"; "h.mcfunction"] = Some (Raw "say h") /\
  file_at d_fresh ["."; "data"; "foo"; "function"; "h.mcfunction"] = None /\
  inside x_cfg x_hdr ["."; "data"; "foo"; "function"; "h.mcfunction"] = false.
Proof. vm_compute. repeat split. Qed.

(* ------------------------------------------------------------------ C11: a tick.json shielded by a #static folder *)
(* Build A (tick function) from an empty directory; the user then declares `#static "../minecraft"`; build B has no tick
   function.  Without [v_tick_refresh] tick.json keeps naming ns:__tick__ (Minecraft drops a tag that names a missing
   function); with it the entry is gone. *)
Definition t_hdr : hdr := mkHdr [["."; "data"; "minecraft"]] [] None false.
Definition t_after_A (v : variant) : fs := run_ops (plan v x_cfg x_hdr (Success x_A) None x_empty) x_empty.
Definition t_after_B (v : variant) : fs := run_ops (plan v x_cfg t_hdr (Success x_B) None (t_after_A v)) (t_after_A v).

Theorem stale_tick_refuted_hardened :
  exec (plan hardened x_cfg t_hdr (Success x_B) None (t_after_A hardened)) (t_after_A hardened) = Some (t_after_B hardened) /\
  snd (run hardened x_cfg t_hdr (Success x_B) None (t_after_A hardened)) = RDone /\
  file_at (t_after_B hardened) (tick_path x_cfg) = Some (Tag ["ns:__tick__"]).
Proof. vm_compute. repeat split. Qed.

Example stale_tick_refreshed_guarded :
  exec (plan guarded x_cfg t_hdr (Success x_B) None (t_after_A guarded)) (t_after_A guarded) = Some (t_after_B guarded) /\
  snd (run guarded x_cfg t_hdr (Success x_B) None (t_after_A guarded)) = RDone /\
  file_at (t_after_B guarded) (tick_path x_cfg) = Some (Tag []) /\
  file_at (t_after_B guarded) (load_path x_cfg) = Some (Tag ["ns:__load__"]).
Proof. vm_compute. repeat split. Qed.

(* ------------------------------------------------------------------ the witnesses of Proofs/BuildC10.v, BuildC11.v, restated for the gated [run] / [plan]
   (for [pinned], [fixed], [hardened] the gate is the identity) *)
Theorem g_failed_compile_noop_refuted_pinned :
  exists c h out t t', (forall o, out <> Success o) /\
    exec (plan pinned c h out None t) t = Some t' /\ node_at t (cert_path c) = None /\
    node_at t' (cert_path c) = Some (NFile (Raw (c_cert c))).
Proof.
  exists w_cfg, w_hdr0, FailLex, w_empty. eexists. split; [intros; discriminate|].
  vm_compute. repeat split.
Qed.

Theorem g_static_minecraft_refuted_pinned :
  exists c h o t t' p, static_safe c h o = true /\ excepted h p = true /\
    exec (plan pinned c h (Success o) None t) t = Some t' /\
    node_at t p = Some (NFile (Raw "kept by hand")) /\ node_at t' p = None.
Proof.
  exists w_cfg, w_hdr_mc, w_out, w_tree_mc. eexists. exists ["."; "data"; "minecraft"; "keep"; "m.txt"].
  vm_compute. repeat split.
Qed.

Theorem g_tag_error_noop_refuted_fixed :
  exists c h o t t', run fixed c h (Success o) None t = (plan fixed c h (Success o) None t, RTagErr) /\
    exec (plan fixed c h (Success o) None t) t = Some t' /\
    node_at t (cert_path c) = None /\ node_at t' (cert_path c) <> None.
Proof.
  exists w_cfg, w_hdr0, w_out, w_tree_badtag. eexists. vm_compute. repeat split. discriminate.
Qed.

Example g_build_executes :
  exists t', exec (plan fixed w_cfg w_hdr_mc (Success w_out) None w_tree_mc) w_tree_mc = Some t' /\
    snd (run fixed w_cfg w_hdr_mc (Success w_out) None w_tree_mc) = RDone /\
    node_at t' ["."; "data"; "ns"; "function"; "g.mcfunction"] = Some (NFile (Raw "say g")) /\
    node_at t' ["."; "data"; "minecraft"; "keep"; "m.txt"] = Some (NFile (Raw "kept by hand")).
Proof. eexists. vm_compute. repeat split. Qed.

Example g_tag_error_noop_hardened :
  run hardened w_cfg w_hdr0 (Success w_out) None w_tree_badtag = ([], RTagErr).
Proof. vm_compute. reflexivity. Qed.

Example g_build_executes_hardened :
  exists t', exec (plan hardened w_cfg w_hdr_mc (Success w_out) None w_tree_mc) w_tree_mc = Some t' /\
    snd (run hardened w_cfg w_hdr_mc (Success w_out) None w_tree_mc) = RDone /\
    In (Replace (cert_path w_cfg) (Raw "LOAD=__load__")) (plan hardened w_cfg w_hdr_mc (Success w_out) None w_tree_mc) /\
    node_at t' (cert_path w_cfg) = Some (NFile (Raw "LOAD=__load__")) /\ node_at t' (cert_tmp w_cfg) = None /\
    node_at t' ["."; "data"; "ns"; "function"; "g.mcfunction"] = Some (NFile (Raw "say g")) /\
    node_at t' ["."; "data"; "minecraft"; "keep"; "m.txt"] = Some (NFile (Raw "kept by hand")).
Proof.
  eexists. split; [vm_compute; reflexivity|]. split; [vm_compute; reflexivity|].
  split; [vm_compute; auto 30|]. vm_compute. repeat split.
Qed.

Theorem g_crash_between_rmtrees_refuted_pinned :
  exists j k k' fresh',
    exec (firstn j (plan pinned x_cfg x_hdr (Success x_B) None x_after_A)) x_after_A = Some k /\
    run pinned x_cfg x_hdr (Success x_B) None k = (plan pinned x_cfg x_hdr (Success x_B) None k, RDone) /\
    exec (plan pinned x_cfg x_hdr (Success x_B) None k) k = Some k' /\
    exec (plan pinned x_cfg x_hdr (Success x_B) None x_empty) x_empty = Some fresh' /\
    file_at fresh' (tick_path x_cfg) = None /\
    file_at k' (tick_path x_cfg) = Some (Tag ["ns:__tick__"]).
Proof. exists 4, x_k, x_k', x_fresh. vm_compute. repeat split. Qed.

Example g_crash_recovered_fixed :
    exec (firstn 9 (plan fixed x_cfg x_hdr (Success x_B) None y_after_A)) y_after_A = Some y_k /\
    is_dir y_k (ns_dir x_cfg) = false /\
    exec (plan fixed x_cfg x_hdr (Success x_B) None y_k) y_k = Some y_k' /\
    exec (plan fixed x_cfg x_hdr (Success x_B) None x_empty) x_empty = Some y_fresh /\
    file_at y_k' (tick_path x_cfg) = None /\ file_at y_fresh (tick_path x_cfg) = None /\
    file_at y_k' ["."; "data"; "ns"; "function"; "g.mcfunction"] = Some (Raw "say g").
Proof. vm_compute. repeat split. Qed.

Theorem g_torn_cert_refuted_fixed :
  exists ops k, crash_trace (plan fixed z_cfg x_hdr (Success x_B) None x_empty) ops /\
    exec ops x_empty = Some k /\ cert_exclusive z_cfg x_hdr (Success x_B) = true /\
    file_at k (cert_path z_cfg) = Some (Raw "LOAD=__load__
PRIVATE=__priv").
Proof.
  exists (firstn 3 (plan fixed z_cfg x_hdr (Success x_B) None x_empty) ++
          [Write (cert_path z_cfg) (Raw "LOAD=__load__
PRIVATE=__priv")]).
  eexists. split; [|split; [vm_compute; reflexivity|split; vm_compute; reflexivity]].
  eapply ct_torn. vm_compute. reflexivity.
Qed.

Example g_torn_tmp_hardened :
  exists ops k, crash_trace (plan hardened z_cfg x_hdr (Success x_B) None x_empty) ops /\
    exec ops x_empty = Some k /\
    file_at k (cert_tmp z_cfg) = Some (Raw "LOAD=__load__
PRIVATE=__priv") /\ file_at k (cert_path z_cfg) = None /\
    run hardened z_cfg x_hdr (Success x_B) None k = ([], RRefused).
Proof.
  exists (firstn 3 (plan hardened z_cfg x_hdr (Success x_B) None x_empty) ++
          [Write (cert_tmp z_cfg) (Raw "LOAD=__load__
PRIVATE=__priv")]).
  eexists. split; [|split; [vm_compute; reflexivity|repeat split; vm_compute; reflexivity]].
  eapply ct_torn. vm_compute. reflexivity.
Qed.
