(* Proofs.ExprParse — the front end of the model (tokens_to_tokens, expression_to_tree) on the
   arithmetic fragment: every tree of + - * / % over variables, written with the parentheses that
   standard precedence and left associativity require (ExprSpec.render) and any number of
   redundant ones (EPar).  The shunting-yard builds exactly the tree of the expression
   (parse_arith): this is the correctness of operator precedence / associativity in the parser. *)
From Coq Require Import ZArith String List Bool Lia.
From JMCV Require Import Base.Int32 Base.Dec MC.Syntax Model.Names Model.Expr Model.ExprSpec Model.ExprFront.
Import ListNotations.
Open Scope Z_scope.

Definition arith_op (o : binop) : bool := match o with BPow => false | _ => true end.

(* + - * / % over variables; parentheses anywhere *)
Fixpoint arith (e : expr) : bool :=
  match e with
  | EVar _ => true
  | EPar e' => arith e'
  | EBin o a b => arith_op o && arith a && arith b
  | _ => false
  end.

Section Parse.
  Variable nm : names.

  Fixpoint tree_of (e : expr) : num :=
    match e with
    | EVar v => NVar (score_of nm v)
    | EConst z => NConst z
    | ENeg e' => tree_of e'
    | EPar e' => tree_of e'
    | EBin o a b => mk_expr (opc_of o) (tree_of a) (tree_of b)
    end.

  (* the tokens tokens_to_tokens produces for render e *)
  Fixpoint flat (e : expr) : list ftok :=
    let ctx (need : nat) (e' : expr) (r : list ftok) :=
        if Nat.ltb (lvl e') need then FOpen :: r ++ [FClose] else r in
    match e with
    | EVar v => [FVar (score_of nm v)]
    | EPar e' => FOpen :: flat e' ++ [FClose]
    | EBin o a b => ctx (need_l o) a (flat a) ++ FOp (opc_of o) :: ctx (need_r o) b (flat b)
    | _ => []
    end.

  Lemma bind_ret_l {A B} (a : A) (f : A -> M B) : bind (ret a) f = f a.
  Proof. unfold bind, ret. cbn. destruct (f a). reflexivity. Qed.

  (* the inner loop of ttt_tok on a parenthesis is ttt_list *)
  Lemma ttt_inner l : forall st,
    (fix go (l : list tok) (st : tt_state) : M tt_state :=
       match l with
       | [] => ret st
       | x :: r => st' <- ttt_tok nm x st ;; go r st'
       end) l st = ttt_list nm l st.
  Proof. induction l as [|x r IH]; intros st; cbn; [reflexivity|]. f_equal. Qed.

  Lemma ttt_paren l rt :
    ttt_tok nm (KParen l) (rt, false) =
    (inner <- ttt_list nm l ([], false) ;; ret (FClose :: fst inner ++ FOpen :: rt, false)).
  Proof. cbn [ttt_tok]. rewrite bind_ret_l. rewrite ttt_inner. reflexivity. Qed.

  (* the last token of rt is not a KEYWORD (so the next keyword is appended, not merged) *)
  Definition open_end (rt : list ftok) : Prop :=
    match rt with [] => True | t :: _ => is_keyword t = false end.
  (* the last token of rt is a keyword or ")" (so a following "-" is binary) *)
  Definition closed_end (rt : list ftok) : Prop :=
    match rt with [] => False | t :: _ => is_open_operator t = false end.

  Lemma rev_paren (X : list ftok) rt : rev (FOpen :: X ++ [FClose]) ++ rt = FClose :: rev X ++ FOpen :: rt.
  Proof. cbn [rev]. rewrite rev_app_distr. cbn. rewrite <- app_assoc. reflexivity. Qed.

  Definition ttt_stmt (toks : list tok) (fl : list ftok) : Prop :=
    forall rest rt, open_end rt ->
      ttt_list nm (toks ++ rest) (rt, false) = ttt_list nm rest (rev fl ++ rt, false) /\
      closed_end (rev fl ++ rt).

  Lemma ttt_stmt_paren toks fl : ttt_stmt toks fl -> ttt_stmt [KParen toks] (FOpen :: fl ++ [FClose]).
  Proof.
    intros H rest rt Hrt. cbn [app ttt_list]. rewrite ttt_paren.
    destruct (H [] [] I) as [E _]. rewrite app_nil_r in E. rewrite E. cbn [ttt_list].
    rewrite !bind_ret_l. cbn [fst]. rewrite app_nil_r. rewrite rev_paren. split; reflexivity.
  Qed.

  Lemma ttt_arith e : arith e = true -> ttt_stmt (render e) (flat e).
  Proof.
    induction e as [v|z|e IH|e IH|o a IHa b IHb]; cbn [arith]; try discriminate.
    - (* variable *)
      intros _ rest rt Hrt. cbn [render flat app ttt_list rev].
      split; [|reflexivity].
      destruct rt as [|last rt']; cbn [ttt_tok].
      + rewrite bind_ret_l. reflexivity.
      + cbn in Hrt. rewrite Hrt. rewrite bind_ret_l. reflexivity.
    - (* parenthesis *)
      intros Ha. cbn [render flat]. apply ttt_stmt_paren. now apply IH.
    - (* binary *)
      intros H. apply andb_true_iff in H. destruct H as [H Hb]. apply andb_true_iff in H. destruct H as [Ho Ha].
      specialize (IHa Ha). specialize (IHb Hb).
      cbn [render flat].
      assert (Ca : ttt_stmt (if Nat.ltb (lvl a) (need_l o) then [KParen (render a)] else render a)
                            (if Nat.ltb (lvl a) (need_l o) then FOpen :: flat a ++ [FClose] else flat a)).
      { destruct (Nat.ltb (lvl a) (need_l o)); [now apply ttt_stmt_paren|exact IHa]. }
      assert (Cb : ttt_stmt (if Nat.ltb (lvl b) (need_r o) then [KParen (render b)] else render b)
                            (if Nat.ltb (lvl b) (need_r o) then FOpen :: flat b ++ [FClose] else flat b)).
      { destruct (Nat.ltb (lvl b) (need_r o)); [now apply ttt_stmt_paren|exact IHb]. }
      set (ta := if Nat.ltb (lvl a) (need_l o) then [KParen (render a)] else render a) in *.
      set (fa := if Nat.ltb (lvl a) (need_l o) then FOpen :: flat a ++ [FClose] else flat a) in *.
      set (tb := if Nat.ltb (lvl b) (need_r o) then [KParen (render b)] else render b) in *.
      set (fb := if Nat.ltb (lvl b) (need_r o) then FOpen :: flat b ++ [FClose] else flat b) in *.
      intros rest rt Hrt. rewrite <- !app_assoc.
      destruct (Ca ([KOp (opc_of o)] ++ tb ++ rest) rt Hrt) as [Ea Cla]. rewrite Ea.
      cbn [app ttt_list ttt_tok].
      destruct (rev fa ++ rt) as [|last rr] eqn:E; [destruct Cla|].
      cbn in Cla. rewrite Cla, andb_false_r. cbn [orb]. rewrite bind_ret_l.
      destruct (Cb rest (FOp (opc_of o) :: last :: rr)) as [Eb Clb]; [reflexivity|].
      rewrite Eb. rewrite rev_app_distr. cbn [rev]. rewrite <- !app_assoc. cbn [app]. rewrite <- E.
      split; [reflexivity|]. rewrite E. exact Clb.
  Qed.

  Lemma ttt_ok e : arith e = true -> tokens_to_tokens nm (render e) = (Ok (flat e), []).
  Proof.
    intros H. unfold tokens_to_tokens.
    destruct (ttt_arith e H [] [] I) as [E _]. rewrite !app_nil_r in E. rewrite E.
    cbn [ttt_list]. rewrite bind_ret_l. cbn [fst]. now rewrite rev_involutive.
  Qed.

  (* ---- expression_to_tree: operator precedence *)
  (* lowest precedence of an operator at the top level of (the rendering of) e *)
  Definition minprec (e : expr) : Z :=
    match e with EBin o _ _ => op_order (opc_of o) | _ => 30 end.
  (* everything on top of the stack binds less tightly than p *)
  Definition guard (p : Z) (ops : list sitem) : Prop :=
    match ops with [] => True | top :: _ => item_order top < p end.
  (* an incoming operator (or a closing bracket / the end: None) of precedence at most p *)
  Definition inc_le (inc : option opc) (p : Z) : Prop :=
    match inc with None => True | Some i => op_order i <= p /\ left_prec i = true end.

  (* reading the tokens fl from the stacks (ops, nums) behaves, for everything that can follow an
     expression whose loosest operator has precedence p, like having pushed the tree t *)
  Definition ett_stmt (fl : list ftok) (p : Z) (t : num) : Prop :=
    forall rest ops nums, guard p ops ->
      exists ops' nums',
        ett_loop (fl ++ rest) ops nums = ett_loop rest ops' nums' /\
        forall inc consume, inc_le inc p ->
          process_stack inc consume ops' nums' = process_stack inc consume ops (t :: nums).

  Lemma guard_mono p q ops : p <= q -> guard p ops -> guard q ops.
  Proof. destruct ops as [|top ops]; cbn; intros; [exact I|lia]. Qed.

  Lemma ett_stmt_paren fl p t : 0 < p -> ett_stmt fl p t -> ett_stmt (FOpen :: fl ++ [FClose]) 30 t.
  Proof.
    intros Hp H rest ops nums _. exists ops, (t :: nums). split; [|reflexivity].
    cbn [app ett_loop]. rewrite <- app_assoc.
    destruct (H ([FClose] ++ rest) (SBracket :: ops) nums) as (ops' & nums' & E & Q); [exact Hp|].
    rewrite E. cbn [app ett_loop]. rewrite (Q None true I). cbn [process_stack]. rewrite bind_ret_l. reflexivity.
  Qed.

  Lemma minprec_pos e : 0 < minprec e.
  Proof. destruct e as [| | | |o a b]; cbn; try lia. destruct o; cbn; lia. Qed.

  Lemma minprec_arith o a b : arith_op o = true ->
    minprec (EBin o a b) = 10 \/ minprec (EBin o a b) = 20.
  Proof. destruct o; cbn; intros; try discriminate; auto. Qed.

  Lemma process_guard i ops nums :
    guard (op_order i) ops -> process_stack (Some i) false ops nums = ret (ops, nums).
  Proof.
    destruct ops as [|top ops']; [reflexivity|]. cbn [guard]. intros Hg.
    destruct top as [p| |]; cbn [process_stack]; try reflexivity;
      unfold order_lt; cbn [item_order] in *;
      (destruct (op_order i =? _) eqn:E1; [apply Z.eqb_eq in E1; lia|]);
      (destruct (op_order i <? _) eqn:E2; [apply Z.ltb_lt in E2; lia|]); reflexivity.
  Qed.

  Lemma process_reduce inc consume o ops l r nums :
    inc_le inc (op_order o) ->
    process_stack inc consume (SOp o :: ops) (r :: l :: nums) =
    process_stack inc consume ops (mk_expr o l r :: nums).
  Proof.
    intros Hi. cbn [process_stack item_opc]. destruct inc as [i|]; [|reflexivity].
    destruct Hi as [Hle Hlp]. unfold order_lt. cbn [item_order]. rewrite Hlp.
    destruct (op_order i =? op_order o) eqn:E1; [reflexivity|].
    apply Z.eqb_neq in E1. destruct (op_order i <? op_order o) eqn:E2; [reflexivity|].
    apply Z.ltb_ge in E2. lia.
  Qed.

  Lemma inc_le_mono inc p q : p <= q -> inc_le inc p -> inc_le inc q.
  Proof. destruct inc; cbn; [intros ? [? ?]; split; [lia|assumption]|auto]. Qed.

  Lemma ett_arith e : arith e = true -> ett_stmt (flat e) (minprec e) (tree_of e).
  Proof.
    induction e as [v|z|e IH|e IH|o a IHa b IHb]; cbn [arith]; try discriminate.
    - intros _ rest ops nums _. exists ops, (NVar (score_of nm v) :: nums). split; reflexivity.
    - intros Ha. cbn [flat tree_of minprec]. apply (ett_stmt_paren _ (minprec e)); [apply minprec_pos|now apply IH].
    - intros H. apply andb_true_iff in H. destruct H as [H Hb]. apply andb_true_iff in H. destruct H as [Ho Ha].
      specialize (IHa Ha). specialize (IHb Hb).
      set (P := op_order (opc_of o)).
      (* operands in their contexts *)
      assert (Ca : exists pa, P <= pa /\
                 ett_stmt (if Nat.ltb (lvl a) (need_l o) then FOpen :: flat a ++ [FClose] else flat a) pa (tree_of a)).
      { destruct (Nat.ltb (lvl a) (need_l o)) eqn:El.
        - exists 30. split; [subst P; destruct o; cbn; lia|]. apply (ett_stmt_paren _ (minprec a)); [apply minprec_pos|exact IHa].
        - exists (minprec a). split; [|exact IHa]. apply Nat.ltb_ge in El. subst P.
          destruct a as [va| | |ea|oa a1 a2]; cbn [arith] in Ha; try discriminate; cbn [minprec].
          + destruct o; cbn in Ho |- *; try discriminate; lia.
          + destruct o; cbn in Ho |- *; try discriminate; lia.
          + destruct o, oa; cbn in *; try discriminate; try lia. }
      assert (Cb : exists pb, P < pb /\
                 ett_stmt (if Nat.ltb (lvl b) (need_r o) then FOpen :: flat b ++ [FClose] else flat b) pb (tree_of b)).
      { destruct (Nat.ltb (lvl b) (need_r o)) eqn:El.
        - exists 30. split; [subst P; destruct o; cbn in Ho |- *; try discriminate; lia|]. apply (ett_stmt_paren _ (minprec b)); [apply minprec_pos|exact IHb].
        - exists (minprec b). split; [|exact IHb]. apply Nat.ltb_ge in El. subst P.
          destruct b as [vb| | |eb|ob b1 b2]; cbn [arith] in Hb; try discriminate; cbn [minprec].
          + destruct o; cbn in Ho |- *; try discriminate; lia.
          + destruct o; cbn in Ho |- *; try discriminate; lia.
          + destruct o, ob; cbn in *; try discriminate; try lia. }
      destruct Ca as (pa & Hpa & Sa). destruct Cb as (pb & Hpb & Sb).
      cbn [flat tree_of minprec]. fold P.
      set (fa := if Nat.ltb (lvl a) (need_l o) then FOpen :: flat a ++ [FClose] else flat a) in *.
      set (fb := if Nat.ltb (lvl b) (need_r o) then FOpen :: flat b ++ [FClose] else flat b) in *.
      intros rest ops nums Hg.
      assert (HlpO : left_prec (opc_of o) = true) by (destruct o; cbn in Ho |- *; congruence).
      destruct (Sa (FOp (opc_of o) :: fb ++ rest) ops nums (guard_mono _ _ _ Hpa Hg)) as (opsA & numsA & Ea & Qa).
      rewrite <- app_assoc. cbn [app]. rewrite Ea. cbn [ett_loop].
      rewrite (Qa (Some (opc_of o)) false) by (split; [exact Hpa|exact HlpO]).
      rewrite (process_guard (opc_of o) ops (tree_of a :: nums) Hg), bind_ret_l.
      destruct (Sb rest (SOp (opc_of o) :: ops) (tree_of a :: nums)) as (opsB & numsB & Eb & Qb); [exact Hpb|].
      rewrite Eb. exists opsB, numsB. split; [reflexivity|].
      intros inc consume Hi. rewrite Qb by (apply (inc_le_mono inc P pb); [lia|exact Hi]).
      now apply process_reduce.
  Qed.

  Theorem parse_arith e : arith e = true -> expression_to_tree (flat e) = (Ok (tree_of e), []).
  Proof.
    intros H. unfold expression_to_tree.
    destruct (ett_arith e H [] [] [] I) as (ops' & nums' & E & Q). rewrite app_nil_r in E. rewrite E.
    cbn [ett_loop]. rewrite bind_ret_l. rewrite (Q None false I). cbn [process_stack]. rewrite bind_ret_l.
    reflexivity.
  Qed.
End Parse.
