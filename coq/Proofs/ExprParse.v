(* Proofs.ExprParse — on the "paren-normal" fragment (every operand of a binary operation is a
   variable or a parenthesised binary operation, operators + - * / %) the front end of the model
   (tokens_to_tokens, expression_to_tree) builds the expected tree and fires no tag. *)
From Coq Require Import ZArith String List Bool Lia.
From JMCV Require Import Base.Int32 Base.Dec MC.Syntax Model.Names Model.Expr Model.ExprSpec Model.ExprFront.
Import ListNotations.
Open Scope Z_scope.

Definition arith_op (o : binop) : bool := match o with BPow => false | _ => true end.

(* a variable, or a parenthesised binary operation of such operands *)
Fixpoint pn_atom (e : expr) : bool :=
  match e with
  | EVar _ => true
  | EPar (EBin o a b) => arith_op o && pn_atom a && pn_atom b
  | _ => false
  end.
Definition pn_bin (e : expr) : bool :=
  match e with EBin o a b => arith_op o && pn_atom a && pn_atom b | _ => false end.
Definition pn (e : expr) : bool := pn_atom e || pn_bin e.

Section Parse.
  Variable nm : names.

  Fixpoint tree_of (e : expr) : num :=
    match e with
    | EVar v => NVar (score_of nm v)
    | EConst z => NConst z
    | ENeg e' => tree_of e'
    | EPar e' => tree_of e'
    | EBin o a b => mk_expr (opc_of o) (tree_of a) (tree_of b)
    end.

  Fixpoint flat (e : expr) : list ftok :=
    match e with
    | EVar v => [FVar (score_of nm v)]
    | EPar e' => FOpen :: flat e' ++ [FClose]
    | EBin o a b => flat a ++ FOp (opc_of o) :: flat b
    | _ => []
    end.

  Lemma bind_ret_l {A B} (a : A) (f : A -> M B) : bind (ret a) f = f a.
  Proof. unfold bind, ret. cbn. destruct (f a). reflexivity. Qed.

  (* the inner loop of ttt_tok on a parenthesis is ttt_list *)
  Lemma ttt_inner l : forall st,
    (fix go (l : list tok) (st : tt_state) : M tt_state :=
       match l with
       | [] => ret st
       | x :: r => st' <- ttt_tok nm x st ;; go r st'
       end) l st = ttt_list nm l st.
  Proof. induction l as [|x r IH]; intros st; cbn; [reflexivity|]. f_equal. Qed.

  Lemma ttt_paren l rt :
    ttt_tok nm (KParen l) (rt, false) =
    (inner <- ttt_list nm l ([], false) ;; ret (FClose :: fst inner ++ FOpen :: rt, false)).
  Proof. cbn [ttt_tok]. rewrite bind_ret_l. rewrite ttt_inner. reflexivity. Qed.

  (* the last token of rt is not a KEYWORD (so the next keyword is appended, not merged) *)
  Definition open_end (rt : list ftok) : Prop :=
    match rt with [] => True | t :: _ => is_keyword t = false end.
  (* the last token of rt is a keyword or ")" (so a following "-" is binary) *)
  Definition closed_end (rt : list ftok) : Prop :=
    match rt with [] => False | t :: _ => is_open_operator t = false end.

  Lemma render_atom a : pn_atom a = true ->
    render a = match a with EVar v => [KVarT v] | EPar e' => [KParen (render e')] | _ => [] end.
  Proof. destruct a; cbn; try discriminate; reflexivity. Qed.

  Lemma lvl_atom a : pn_atom a = true -> lvl a = 5%nat.
  Proof. destruct a; cbn; try discriminate; reflexivity. Qed.

  Lemma render_bin o a b : pn_atom a = true -> pn_atom b = true ->
    render (EBin o a b) = render a ++ [KOp (opc_of o)] ++ render b.
  Proof.
    intros Ha Hb. cbn [render]. rewrite (lvl_atom a Ha), (lvl_atom b Hb).
    destruct o; reflexivity.
  Qed.

  Lemma closed_after_atom a rt : pn_atom a = true -> closed_end (rev (flat a) ++ rt).
  Proof.
    destruct a; cbn; try discriminate; intros _; [exact eq_refl|].
    rewrite rev_app_distr. cbn. reflexivity.
  Qed.

  Lemma rev_paren (X : list ftok) rt : rev (FOpen :: X ++ [FClose]) ++ rt = FClose :: rev X ++ FOpen :: rt.
  Proof. cbn [rev]. rewrite rev_app_distr. cbn. rewrite <- app_assoc. reflexivity. Qed.

  Definition atom_stmt (a : expr) : Prop :=
    forall rest rt, open_end rt ->
      ttt_list nm (render a ++ rest) (rt, false) = ttt_list nm rest (rev (flat a) ++ rt, false).
  Definition bin_stmt (e : expr) : Prop :=
    forall rest rt, open_end rt ->
      ttt_list nm (render e ++ rest) (rt, false) = ttt_list nm rest (rev (flat e) ++ rt, false).

  Lemma ttt_both e :
    (pn_atom e = true -> atom_stmt e) /\ (pn_bin e = true -> bin_stmt e).
  Proof.
    induction e as [v|z|e IH|e IH|o a IHa b IHb]; split; try (cbn; discriminate).
    - (* variable *)
      intros _ rest rt Hrt. cbn [render app ttt_list].
      destruct rt as [|last rt']; cbn [ttt_tok].
      + rewrite bind_ret_l. reflexivity.
      + cbn in Hrt. rewrite Hrt. rewrite bind_ret_l. reflexivity.
    - (* parenthesis *)
      intros Hp rest rt Hrt. destruct e as [| | | |o a b]; try (cbn in Hp; discriminate).
      destruct IH as [_ IH]. specialize (IH Hp).
      change (render (EPar (EBin o a b))) with [KParen (render (EBin o a b))].
      cbn [app ttt_list]. rewrite ttt_paren.
      specialize (IH [] [] I). rewrite app_nil_r in IH. rewrite IH. cbn [ttt_list].
      rewrite !bind_ret_l. cbn [fst]. rewrite app_nil_r.
      change (flat (EPar (EBin o a b))) with (FOpen :: flat (EBin o a b) ++ [FClose]).
      rewrite rev_paren. reflexivity.
    - (* binary *)
      intros Hp rest rt Hrt. cbn [pn_bin] in Hp. apply andb_true_iff in Hp. destruct Hp as [Hp Hb].
      apply andb_true_iff in Hp. destruct Hp as [Ho Ha].
      destruct IHa as [IHa _], IHb as [IHb _]. specialize (IHa Ha). specialize (IHb Hb).
      rewrite render_bin by assumption. rewrite <- !app_assoc. rewrite IHa by assumption.
      cbn [app ttt_list ttt_tok].
      pose proof (closed_after_atom a rt Ha) as Hc.
      destruct (rev (flat a) ++ rt) as [|last rr] eqn:E; [destruct Hc|].
      cbn in Hc. rewrite Hc, andb_false_r. cbn [orb]. rewrite bind_ret_l.
      rewrite IHb by (cbn; reflexivity).
      cbn [flat]. rewrite rev_app_distr. cbn [rev]. rewrite <- !app_assoc. cbn [app]. rewrite <- E.
      reflexivity.
  Qed.

  Lemma ttt_pn e : pn e = true -> tokens_to_tokens nm (render e) = (Ok (flat e), []).
  Proof.
    unfold pn. intros H. unfold tokens_to_tokens.
    assert (Hs : ttt_list nm (render e ++ []) ([], false) = ttt_list nm [] (rev (flat e) ++ [], false)).
    { destruct (pn_atom e) eqn:Ea.
      - apply (proj1 (ttt_both e) Ea). exact I.
      - cbn in H. apply (proj2 (ttt_both e) H). exact I. }
    rewrite !app_nil_r in Hs. rewrite Hs. cbn [ttt_list]. rewrite bind_ret_l. cbn [fst].
    now rewrite rev_involutive.
  Qed.

  (* ---- expression_to_tree *)
  Definition top_ok (ops : list sitem) : Prop :=
    match ops with [] => True | SBracket :: _ => True | _ => False end.

  Lemma ett_both e :
    (pn_atom e = true -> forall rest ops nums,
        ett_loop (flat e ++ rest) ops nums = ett_loop rest ops (tree_of e :: nums)) /\
    (pn_bin e = true -> forall rest ops nums, top_ok ops ->
        match e with
        | EBin o a b => ett_loop (flat e ++ rest) ops nums =
                        ett_loop rest (SOp (opc_of o) :: ops) (tree_of b :: tree_of a :: nums)
        | _ => True
        end).
  Proof.
    induction e as [v|z|e IH|e IH|o a IHa b IHb]; split; try (cbn; discriminate).
    - intros _ rest ops nums. reflexivity.
    - intros Hp rest ops nums. destruct e as [| | | |o a b]; try (cbn in Hp; discriminate).
      destruct IH as [_ IH]. specialize (IH Hp).
      change (flat (EPar (EBin o a b))) with (FOpen :: flat (EBin o a b) ++ [FClose]).
      cbn [app ett_loop]. rewrite <- app_assoc. rewrite (IH _ (SBracket :: ops) nums I).
      cbn [app ett_loop process_stack].
      unfold tell_if. rewrite !bind_ret_l. reflexivity.
    - intros Hp rest ops nums Hops. cbn [pn_bin] in Hp. apply andb_true_iff in Hp. destruct Hp as [Hp Hb].
      apply andb_true_iff in Hp. destruct Hp as [Ho Ha].
      destruct IHa as [IHa _], IHb as [IHb _]. specialize (IHa Ha). specialize (IHb Hb).
      cbn [flat]. rewrite <- app_assoc. rewrite IHa. cbn [app ett_loop].
      assert (Hstep : (match ops with
                       | top :: _ => if order_lt (opc_of o) top then process_stack (Some (opc_of o)) false ops (tree_of a :: nums)
                                     else ret (ops, tree_of a :: nums)
                       | [] => ret (ops, tree_of a :: nums)
                       end) = ret (ops, tree_of a :: nums)).
      { destruct ops as [|[p|] ops']; try reflexivity. destruct Hops. }
      rewrite Hstep, bind_ret_l. rewrite IHb. reflexivity.
  Qed.

  Lemma ett_pn e : pn e = true -> expression_to_tree (flat e) = (Ok (tree_of e), []).
  Proof.
    unfold pn, expression_to_tree. intros H. destruct (pn_atom e) eqn:Ea.
    - pose proof (proj1 (ett_both e) Ea [] [] []) as Hs. rewrite app_nil_r in Hs. rewrite Hs.
      cbn [ett_loop]. rewrite bind_ret_l. cbn [process_stack]. rewrite bind_ret_l. reflexivity.
    - cbn in H. destruct e as [| | | |o a b]; try discriminate.
      pose proof (proj2 (ett_both (EBin o a b)) H [] [] [] I) as Hs. rewrite app_nil_r in Hs. rewrite Hs.
      cbn [ett_loop]. rewrite bind_ret_l. cbn [process_stack]. unfold tell_if. rewrite !bind_ret_l.
      reflexivity.
  Qed.
End Parse.
