(* Proofs.ComposeCond — composition of property C03 (the lowering of a boolean FORMULA guards
   exactly when the formula is true and touches `__logic__N` flags only) with properties C04
   (if / else-if / else chains) and C05 (loops), whose theorems take a condition abstractly as a
   pair (precommand lines, execute guards).

   Model.CondLower.cond_of_formula builds that pair from a formula with Model.Cond.parse_condition
   (it is what the correspondence drivers feed to the chain / loop models).  Here:
   (a) such a condition satisfies every hypothesis C04/C05 put on conditions;
   (b) testing it from ANY state decides `eval st f` and changes `__logic__N` flags only;
   then the chain / loop theorems are restated with formulas: the branch taken is the first whose
   formula is true, a loop iterates while its formula is true. *)
From Coq Require Import ZArith String List Bool Lia.
From JMCV Require Import Base.Int32 Base.Dec MC.Syntax MC.Sem MC.Facts Model.Names Model.PrivAlloc
     Model.IfElse Model.Loop Model.CondLower
     Proofs.IfElseBase Proofs.IfElse Proofs.IfElseTrace Proofs.Loop.
From JMCV Require Model.Cond Proofs.CondBase Proofs.Cond Proofs.CondFormula.
Import ListNotations.

(* Model.Cond and Model.IfElse both have a `cond` and a `flag`: C03's names are used qualified. *)
Notation formula := JMCV.Model.Cond.formula.
Notation eval := JMCV.Model.Cond.eval.
Notation logic_flag := JMCV.Model.Cond.flag.          (* `__logic__k <VAR>` *)
Notation user_score := JMCV.Proofs.CondBase.user_score. (* a score that is no `__logic__k` *)
Notation formula_ok := JMCV.Proofs.CondFormula.formula_ok.

(* c is the lowering of the formula f (in either source position), f within C03's theorem *)
Definition lowers (nm : names) (f : formula) (c : cond) : Prop :=
  formula_ok nm f /\ exists wrapped, cond_of_formula nm wrapped f = Some c.

(* st' is st except on `__logic__N` flags *)
Definition same_but_logic (nm : names) (st st' : state) : Prop :=
  (forall s, user_score nm s -> sc st' s = sc st s) /\ stg st' = stg st /\ tr st' = tr st.

Lemma same_but_logic_refl nm st : same_but_logic nm st st.
Proof. repeat split. Qed.
Lemma same_but_logic_trans nm a b c :
  same_but_logic nm a b -> same_but_logic nm b c -> same_but_logic nm a c.
Proof.
  intros (A1 & A2 & A3) (B1 & B2 & B3). repeat split; try congruence.
  intros s Hs. rewrite B1 by exact Hs. apply A1. exact Hs.
Qed.

(* ------------------------------------------------------------------ the two scratch scores differ *)

(* `__if_else__` is not a `__logic__N` flag: it is a user score in the sense of C03, so C03's frame
   clause covers it. *)
Lemma if_else_flag_user nm : user_score nm (flag nm).
Proof.
  intros k E. unfold flag, JMCV.Model.Cond.flag, JMCV.Model.Cond.logic_name in E.
  injection E as E. cbn [append] in E. discriminate E.
Qed.

Lemma logic_flag_neq nm k : score_eqb (logic_flag nm k) (flag nm) = false.
Proof. apply score_eqb_neq. intros E. exact (if_else_flag_user nm k (eq_sym E)). Qed.

(* ------------------------------------------------------------------ (a) shape of the precommands *)

Lemma mifs_are_ifs cs : forallb is_if (map JMCV.Model.Cond.mif cs) = true.
Proof. induction cs as [|c cs IH]; [reflexivity|exact IH]. Qed.

Lemma pre_to_cmds_simple nm ps : forall init,
  forallb (simple_pre (flag nm)) (JMCV.Model.Cond.pre_to_cmds nm init ps) = true /\
  forallb quiet_pre (JMCV.Model.Cond.pre_to_cmds nm init ps) = true.
Proof.
  induction ps as [|[cs k] r IH]; intros init; [split; reflexivity|].
  cbn [JMCV.Model.Cond.pre_to_cmds]. destruct (JMCV.Model.Cond.mem k init).
  - destruct (IH init) as [A B]. cbn [forallb simple_pre quiet_pre map is_if JMCV.Model.Cond.mif].
    rewrite mifs_are_ifs, logic_flag_neq, A, B. split; reflexivity.
  - destruct (IH (k :: init)) as [A B]. cbn [forallb simple_pre quiet_pre].
    rewrite mifs_are_ifs, logic_flag_neq, A, B. split; reflexivity.
Qed.

(* Whatever the formula: the precommand lines are `scoreboard players set __logic__k …`, bare or
   under `execute if/unless score …` — the "emitted shape" asked by C04_exactly_one
   (simple_cond), C05_any_nesting_depth (simple_stmts) and C05_iterations_in_trace (quiet_pre). *)
Lemma lowered_shape nm wrapped f c :
  cond_of_formula nm wrapped f = Some c ->
  simple_cond (flag nm) c = true /\ forallb quiet_pre (c_pre c) = true.
Proof.
  unfold cond_of_formula, JMCV.Model.Cond.parse_condition, JMCV.Model.Cond.parse_ast. intros E.
  destruct (JMCV.Model.Cond.condition_to_ast _ _) as [a|]; [|discriminate].
  destruct (JMCV.Model.Cond.ast_to_commands nm _ a 0) as [[[cs ps] c']|]; [|discriminate].
  injection E as <-. unfold simple_cond. cbn [c_pre]. apply pre_to_cmds_simple.
Qed.

(* ------------------------------------------------------------------ (b) testing decides eval *)
Section Test.
  Variable ft : string -> option (list cmd).
  Variable env : nat -> state -> state.
  Variable nm : names.

  Notation runs := (runs ft env).

  (* the state in which the guards of c are evaluated when c is tested from st: the one its
     precommand lines leave (they are scoreboard lines: fuel 2 is enough) *)
  Definition after_test (c : cond) (st : state) : state :=
    match exec_list ft env 2 (c_pre c) st with Some s => s | None => st end.

  (* C03_guard_iff_partial, read for a condition of Model.IfElse *)
  Theorem test_formula f c :
    lowers nm f c ->
    forall st,
      runs (c_pre c) st (after_test c st) /\
      same_but_logic nm st (after_test c st) /\
      tests_hold (after_test c st) (c_tests c) = eval st f.
  Proof.
    intros [Ok [w E]] st. unfold cond_of_formula in E.
    destruct (JMCV.Model.Cond.parse_condition nm _) as [[pcs cs]|] eqn:P; [|discriminate].
    injection E as <-. unfold after_test. cbn [c_pre c_tests].
    destruct (JMCV.Proofs.CondFormula.guard_iff ft env nm w f pcs cs 0 st P Ok)
      as [_ [st1 [X1 [X2 [X3 [X4 X5]]]]]].
    rewrite X1. split; [exists 2%nat; exact X1|]. split; [repeat split; assumption|].
    rewrite JMCV.Proofs.Cond.exec_guarded_ext in X5.
    change (tests_hold st1 cs) with (JMCV.Proofs.CondBase.conds_true st1 cs).
    destruct (JMCV.Proofs.CondBase.conds_true st1 cs), (eval st f); try reflexivity; discriminate X5.
  Qed.

  (* every emitted line is a well-formed command *)
  Lemma lowered_wf f c :
    lowers nm f c -> forallb wf_cmd (c_pre c) = true /\ forallb wf_mod (mods_of (c_tests c)) = true.
  Proof.
    intros [Ok [w E]]. unfold cond_of_formula in E.
    destruct (JMCV.Model.Cond.parse_condition nm _) as [[pcs cs]|] eqn:P; [|discriminate].
    injection E as <-. cbn [c_pre c_tests].
    destruct (JMCV.Proofs.CondFormula.guard_iff ft env nm w f pcs cs 0 (mkState (fun _ => None) (fun _ => None) []) P Ok)
      as [W _].
    rewrite forallb_app in W. apply andb_true_iff in W. destruct W as [W1 W2]. split; [exact W1|].
    unfold JMCV.Model.Cond.guarded in W2. cbn [forallb wf_cmd] in W2.
    rewrite !andb_true_r in W2. exact W2.
  Qed.

  (* any run of the precommands is that one *)
  Lemma test_unique f c st st1 :
    lowers nm f c -> runs (c_pre c) st st1 -> st1 = after_test c st.
  Proof.
    intros L R. destruct (test_formula f c L st) as [R' _]. eapply runs_det; eauto.
  Qed.

  (* (a) the hypothesis of C04_chain_runs_selected_branch / C04_any_nesting_depth, obtained from
     C03's frame clause: `__if_else__` is a user score, the test leaves user scores alone *)
  Theorem lowered_keeps_flag f c : lowers nm f c -> keeps_flag nm ft env c.
  Proof.
    intros L st st1 R. rewrite (test_unique f c st st1 L R).
    destruct (test_formula f c L st) as (_ & (S & _) & _). apply S. apply if_else_flag_user.
  Qed.
End Test.

(* (a) and (b) together, for the record *)
Theorem condition_of_formula nm ft env f c :
  lowers nm f c ->
  keeps_flag nm ft env c /\
  simple_cond (flag nm) c = true /\ forallb quiet_pre (c_pre c) = true /\
  forallb wf_cmd (c_pre c) = true /\ forallb wf_mod (mods_of (c_tests c)) = true /\
  forall st, exists st1,
    runs ft env (c_pre c) st st1 /\ (forall st2, runs ft env (c_pre c) st st2 -> st2 = st1) /\
    same_but_logic nm st st1 /\
    tests_hold st1 (c_tests c) = eval st f.
Proof.
  intros L. split; [eapply lowered_keeps_flag; eauto|].
  destruct L as [Ok [w Lw]]. destruct (lowered_shape nm w f c Lw) as [A B].
  assert (L : lowers nm f c) by (split; [exact Ok|exists w; exact Lw]).
  destruct (lowered_wf ft env nm f c L) as [W1 W2].
  split; [exact A|]. split; [exact B|]. split; [exact W1|]. split; [exact W2|].
  intros st. exists (after_test ft env c st).
  destruct (test_formula ft env nm f c L st) as (R & S & T).
  split; [exact R|]. split; [intros st2 R2; eapply test_unique; eauto|]. split; [exact S|exact T].
Qed.

(* ------------------------------------------------------------------ eval reads user scores only *)

Lemma atom_true_agree nm st st' a :
  (forall s, user_score nm s -> sc st' s = sc st s) ->
  Forall (user_score nm) (JMCV.Proofs.CondFormula.atom_scores a) ->
  JMCV.Model.Cond.atom_true st' a = JMCV.Model.Cond.atom_true st a.
Proof.
  intros A H. destruct a as [s|s o [z|s2]|s a b]; cbn in *.
  - inversion H; subst. rewrite A by assumption. reflexivity.
  - inversion H; subst. rewrite A by assumption. reflexivity.
  - inversion H as [|? ? H1 H2]; subst. inversion H2; subst.
    rewrite (A s), (A s2) by assumption. reflexivity.
  - inversion H; subst. rewrite A by assumption. reflexivity.
Qed.

Lemma Forall_flat_map_inv {A B} (Q : B -> Prop) (g : A -> list B) l :
  Forall Q (flat_map g l) -> Forall (fun x => Forall Q (g x)) l.
Proof.
  induction l as [|x l IH]; cbn [flat_map]; intros H; [constructor|].
  apply Forall_app in H. destruct H as [H1 H2]. constructor; auto.
Qed.

Lemma eval_agree nm st st' (f : formula) :
  (forall s, user_score nm s -> sc st' s = sc st s) ->
  Forall (JMCV.Proofs.CondFormula.atom_ok nm) (JMCV.Proofs.CondFormula.atoms f) ->
  eval st' f = eval st f.
Proof.
  intros A. induction f as [x|l IH|l IH|x IH] using JMCV.Proofs.CondBase.tree_ind';
    cbn [JMCV.Model.Cond.eval JMCV.Proofs.CondFormula.atoms]; intros H.
  - inversion H as [|? ? [Hs _] _]; subst. eapply atom_true_agree; eauto.
  - apply Forall_flat_map_inv in H. induction IH as [|y l Hy _ IHl]; [reflexivity|].
    inversion H; subst. cbn [forallb]. rewrite Hy, IHl by assumption. reflexivity.
  - apply Forall_flat_map_inv in H. induction IH as [|y l Hy _ IHl]; [reflexivity|].
    inversion H; subst. cbn [existsb]. rewrite Hy, IHl by assumption. reflexivity.
  - rewrite IH by exact H. reflexivity.
Qed.

Lemma eval_same_but_logic nm st st' f :
  same_but_logic nm st st' -> formula_ok nm f -> eval st' f = eval st f.
Proof. intros (A & _) [_ H]. eapply eval_agree; eauto. Qed.

(* a formula that does not read a score does not see it change *)
Lemma eval_set_unread st k v (f : formula) :
  Forall (fun a => ~ In k (JMCV.Proofs.CondFormula.atom_scores a)) (JMCV.Proofs.CondFormula.atoms f) ->
  eval (set_sc st k v) f = eval st f.
Proof.
  induction f as [x|l IH|l IH|x IH] using JMCV.Proofs.CondBase.tree_ind';
    cbn [JMCV.Model.Cond.eval JMCV.Proofs.CondFormula.atoms]; intros H.
  - inversion H as [|? ? Hx _]; subst.
    assert (U : forall s, In s (JMCV.Proofs.CondFormula.atom_scores x) -> sc (set_sc st k v) s = sc st s).
    { intros s Hs. cbn. apply upd_other. intros ->. exact (Hx Hs). }
    destruct x as [s|s o [z|s2]|s a b]; cbn [JMCV.Model.Cond.atom_true JMCV.Model.Cond.operand_val];
      cbn [JMCV.Proofs.CondFormula.atom_scores] in U;
      rewrite ?(U s) by (cbn; auto); try rewrite (U s2) by (cbn; auto); reflexivity.
  - apply Forall_flat_map_inv in H. induction IH as [|y l Hy _ IHl]; [reflexivity|].
    inversion H; subst. cbn [forallb]. rewrite Hy, IHl by assumption. reflexivity.
  - apply Forall_flat_map_inv in H. induction IH as [|y l Hy _ IHl]; [reflexivity|].
    inversion H; subst. cbn [existsb]. rewrite Hy, IHl by assumption. reflexivity.
  - rewrite IH by exact H. reflexivity.
Qed.

(* ------------------------------------------------------------------ chains *)

(* The source-level choice of an if / else-if / else chain whose conditions are the formulas fs,
   in the state st: the FIRST formula that is true, else the else part, else nothing. *)
Fixpoint select (st : state) (fs : list formula) (has_else : bool) : outcome :=
  match fs with
  | [] => if has_else then TookElse else TookNone
  | f :: r => if eval st f then Took 0 else shift (select st r has_else)
  end.

Definition is_some {A} (o : option A) : bool := match o with Some _ => true | None => false end.

Lemma select_spec st fs he :
  match select st fs he with
  | Took i => exists f, nth_error fs i = Some f /\ eval st f = true /\
                        forall j g, (j < i)%nat -> nth_error fs j = Some g -> eval st g = false
  | TookElse => he = true /\ Forall (fun g => eval st g = false) fs
  | TookNone => he = false /\ Forall (fun g => eval st g = false) fs
  end.
Proof.
  induction fs as [|f r IH]; cbn [select].
  - destruct he; split; auto.
  - destruct (eval st f) eqn:E.
    + exists f. split; [reflexivity|]. split; [exact E|]. intros j g Hj. lia.
    + destruct (select st r he) as [i| |]; cbn [shift].
      * destruct IH as (g & N & T & B). exists g. split; [exact N|]. split; [exact T|].
        intros [|j] h Hj Hn; cbn in Hn; [congruence|]. eapply B; eauto. lia.
      * destruct IH; split; auto.
      * destruct IH; split; auto.
Qed.

Lemma select_agree nm st st' fs he :
  same_but_logic nm st st' -> Forall (formula_ok nm) fs -> select st' fs he = select st fs he.
Proof.
  intros S H. induction H as [|f r Hf _ IH]; [reflexivity|]. cbn [select].
  rewrite (eval_same_but_logic nm st st' f S Hf), IH. reflexivity.
Qed.

Lemma sel_body_shift cb brs e o : sel_body (cb :: brs) e (shift o) = sel_body brs e o.
Proof. destruct o; reflexivity. Qed.

Lemma Forall2_lowers_ok nm (brs : list (cond * list cmd)) fs :
  Forall2 (fun cb f => lowers nm f (fst cb)) brs fs -> Forall (formula_ok nm) fs.
Proof. induction 1 as [|cb f brs fs [Ok _] _ IH]; constructor; assumption. Qed.

Section Chain.
  Variable nm : names.
  Variable ft : string -> option (list cmd).
  Variable env : nat -> state -> state.
  Notation runs := (runs ft env).

  (* chain_sem (conditions = whatever MC/Sem says when precommands and guards run) on conditions
     that are lowerings of formulas IS the formula-level choice: there is a state stb, equal to st
     except on `__logic__N`, such that the chain does exactly "run the body `select` designates
     from stb".  Bodies are arbitrary. *)
  Lemma chain_sem_lowered brs fs e :
    Forall2 (fun cb f => lowers nm f (fst cb)) brs fs ->
    forall st, exists stb, same_but_logic nm st stb /\
      forall o st'', chain_sem ft env brs e st o st'' <->
                     o = select st fs (is_some e) /\ runs (sel_body brs e o) stb st''.
  Proof.
    intros F. pose proof (Forall2_lowers_ok _ _ _ F) as Oks. revert Oks.
    induction F as [|[c b] f brs fs L _ IH]; intros Oks st.
    - exists st. split; [apply same_but_logic_refl|]. intros o st''. destruct e as [b|]; cbn [select is_some].
      + split.
        * intros H. inversion H; subst. split; [reflexivity|assumption].
        * intros [-> H]. constructor. exact H.
      + split.
        * intros H. inversion H; subst. split; [reflexivity|apply runs_nil; reflexivity].
        * intros [-> H]. cbn [sel_body] in H. apply runs_nil in H. subst. constructor.
    - cbn [fst] in L. inversion Oks as [|? ? Okf Oks']; subst.
      destruct (test_formula ft env nm f c L st) as (R & S & T).
      cbn [select]. destruct (eval st f) eqn:Ev.
      + exists (after_test ft env c st). split; [exact S|]. intros o st''. split.
        * intros H. inversion H as [| |c0 b0 r0 e0 s0 s1 s2 Hp Ht Hb|c0 b0 r0 e0 s0 s1 o0 s2 Hp Ht Hr]; subst.
          -- rewrite (test_unique ft env nm f c _ _ L Hp) in Hb. split; [reflexivity|exact Hb].
          -- rewrite (test_unique ft env nm f c _ _ L Hp) in Ht. congruence.
        * intros [-> H]. eapply CS_take; [exact R|congruence|exact H].
      + destruct (IH Oks' (after_test ft env c st)) as (stb & Sb & Hb).
        exists stb. split; [eapply same_but_logic_trans; eauto|]. intros o st''. split.
        * intros H. inversion H as [| |c0 b0 r0 e0 s0 s1 s2 Hp Ht Hbd|c0 b0 r0 e0 s0 s1 o0 s2 Hp Ht Hr]; subst.
          -- rewrite (test_unique ft env nm f c _ _ L Hp) in Ht. congruence.
          -- rewrite (test_unique ft env nm f c _ _ L Hp) in Hr. apply Hb in Hr. destruct Hr as [-> Hr].
             rewrite sel_body_shift. split; [|exact Hr].
             rewrite (select_agree nm st _ fs _ S Oks'). reflexivity.
        * intros [-> H]. rewrite sel_body_shift in H. eapply CS_skip; [exact R|congruence|].
          apply Hb. split; [|exact H]. symmetry. apply (select_agree nm st _ fs _ S Oks').
    Qed.

  Lemma Forall2_map_l {A B C} (R : B -> C -> Prop) (Q : A -> Prop) (g : A -> B) l l' :
    Forall2 R (map g l) l' -> (forall x y, R (g x) y -> Q x) -> Forall Q l.
  Proof.
    revert l'. induction l as [|x l IH]; intros l' H HQ; [constructor|].
    cbn [map] in H. inversion H; subst. constructor; eauto.
  Qed.

  (* C04_chain_runs_selected_branch + C03_guard_iff_partial *)
  Theorem chain_with_formulas first rest last caller fs forms :
    chain_code nm first rest last = (caller, fs) -> installed ft fs ->
    Forall2 (fun cb f => lowers nm f (fst cb)) (chain_branches first rest last) forms ->
    forall st,
      let o := select (set_sc st (flag nm) 0) forms (is_some (last_else last)) in
      exists stb,
        (forall s, user_score nm s -> s <> flag nm -> sc stb s = sc st s) /\
        sc stb (flag nm) = Some 0%Z /\ stg stb = stg st /\ tr stb = tr st /\
        forall st', runs caller st st' <->
                    exists st'', runs (sel_body (chain_branches first rest last) (last_else last) o) stb st'' /\
                                 st' = finish nm (S (length rest)) o st''.
  Proof.
    intros E I F st o.
    assert (K0 : keeps_flag nm ft env (w_cond first)).
    { unfold chain_branches in F. inversion F as [|? ? ? ? L _]; subst. cbn [fst src_of] in L.
      eapply lowered_keeps_flag; eauto. }
    assert (K : Forall (fun wr => keeps_flag nm ft env (w_cond (fst wr))) rest).
    { unfold chain_branches in F. inversion F as [|? ? ? ? _ F']; subst.
      apply Forall2_app_inv_l in F'. destruct F' as (l1 & l2 & F1 & _ & _).
      eapply Forall2_map_l; [exact F1|]. intros wr f L. cbn [fst src_of] in L.
      eapply lowered_keeps_flag; eauto. }
    destruct (chain_sem_lowered _ _ (last_else last) F (set_sc st (flag nm) 0)) as (stb & (S1 & S2 & S3) & H).
    exists stb. split.
    { intros s Hu Hn. rewrite S1 by exact Hu. cbn. apply upd_other. congruence. }
    split. { rewrite S1 by apply if_else_flag_user. cbn. apply upd_same. }
    split; [exact S2|]. split; [exact S3|].
    intros st'. rewrite (chain_correct nm ft env _ _ _ _ _ E I K0 K st st'). split.
    - intros (o' & st'' & C & ->). apply H in C. destruct C as [-> C]. exists st''. split; [exact C|reflexivity].
    - intros (st'' & C & ->). exists o, st''. split; [|reflexivity]. apply H. split; [reflexivity|exact C].
  Qed.

  (* a lone `if` *)
  Theorem single_if_with_formula f c body aid caller fs :
    single_if_code nm c body aid = (caller, fs) -> installed ft fs -> lowers nm f c ->
    forall st, exists stb, same_but_logic nm st stb /\
      forall st', runs caller st st' <-> if eval st f then runs body stb st' else st' = stb.
  Proof.
    intros E I L st.
    assert (F : Forall2 (fun cb g => lowers nm g (fst cb)) [(c, body)] [f]) by (constructor; [exact L|constructor]).
    destruct (chain_sem_lowered _ _ None F st) as (stb & S & H).
    exists stb. split; [exact S|]. intros st'.
    rewrite (single_if_correct nm ft env _ _ _ _ _ E I st st'). cbn [select is_some] in H. split.
    - intros (o & C). apply H in C. destruct C as [-> C]. destruct (eval st f); cbn in C; [exact C|].
      apply runs_nil in C. exact C.
    - intros C. exists (if eval st f then Took 0 else shift TookNone). apply H. split; [reflexivity|].
      destruct (eval st f); cbn; [exact C|]. apply runs_nil. exact C.
  Qed.

  (* frame: a user score (other than `__if_else__`) that the bodies do not write is unchanged *)
  Theorem chain_frame first rest last caller fs forms s :
    chain_code nm first rest last = (caller, fs) -> installed ft fs ->
    Forall2 (fun cb f => lowers nm f (fst cb)) (chain_branches first rest last) forms ->
    user_score nm s -> s <> flag nm ->
    forall st st',
      (forall a b, runs (sel_body (chain_branches first rest last) (last_else last)
                                  (select (set_sc st (flag nm) 0) forms (is_some (last_else last)))) a b ->
                   sc b s = sc a s) ->
      runs caller st st' -> sc st' s = sc st s.
  Proof.
    intros E I F Hu Hn st st' Hb R.
    destruct (chain_with_formulas _ _ _ _ _ _ E I F st) as (stb & Hs & _ & _ & _ & H).
    apply H in R. destruct R as (st'' & R & ->).
    rewrite <- (Hs s Hu Hn), <- (Hb _ _ R).
    unfold finish. destruct (select _ _ _) as [i| |]; try reflexivity.
    destruct (i <? S (length rest))%nat; [|reflexivity]. cbn. apply upd_other. congruence.
  Qed.

  (* ---- exactly once, in terms of the trace (C04_exactly_one with formulas) ---- *)
  Hypothesis env_tr : forall n st, tr (env n st) = tr st.

  Lemma Forall2_simple_ext (brs : list (cond * list cmd)) forms :
    Forall2 (fun cb f => lowers nm f (fst cb)) brs forms ->
    Forall (fun cb => all_ext (snd cb) = true) brs ->
    Forall (fun cb => simple_cond (flag nm) (fst cb) = true /\ all_ext (snd cb) = true) brs.
  Proof.
    induction 1 as [|cb f brs forms [_ [w L]] _ IH]; intros H; [constructor|].
    inversion H; subst. constructor; [|auto]. split; [|assumption].
    apply (lowered_shape nm w f _ L).
  Qed.

  Theorem formulas_exactly_one first rest last caller fs forms after :
    chain_code nm first rest last = (caller, fs) -> installed ft fs ->
    Forall2 (fun cb f => lowers nm f (fst cb)) (chain_branches first rest last) forms ->
    Forall (fun cb => all_ext (snd cb) = true) (chain_branches first rest last) ->
    match last_else last with Some b => all_ext b = true | None => True end ->
    forall st,
      let o := select (set_sc st (flag nm) 0) forms (is_some (last_else last)) in
      exists st',
        runs (caller ++ [CExt after]) st st' /\
        (forall st2, runs (caller ++ [CExt after]) st st2 -> st2 = st') /\
        tr st' = EExt after ::
                 rev (map EExt (ext_ids (sel_body (chain_branches first rest last) (last_else last) o))) ++ tr st.
  Proof.
    intros E I F X Xe st o.
    destruct (exactly_one nm ft env env_tr _ _ _ _ _ after E I (Forall2_simple_ext _ _ F X) Xe st)
      as (o' & st'' & st' & C & R & U & _ & T).
    destruct (chain_sem_lowered _ _ (last_else last) F (set_sc st (flag nm) 0)) as (stb & _ & H).
    apply H in C. destruct C as [-> _].
    exists st'. split; [exact R|]. split; [exact U|exact T].
  Qed.
End Chain.

(* `__if_else__` is zeroed before the first test; a chain none of whose formulas reads it chooses
   as in the state at entry *)
Lemma select_ignores_flag nm st fs he :
  Forall (fun f => Forall (fun a => ~ In (flag nm) (JMCV.Proofs.CondFormula.atom_scores a))
                          (JMCV.Proofs.CondFormula.atoms f)) fs ->
  select (set_sc st (flag nm) 0) fs he = select st fs he.
Proof.
  induction 1 as [|f r Hf _ IH]; [reflexivity|]. cbn [select].
  rewrite (eval_set_unread st (flag nm) 0%Z f Hf), IH. reflexivity.
Qed.

(* ------------------------------------------------------------------ loops *)

(* The JavaScript unfolding of `while (test) iter` with exactly n iterations.  `test` is a
   function of the state BEFORE the iteration; T is the side effect of evaluating the test (for a
   lowered formula: `__logic__N` flags are overwritten, nothing else). *)
Inductive js_while (test : state -> bool) (T : state -> state) (iter : state -> state -> Prop)
  : state -> nat -> state -> Prop :=
| JW_stop st : test st = false -> js_while test T iter st 0 (T st)
| JW_iter st st2 n st' :
    test st = true -> iter (T st) st2 -> js_while test T iter st2 n st' ->
    js_while test T iter st (S n) st'.

(* the same unfolding as a program (reference for examples): `while (test st) st := body st` *)
Fixpoint js_iter (fuel : nat) (test : state -> bool) (body : state -> option state) (st : state)
  : option (nat * state) :=
  match fuel with
  | O => None
  | S k =>
    if test st then
      match body st with
      | Some s => match js_iter k test body s with Some (n, s') => Some (S n, s') | None => None end
      | None => None
      end
    else Some (O, st)
  end.

Section Loops.
  Variable ft : string -> option (list cmd).
  Variable env : nat -> state -> state.
  Variable nm : names.
  Notation runs := (runs ft env).

  (* loop_sem (test = run precommands, evaluate guards) on a lowered formula is js_while on eval.
     iter is arbitrary: the body may overwrite `__logic__N` — every test rewrites the flags it reads. *)
  Lemma loop_sem_lowered f c iter :
    lowers nm f c ->
    forall st n st', loop_sem ft env c iter st n st' <->
                     js_while (fun s => eval s f) (after_test ft env c) iter st n st'.
  Proof.
    intros L st n st'. split.
    - induction 1 as [st st1 Hp T|st st1 st2 n st' Hp T Hi _ IH];
        pose proof (test_unique ft env nm f c _ _ L Hp) as U; subst st1;
        destruct (test_formula ft env nm f c L st) as (_ & _ & Ev).
      + apply JW_stop. congruence.
      + eapply JW_iter; [congruence|exact Hi|exact IH].
    - induction 1 as [st Ev|st st2 n st' Ev Hi _ IH];
        destruct (test_formula ft env nm f c L st) as (R & _ & Tt).
      + apply LS_stop; [exact R|congruence].
      + eapply LS_iter; [exact R|congruence|exact Hi|exact IH].
  Qed.

  Lemma after_test_same f c : lowers nm f c -> forall st, same_but_logic nm st (after_test ft env c st).
  Proof. intros L st. apply (test_formula ft env nm f c L st). Qed.

  Theorem while_with_formula f c body k caller fs :
    lowers nm f c -> while_code nm c body k = (caller, fs) -> installed ft fs ->
    exists T, (forall st, same_but_logic nm st (T st)) /\
      forall st st', runs caller st st' <->
                     exists n, js_while (fun s => eval s f) T (runs body) st n st'.
  Proof.
    intros L E I. exists (after_test ft env c). split; [apply (after_test_same f c L)|].
    intros st st'. rewrite (while_correct ft env nm _ _ _ _ _ E I st st').
    split; intros [n H]; exists n; apply (loop_sem_lowered f c _ L); exact H.
  Qed.

  Theorem dowhile_with_formula f c body k caller fs :
    lowers nm f c -> dowhile_code nm c body k = (caller, fs) -> installed ft fs ->
    exists T, (forall st, same_but_logic nm st (T st)) /\
      forall st st', runs caller st st' <->
                     exists n st2, runs body st st2 /\
                                   js_while (fun s => eval s f) T (runs body) st2 n st'.
  Proof.
    intros L E I. exists (after_test ft env c). split; [apply (after_test_same f c L)|].
    intros st st'. rewrite (dowhile_correct ft env nm _ _ _ _ _ E I st st'). split.
    - intros [n H]. inversion H as [s0 st2 n0 s1 Hb Hl]; subst. exists n0, st2. split; [exact Hb|].
      apply (loop_sem_lowered f c _ L). exact Hl.
    - intros (n & st2 & Hb & Hl). exists (S n). econstructor; [exact Hb|].
      apply (loop_sem_lowered f c _ L). exact Hl.
  Qed.

  Theorem for_with_formula f c init step body k caller fs :
    lowers nm f c -> for_code nm init c step body k = (caller, fs) -> installed ft fs ->
    exists T, (forall st, same_but_logic nm st (T st)) /\
      forall st st', runs caller st st' <->
                     exists n st0, runs init st st0 /\
                                   js_while (fun s => eval s f) T
                                            (fun a b => exists m, runs body a m /\ runs step m b) st0 n st'.
  Proof.
    intros L E I. exists (after_test ft env c). split; [apply (after_test_same f c L)|].
    intros st st'. rewrite (for_correct ft env nm _ _ _ _ _ _ _ E I st st'). split.
    - intros [n H]. inversion H as [s0 st0 n0 s1 Hi Hl]; subst. exists n, st0. split; [exact Hi|].
      apply (loop_sem_lowered f c _ L). exact Hl.
    - intros (n & st0 & Hi & Hl). exists n. econstructor; [exact Hi|].
      apply (loop_sem_lowered f c _ L). exact Hl.
  Qed.

  (* the iteration count is what the trace shows *)
  Theorem formula_iterations_in_trace f c body :
    (forall n st, tr (env n st) = tr st) ->
    lowers nm f c -> all_ext body = true ->
    forall st n st', js_while (fun s => eval s f) (after_test ft env c) (runs body) st n st' ->
      tr st' = times n (rev (map EExt (ext_ids body))) ++ tr st.
  Proof.
    intros env_tr L X st n st' H. apply (loop_sem_lowered f c _ L) in H.
    destruct L as [_ [w Lw]]. destruct (lowered_shape nm w f c Lw) as [_ Q].
    eapply loop_trace; eauto.
  Qed.
End Loops.

(* ------------------------------------------------------------------ whole statement trees *)
From JMCV Require Import Proofs.LoopLink.

(* every condition of the tree is the lowering of some formula *)
Definition from_formula (nm : names) (c : cond) : Prop :=
  exists wrapped f, cond_of_formula nm wrapped f = Some c.

Fixpoint formula_stmt (nm : names) (s : stmt) : Prop :=
  match s with
  | SCmd _ => True
  | SIf b e => formula_branches nm b /\ formula_oelse nm e
  | SWhile c body => from_formula nm c /\ formula_stmts nm body
  | SDoWhile body c => from_formula nm c /\ formula_stmts nm body
  | SFor _ c _ body => from_formula nm c /\ formula_stmts nm body
  end
with formula_stmts (nm : names) (l : stmts) : Prop :=
  match l with SNil => True | SCons s r => formula_stmt nm s /\ formula_stmts nm r end
with formula_branches (nm : names) (b : branches) : Prop :=
  match b with
  | BNil => True
  | BCons c body r => from_formula nm c /\ formula_stmts nm body /\ formula_branches nm r
  end
with formula_oelse (nm : names) (e : oelse) : Prop :=
  match e with ENone => True | ESome body => formula_stmts nm body end.

(* … then the hypothesis of C04_any_nesting_depth / C05_any_nesting_depth holds *)
Lemma formula_simple nm :
  (forall s, formula_stmt nm s -> simple_stmt nm s = true) /\
  (forall l, formula_stmts nm l -> simple_stmts nm l = true) /\
  (forall b, formula_branches nm b -> simple_branches nm b = true) /\
  (forall e, formula_oelse nm e -> simple_oelse nm e = true).
Proof.
  apply stmt_mutind.
  - intros; reflexivity.
  - intros b Hb e He [H1 H2]. cbn [simple_stmt]. rewrite (Hb H1), (He H2). reflexivity.
  - intros c body Hb [_ H]. apply Hb. exact H.
  - intros body Hb c [_ H]. apply Hb. exact H.
  - intros init c step body Hb [_ H]. apply Hb. exact H.
  - intros; reflexivity.
  - intros s Hs r Hr [H1 H2]. cbn [simple_stmts]. rewrite (Hs H1), (Hr H2). reflexivity.
  - intros; reflexivity.
  - intros c body Hb r Hr [(w & f & L) [H2 H3]]. cbn [simple_branches].
    destruct (lowered_shape nm w f c L) as [S _]. rewrite S, (Hb H2), (Hr H3). reflexivity.
  - intros; reflexivity.
  - intros body Hb H. apply Hb. exact H.
Qed.

Theorem compile_body_correct_formulas nm ft env prog lines fs :
  compile_body nm prog = Some (lines, fs) -> installed ft fs -> formula_stmts nm prog ->
  forall st st', runs ft env lines st st' <-> sem_stmts nm ft env prog st st'.
Proof.
  intros C I F. apply (compile_body_correct_simple nm ft env _ _ _ C I).
  apply (formula_simple nm). exact F.
Qed.
