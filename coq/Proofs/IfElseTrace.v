(* Proofs.IfElseTrace — C04 in terms of the trace: with bodies that are arbitrary abstract
   sub-programs (CExt) and conditions whose precommands are of the shape the compiler emits,
   the lowered chain always terminates and the trace shows exactly the selected body, once,
   followed by the statement after the chain, once. *)
From Coq Require Import ZArith String List Bool Lia.
From JMCV Require Import Base.Int32 Base.Dec MC.Syntax MC.Sem MC.Facts
     Model.Names Model.PrivAlloc Model.IfElse Proofs.IfElseBase Proofs.IfElse.
Import ListNotations.

Definition is_if (m : modifier) : bool := match m with MIf _ _ => true | MStore _ _ => false end.

(* a precommand line as parse_condition emits them: `scoreboard players set S n` or
   `execute if/unless … run scoreboard players set S n`, S a score other than `avoid` *)
Definition simple_pre (avoid : score) (c : cmd) : bool :=
  match c with
  | CSet s _ => negb (score_eqb s avoid)
  | CExecute ms (CSet s _) => forallb is_if ms && negb (score_eqb s avoid)
  | _ => false
  end.
Definition simple_cond (avoid : score) (c : cond) : bool := forallb (simple_pre avoid) (c_pre c).

Definition is_ext (c : cmd) : bool := match c with CExt _ => true | _ => false end.
Definition all_ext (l : list cmd) : bool := forallb is_ext l.
Definition ext_ids (l : list cmd) : list nat :=
  flat_map (fun c => match c with CExt n => [n] | _ => [] end) l.

Lemma ifs_mods_of ms : forallb is_if ms = true -> exists ts, ms = mods_of ts.
Proof.
  induction ms as [|[pos t|k d] ms IH]; cbn; intros H.
  - exists []. reflexivity.
  - destruct (IH H) as [ts ->]. exists ((pos, t) :: ts). reflexivity.
  - discriminate.
Qed.

(* the body a chain outcome designates *)
Definition sel_body (brs : list (cond * list cmd)) (e : option (list cmd)) (o : outcome) : list cmd :=
  match o with
  | Took i => nth i (map snd brs) []
  | TookElse => match e with Some b => b | None => [] end
  | TookNone => []
  end.

Section Trace.
  Variable nm : names.
  Variable ft : string -> option (list cmd).
  Variable env : nat -> state -> state.
  (* abstract sub-programs act on scores and storage; the trace is the observer's *)
  Hypothesis env_tr : forall n st, tr (env n st) = tr st.

  Notation runs := (runs ft env).
  Notation steps := (steps ft env).

  Lemma simple_pre_step avoid c st :
    simple_pre avoid c = true ->
    exists st1, steps c st st1 /\ tr st1 = tr st /\ sc st1 avoid = sc st avoid.
  Proof.
    destruct c; cbn [simple_pre]; try discriminate.
    - intros H. apply negb_true_iff in H. exists (set_sc st s z). split; [apply steps_set; reflexivity|].
      split; [reflexivity|]. cbn. apply upd_other. destruct (score_eqb_spec s avoid); congruence.
    - destruct c; try discriminate. intros H. apply andb_true_iff in H. destruct H as [Hi Hs].
      apply negb_true_iff in Hs. destruct (ifs_mods_of _ Hi) as [ts ->].
      destruct (tests_hold st ts) eqn:T.
      + exists (set_sc st s z). split; [apply steps_guard; rewrite T; apply steps_set; reflexivity|].
        split; [reflexivity|]. cbn. apply upd_other. destruct (score_eqb_spec s avoid); congruence.
      + exists st. split; [apply steps_guard; rewrite T; reflexivity|]. split; reflexivity.
  Qed.

  Lemma simple_pre_runs avoid l st :
    forallb (simple_pre avoid) l = true ->
    exists st1, runs l st st1 /\ tr st1 = tr st /\ sc st1 avoid = sc st avoid.
  Proof.
    revert st. induction l as [|c l IH]; intros st H.
    - exists st. split; [apply runs_nil; reflexivity|split; reflexivity].
    - cbn in H. apply andb_true_iff in H. destruct H as [Hc Hl].
      destruct (simple_pre_step _ _ st Hc) as (st1 & S1 & T1 & F1).
      destruct (IH st1 Hl) as (st2 & S2 & T2 & F2).
      exists st2. split; [apply runs_cons; eauto|]. split; congruence.
  Qed.

  Lemma simple_keeps_flag c : simple_cond (flag nm) c = true -> keeps_flag nm ft env c.
  Proof.
    intros H st st1 R. destruct (simple_pre_runs _ _ st H) as (st2 & R2 & _ & F).
    rewrite (runs_det _ _ _ _ _ _ R R2). exact F.
  Qed.

  Lemma ext_runs l st :
    all_ext l = true ->
    exists st1, runs l st st1 /\ tr st1 = rev (map EExt (ext_ids l)) ++ tr st.
  Proof.
    revert st. induction l as [|c l IH]; intros st H.
    - exists st. split; [apply runs_nil; reflexivity|reflexivity].
    - cbn in H. apply andb_true_iff in H. destruct H as [Hc Hl]. destruct c; try discriminate.
      destruct (IH (log (env n st) (EExt n)) Hl) as (st2 & R & T).
      exists st2. split.
      + apply runs_cons. exists (log (env n st) (EExt n)). split; [apply steps_ext; reflexivity|exact R].
      + rewrite T. cbn [ext_ids flat_map app map rev log tr]. rewrite env_tr.
        rewrite <- app_assoc. reflexivity.
  Qed.

  (* a chain with simple conditions and abstract bodies always selects, and the trace grows
     by exactly the selected body's events *)
  Lemma chain_sem_total brs e :
    Forall (fun cb => simple_cond (flag nm) (fst cb) = true /\ all_ext (snd cb) = true) brs ->
    match e with Some b => all_ext b = true | None => True end ->
    forall st, exists o st'',
      chain_sem ft env brs e st o st'' /\
      tr st'' = rev (map EExt (ext_ids (sel_body brs e o))) ++ tr st.
  Proof.
    intros Hb He. induction Hb as [|[c b] brs [Hc Hx] Hb IH]; intros st.
    - destruct e as [b|].
      + destruct (ext_runs b st He) as (st1 & R & T). exists TookElse, st1. split; [constructor; exact R|exact T].
      + exists TookNone, st. split; [constructor|reflexivity].
    - cbn [fst snd] in *. destruct (simple_pre_runs _ _ st Hc) as (st1 & R1 & T1 & _).
      destruct (tests_hold st1 (c_tests c)) eqn:T.
      + destruct (ext_runs b st1 Hx) as (st2 & R2 & T2).
        exists (Took 0), st2. split; [eapply CS_take; eauto|]. cbn [sel_body map snd nth]. rewrite T2, T1. reflexivity.
      + destruct (IH st1) as (o & st'' & Hs & Ht).
        exists (shift o), st''. split; [eapply CS_skip; eauto|].
        rewrite Ht, T1. destruct o; reflexivity.
  Qed.

  Theorem exactly_one first rest last caller fs after :
    chain_code nm first rest last = (caller, fs) -> installed ft fs ->
    Forall (fun cb => simple_cond (flag nm) (fst cb) = true /\ all_ext (snd cb) = true)
           (chain_branches first rest last) ->
    match last_else last with Some b => all_ext b = true | None => True end ->
    forall st, exists o st'' st',
      (* o is the branch the source chain selects from st (flag zeroed), st'' the state its body leaves *)
      chain_sem ft env (chain_branches first rest last) (last_else last) (set_sc st (flag nm) 0) o st'' /\
      (* the emitted code, followed by the next statement, terminates in st' … *)
      runs (caller ++ [CExt after]) st st' /\
      (forall st2, runs (caller ++ [CExt after]) st st2 -> st2 = st') /\
      st' = log (env after (finish nm (S (length rest)) o st'')) (EExt after) /\
      (* … and the trace shows the selected body once, then the next statement once *)
      tr st' = EExt after ::
               rev (map EExt (ext_ids (sel_body (chain_branches first rest last) (last_else last) o))) ++ tr st.
  Proof.
    intros E I Hb He st.
    destruct (chain_sem_total _ _ Hb He (set_sc st (flag nm) 0)) as (o & st'' & Hs & Ht).
    assert (K : Forall (fun cb => keeps_flag nm ft env (fst cb)) (chain_branches first rest last)).
    { eapply Forall_impl; [|exact Hb]. intros cb [H _]. apply simple_keeps_flag. exact H. }
    unfold chain_branches in K. inversion K as [|x xs K0 K1]; subst. cbn [fst src_of] in K0.
    apply Forall_app in K1. destruct K1 as [K1 _].
    assert (K1' : Forall (fun wr => keeps_flag nm ft env (w_cond (fst wr))) rest).
    { apply Forall_forall. intros wr Hin. rewrite Forall_forall in K1.
      apply (K1 (src_of (fst wr))). apply in_map_iff. exists wr. split; [reflexivity|exact Hin]. }
    pose proof (chain_correct nm ft env _ _ _ _ _ E I K0 K1' st) as C.
    set (st1 := finish nm (S (length rest)) o st'').
    assert (R : runs (caller ++ [CExt after]) st (log (env after st1) (EExt after))).
    { apply runs_app. exists st1. split.
      - apply C. exists o, st''. split; [exact Hs|reflexivity].
      - apply runs_single. apply steps_ext. reflexivity. }
    exists o, st'', (log (env after st1) (EExt after)).
    split; [exact Hs|]. split; [exact R|]. split; [intros st2 R2; eapply runs_det; eauto|].
    split; [reflexivity|].
    cbn [log tr]. rewrite env_tr. f_equal.
    assert (T1 : tr st1 = tr st'') by (unfold st1, finish; destruct o; [destruct (_ <? _)%nat|..]; reflexivity).
    rewrite T1, Ht. reflexivity.
  Qed.
End Trace.
