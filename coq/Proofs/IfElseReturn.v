(* Proofs.IfElseReturn — `return` inside a branch of an if / else-if / else chain.  Property C04.

   MC.Syntax / MC.Sem have no `return` command (a function body always runs to its last line).
   Minecraft's `return <value>` / `return fail` / `return run <cmd>` LEAVES THE FUNCTION IT IS WRITTEN
   IN (not its callers).  This file adds exactly that, as a conservative layer over MC.Sem:
   a function body is a list of `rline`s — ordinary commands, (guarded) calls of other such
   functions, and (guarded) returns — and `rruns` is its meaning.

   JMC wraps every branch of a chain but the last in a private function whose last line sets the
   flag __if_else__ to 1 (Model.IfElse.wbr_fn: body ++ [set_flag 1]); the caller then tests the
   flag to decide whether a later branch / the else body may run.  With the body's lines written
   directly in that function (the tree before fixes/C04-return-in-branch.patch) a `return` in the
   body skips the flag line, and the chain goes on to run ANOTHER branch: refuted below.  The
   repaired compiler (Model.Loop.isolate) stores a body that can return in a function of its own;
   the branch function `function <inner>; set flag 1` then has the contract the chain proofs use
   (Proofs.IfElse.chain_correct: "a wrapped branch = its body, then flag := 1") for EVERY body. *)
From Coq Require Import ZArith String List Bool Lia.
From JMCV Require Import Base.Int32 Base.Dec MC.Syntax MC.Sem MC.Facts
     Model.Names Model.PrivAlloc Model.IfElse Proofs.IfElseBase Proofs.IfElse.
Import ListNotations.

Inductive rline :=
| RL (c : cmd)                                        (* a command of MC.Syntax *)
| RCall (ts : list (bool * test)) (f : string)        (* [execute <ts> run] function f   — f may return *)
| RRet (ts : list (bool * test)) (run : option cmd).  (* [execute <ts> run] return <v> | return fail | return run <cmd> *)

Section RSem.
  Variable nm : names.
  Variable ft : string -> option (list cmd).       (* functions without `return` (MC.Sem) *)
  Variable env : nat -> state -> state.
  Variable rft : string -> option (list rline).    (* functions that may `return` *)

  Notation runs := (runs ft env).
  Notation steps := (steps ft env).

  Inductive rruns : list rline -> state -> state -> Prop :=
  | RR_nil st : rruns [] st st
  | RR_cmd c l st st1 st2 : steps c st st1 -> rruns l st1 st2 -> rruns (RL c :: l) st st2
  (* a called function that returns comes back to the line after the call *)
  | RR_call ts f body l st st1 st2 :
      tests_hold st ts = true -> rft f = Some body -> rruns body st st1 -> rruns l st1 st2 ->
      rruns (RCall ts f :: l) st st2
  | RR_call_skip ts f l st st2 :
      tests_hold st ts = false -> rruns l st st2 -> rruns (RCall ts f :: l) st st2
  (* a return that is executed ends THIS function: the remaining lines l do not run *)
  | RR_ret ts l st : tests_hold st ts = true -> rruns (RRet ts None :: l) st st
  | RR_ret_run ts c l st st1 : tests_hold st ts = true -> steps c st st1 -> rruns (RRet ts (Some c) :: l) st st1
  | RR_ret_skip ts oc l st st2 : tests_hold st ts = false -> rruns l st st2 -> rruns (RRet ts oc :: l) st st2.

  Lemma rruns_nil_inv st st' : rruns [] st st' -> st' = st.
  Proof. intros H. inversion H; subst. reflexivity. Qed.
  Lemma rruns_cmd_inv c l st st2 : rruns (RL c :: l) st st2 -> exists st1, steps c st st1 /\ rruns l st1 st2.
  Proof. intros H. inversion H; subst. eauto. Qed.
  Lemma rruns_call_inv ts f l st st2 :
    rruns (RCall ts f :: l) st st2 ->
    (tests_hold st ts = true /\ exists body st1, rft f = Some body /\ rruns body st st1 /\ rruns l st1 st2) \/
    (tests_hold st ts = false /\ rruns l st st2).
  Proof. intros H. inversion H; subst; [left; split; [assumption|eauto]|right; auto]. Qed.
  Lemma rruns_ret_inv ts oc l st st2 :
    rruns (RRet ts oc :: l) st st2 ->
    (tests_hold st ts = true /\ match oc with None => st2 = st | Some c => steps c st st2 end) \/
    (tests_hold st ts = false /\ rruns l st st2).
  Proof. intros H. inversion H; subst; [left; auto|left; auto|right; auto]. Qed.

  (* conservative: lines without calls of returning functions and without returns mean what MC.Sem says *)
  Lemma rruns_plain_app l r st st' :
    rruns (map RL l ++ r) st st' <-> exists st1, runs l st st1 /\ rruns r st1 st'.
  Proof.
    revert st. induction l as [|c l IH]; intros st; cbn [map app].
    - split.
      + intros H. exists st. split; [apply runs_nil; reflexivity|exact H].
      + intros (st1 & H1 & H2). apply runs_nil in H1. subst. exact H2.
    - split.
      + intros H. apply rruns_cmd_inv in H. destruct H as (s0 & C & H). apply IH in H. destruct H as (s & A & B).
        exists s. split; [apply runs_cons; eauto|exact B].
      + intros (s & A & B). apply runs_cons in A. destruct A as (s1 & C & D).
        eapply RR_cmd; [exact C|]. apply IH. eauto.
  Qed.

  Lemma rruns_plain l st st' : rruns (map RL l) st st' <-> runs l st st'.
  Proof.
    rewrite <- (app_nil_r (map RL l)), rruns_plain_app. split.
    - intros (s & A & B). apply rruns_nil_inv in B. subst. exact A.
    - intros H. exists st'. split; [exact H|constructor].
  Qed.

  (* lines after an unconditional return are dead *)
  Lemma rruns_return_dead post st st' : rruns (RRet [] None :: post) st st' <-> st' = st.
  Proof.
    split.
    - intros H. apply rruns_ret_inv in H. destruct H as [[_ H]|[H _]]; [exact H|discriminate].
    - intros ->. apply RR_ret. reflexivity.
  Qed.

  (* ---- the branch function ---- *)

  (* repaired: `function <inner>` then the flag line.  Whatever the body does — return at any point,
     conditionally, from nested calls — the branch function is "body, then flag := 1": the contract
     of Model.IfElse.wbr_fn that Proofs.IfElse.chain_correct relies on. *)
  Lemma isolated_branch_function inner body st st' :
    rft inner = Some body ->
    (rruns [RCall [] inner; RL (set_flag nm 1)] st st' <->
     exists st1, rruns body st st1 /\ st' = set_sc st1 (flag nm) 1).
  Proof.
    intros Hf. split.
    - intros H. apply rruns_call_inv in H. destruct H as [[_ (b & st1 & Eb & Hb & Hl)]|[H _]]; [|discriminate].
      rewrite Hf in Eb. inversion Eb; subst b. apply rruns_cmd_inv in Hl. destruct Hl as (s2 & Hs & Hn).
      apply rruns_nil_inv in Hn. subst. apply steps_set in Hs. subst. eauto.
    - intros (st1 & Hb & ->). eapply RR_call; [reflexivity|exact Hf|exact Hb|].
      eapply RR_cmd; [apply steps_set; reflexivity|constructor].
  Qed.

  (* not repaired: the body's lines stand in the branch function itself.  A body that ends in an
     executed `return` leaves the flag as the body left it. *)
  Lemma unisolated_branch_function pre post st st' :
    rruns (map RL pre ++ RRet [] None :: post ++ [RL (set_flag nm 1)]) st st' <-> runs pre st st'.
  Proof.
    rewrite rruns_plain_app. split.
    - intros (s & A & B). apply rruns_return_dead in B. subst. exact A.
    - intros H. exists st'. split; [exact H|apply rruns_return_dead; reflexivity].
  Qed.

  (* ---- a two-part chain `if (c0) { body0 } else <e>` ---- *)
  (* caller lines (Model.IfElse.chain_code with rest = [] and an inlined one-command else) *)
  Definition caller2 (c0 : cond) (f0 : string) (e : cmd) : list rline :=
    RL (set_flag nm 0) :: map RL (c_pre c0) ++ [RCall (c_tests c0) f0; RL (CExecute (mods_of [flag0 nm]) e)].

  Lemma flag_after_set st z : sc (set_sc st (flag nm) z) (flag nm) = Some z.
  Proof. unfold set_sc. cbn. apply upd_same. Qed.

  (* repaired lowering: exactly one of the two parts runs *)
  Theorem chain2_isolated c0 f0 g0 body0 e :
    keeps_flag nm ft env c0 ->
    rft f0 = Some [RCall [] g0; RL (set_flag nm 1)] -> rft g0 = Some body0 ->
    forall st st',
      rruns (caller2 c0 f0 e) st st' <->
      exists st1, runs (c_pre c0) (set_sc st (flag nm) 0) st1 /\
                  if tests_hold st1 (c_tests c0)
                  then exists st2, rruns body0 st1 st2 /\ st' = set_sc st2 (flag nm) 1
                  else steps e st1 st'.
  Proof.
    intros K Hf Hg st st'. unfold caller2. split.
    - intros H. apply rruns_cmd_inv in H. destruct H as (s0 & Hs & H). apply steps_set in Hs. subst s0.
      apply rruns_plain_app in H. destruct H as (st1 & Hp & Hr). exists st1. split; [exact Hp|].
      pose proof (K _ _ Hp) as F. rewrite flag_after_set in F.
      apply rruns_call_inv in Hr. destruct Hr as [[T (b & s1 & Eb & Hb & Hl)]|[T Hl]]; rewrite T.
      + rewrite Hf in Eb. inversion Eb; subst b.
        apply (isolated_branch_function g0 body0 _ _ Hg) in Hb. destruct Hb as (st2 & Hb & ->).
        apply rruns_cmd_inv in Hl. destruct Hl as (s2 & Hs & Hn). apply rruns_nil_inv in Hn. subst.
        apply steps_guard in Hs. rewrite (flag0_fails nm) in Hs by apply flag_after_set. subst. eauto.
      + apply rruns_cmd_inv in Hl. destruct Hl as (s2 & Hs & Hn). apply rruns_nil_inv in Hn. subst.
        apply steps_guard in Hs. rewrite (flag0_holds nm _ F) in Hs. exact Hs.
    - intros (st1 & Hp & Hc). eapply RR_cmd; [apply steps_set; reflexivity|].
      apply rruns_plain_app. exists st1. split; [exact Hp|].
      pose proof (K _ _ Hp) as F. rewrite flag_after_set in F.
      destruct (tests_hold st1 (c_tests c0)) eqn:T.
      + destruct Hc as (st2 & Hb & ->).
        eapply RR_call; [exact T|exact Hf| |].
        * apply (isolated_branch_function g0 body0 _ _ Hg). eauto.
        * eapply RR_cmd; [|constructor]. apply steps_guard.
          rewrite (flag0_fails nm) by apply flag_after_set. reflexivity.
      + apply RR_call_skip; [exact T|]. eapply RR_cmd; [|constructor].
        apply steps_guard. rewrite (flag0_holds nm _ F). exact Hc.
  Qed.

  (* the lowering before the repair: a first branch `{ pre…; return; }` whose condition holds runs its
     commands AND THEN THE ELSE PART (when `pre` leaves the flag alone) *)
  Theorem chain2_unisolated_runs_both c0 f0 pre e :
    keeps_flag nm ft env c0 ->
    rft f0 = Some (map RL pre ++ [RRet [] None; RL (set_flag nm 1)]) ->
    forall st st1 st2 st',
      runs (c_pre c0) (set_sc st (flag nm) 0) st1 -> tests_hold st1 (c_tests c0) = true ->
      runs pre st1 st2 -> sc st2 (flag nm) = sc st1 (flag nm) ->
      steps e st2 st' ->
      rruns (caller2 c0 f0 e) st st'.
  Proof.
    intros K Hf st st1 st2 st' Hp T Hb Fb He. unfold caller2.
    eapply RR_cmd; [apply steps_set; reflexivity|].
    apply rruns_plain_app. exists st1. split; [exact Hp|].
    pose proof (K _ _ Hp) as F. rewrite flag_after_set in F.
    eapply RR_call; [exact T|exact Hf| |].
    - apply (unisolated_branch_function pre [] st1 st2). exact Hb.
    - eapply RR_cmd; [|constructor]. apply steps_guard.
      rewrite (flag0_holds nm) by congruence. exact He.
  Qed.
End RSem.

(* a concrete witness for the refutation: `if ($a == 1) { X0; return 0; } else X1`, from $a = 1 *)
Section Witness.
  Definition w_nm := default_names.
  Definition w_a : score := ("$a"%string, var_name w_nm).
  Definition w_c0 := mkCond [] [(true, Matches w_a (Exact 1))].
  Definition w_f0 := priv_fn w_nm IF_ELSE 0.
  Definition w_rft (f : string) : option (list rline) :=
    if String.eqb f w_f0 then Some (map RL [CExt 0] ++ [RRet [] None; RL (set_flag w_nm 1)]) else None.
  Definition w_ft : string -> option (list cmd) := fun _ => None.
  Definition w_env : nat -> state -> state := fun _ st => st.     (* X0, X1 only leave their event in the trace *)
  Definition w_st : state := mkState (fun k => if score_eqb k w_a then Some 1%Z else None) (fun _ => None) [].

  Lemma witness_runs_both :
    exists st', rruns w_ft w_env w_rft (caller2 w_nm w_c0 w_f0 (CExt 1)) w_st st' /\
                tr st' = [EExt 1; EExt 0].
  Proof.
    eexists. split.
    - eapply (chain2_unisolated_runs_both w_nm w_ft w_env w_rft w_c0 w_f0 [CExt 0] (CExt 1)).
      + intros st st1 H. apply runs_nil in H. subst. reflexivity.
      + unfold w_rft. rewrite String.eqb_refl. reflexivity.
      + apply runs_nil. reflexivity.
      + reflexivity.
      + apply runs_single. apply steps_ext. reflexivity.
      + reflexivity.
      + apply steps_ext. reflexivity.
    - reflexivity.
  Qed.
End Witness.
