(* Proofs.BuildC10 — territory, #static, refusal and failed-compile theorems (C10). *)
From Coq Require Import String List Bool Arith Lia.
From JMCV Require Import Model.FS Model.Build Proofs.FS Proofs.Build.
Import ListNotations.
Open Scope string_scope.
Open Scope list_scope.

(* ------------------------------------------------------------------ crash traces *)
(* What a build that is killed has done: a prefix of its plan_core, the last write possibly torn
   (the file was created/truncated and holds arbitrary bytes [c'] instead of the full text). *)
Inductive crash_trace (pl : list op) : list op -> Prop :=
| ct_prefix : forall k, crash_trace pl (firstn k pl)
| ct_torn : forall k p c c', nth_error pl k = Some (Write p c) -> crash_trace pl (firstn k pl ++ [Write p c']).

Lemma crash_trace_full : forall pl, crash_trace pl pl.
Proof. intros pl. rewrite <- (firstn_all pl) at 2. constructor. Qed.

Lemma firstn_in : forall {A} k (l : list A) x, In x (firstn k l) -> In x l.
Proof. intros A k l x H. rewrite <- (firstn_skipn k l). apply in_or_app. auto. Qed.

(* every mutation of a crash trace is a mutation of the plan_core, up to the content of a write *)
Lemma crash_trace_in : forall pl ops x,
  crash_trace pl ops -> In x ops ->
  exists y, In y pl /\ op_path y = op_path x /\ is_mkdir y = is_mkdir x.
Proof.
  intros pl ops x Hc Hx. destruct Hc as [k|k p c c' Hn].
  - exists x. split; auto. eapply firstn_in; eauto.
  - apply in_app_or in Hx as [Hx|[<-|[]]].
    + exists x. split; auto. eapply firstn_in; eauto.
    + exists (Write p c). split; auto. eapply nth_error_In; eauto.
Qed.

(* ------------------------------------------------------------------ territory *)
Lemma in_copy_paths_terr : forall c h p, In p (copy_paths h) -> terr_b c h p = true.
Proof.
  intros c h p H. unfold terr_b. apply orb_true_iff. right. apply existsb_exists. exists p. split; auto.
  apply path_eqb_refl.
Qed.

Lemma in_folders_terr : forall c h p, in_folders c h p = true -> terr_b c h p = true.
Proof. intros c h p H. unfold terr_b. rewrite H. reflexivity. Qed.

Lemma folder_files_in_folders : forall c h out w, In w (folder_files c h out) -> in_folders c h w = true.
Proof.
  intros c h out w H. unfold folder_files in H.
  destruct H as [<-|[<-|[<-|[<-|H]]]]; [apply cert_in_folders|apply cert_tmp_in_folders|apply load_in_folders|apply tick_in_folders|].
  destruct out as [| | |o]; try contradiction. apply in_map_iff in H as ([p s] & <- & Hin).
  apply out_files_in in Hin as [Hin _]. exact Hin.
Qed.

Lemma shape_op_ok : forall v c h out x, shape_ok v c h out x -> op_ok c h x = true.
Proof.
  intros v c h out x [(F & s & HF & Hp & _)|[(w & Hw & Hp & Hne & Hk)|[H|[H Hk]]]]; unfold op_ok.
  - apply del_list_folderish in HF. rewrite (in_folders_terr c h), ?orb_true_l; auto. eapply folderish_in; eauto.
  - apply folder_files_in_folders in Hw.
    destruct Hk as [Hk| ->].
    + destruct (prefix_of_folder_path _ _ _ _ Hw Hp Hne) as [Hf|Ha].
      * rewrite in_folders_terr; auto.
      * rewrite Ha, Hk. apply orb_true_r.
    + rewrite in_folders_terr; auto.
  - rewrite in_copy_paths_terr; auto.
  - rewrite H. unfold terr_b. rewrite path_eqb_refl. rewrite orb_true_r. reflexivity.
Qed.

Lemma plan_op_ok : forall v c h out fault t x, In x (plan_core v c h out fault t) -> op_ok c h x = true.
Proof. intros. eapply shape_op_ok. eapply run_shape. eauto. Qed.

Lemma crash_op_ok : forall v c h out fault t ops x,
  crash_trace (plan_core v c h out fault t) ops -> In x ops -> op_ok c h x = true.
Proof.
  intros v c h out fault t ops x Hc Hx. destruct (crash_trace_in _ _ _ Hc Hx) as (y & Hy & Hp & Hk).
  apply plan_op_ok in Hy. unfold op_ok in *. rewrite <- Hp, <- Hk. exact Hy.
Qed.

(* C10, first sentence.  For every initial tree, configuration, header, outcome of the front end, injected deletion
   failure, and every point at which the build may be killed (torn write included): a node that differs lies in
   the territory — or is the output directory / its data folder, which did not exist and now is a directory. *)
Theorem territory : forall v c h out fault t ops t' p,
  crash_trace (plan_core v c h out fault t) ops -> exec ops t = Some t' ->
  node_at t' p <> node_at t p ->
  terr_b c h p = true \/ (anc_b p = true /\ node_at t p = None /\ node_at t' p = Some NDir).
Proof.
  intros v c h out fault t ops t' p Hc He Hd.
  destruct (terr_b c h p) eqn:Et; auto. right.
  assert (Hops : forall x, In x ops -> op_path x = p -> anc_b p = true /\ is_mkdir x = true).
  { intros x Hx Hp. pose proof (crash_op_ok _ _ _ _ _ _ _ _ Hc Hx) as Hok. unfold op_ok in Hok.
    rewrite Hp, Et in Hok. simpl in Hok. apply andb_true_iff in Hok. exact Hok. }
  destruct (anc_b p) eqn:Ea.
  - destruct (exec_only_mkdir ops t t' p) as [Hs|[H0 H1]]; auto.
    + intros x Hx Hp. apply (Hops x Hx Hp).
    + contradiction.
  - exfalso. apply Hd. eapply exec_frame; eauto. intros x Hx Hp. destruct (Hops x Hx Hp). discriminate.
Qed.

(* ------------------------------------------------------------------ #static *)
Lemma del_list_fixed_flag : forall v c h F s, sound v -> In (F, s) (del_list v c h) -> s = true.
Proof.
  intros v c h F s (_ & Hm & Hl) H. unfold del_list in H. rewrite Hl, Hm in H. apply in_app_or in H as [H|H].
  - apply in_map_iff in H as (o & Heq & _). inversion Heq. reflexivity.
  - destruct H as [H|[H|[]]]; inversion H; reflexivity.
Qed.

Lemma static_safe_written : forall c h o p,
  static_safe c h o = true -> In p (written_paths c h o) -> excepted h p = false.
Proof.
  intros c h o p H Hp. unfold static_safe in H. rewrite forallb_forall in H. apply H in Hp.
  apply negb_true_iff in Hp. exact Hp.
Qed.

Lemma folder_files_written : forall c h o w, In w (folder_files c h (Success o)) -> In w (written_paths c h o).
Proof.
  intros c h o w H. unfold folder_files in H. unfold written_paths.
  destruct H as [<-|[<-|[<-|[<-|H]]]].
  - simpl. auto.
  - simpl. auto.
  - right. right. apply in_or_app. right. simpl. auto.
  - right. right. apply in_or_app. right. simpl. auto.
  - right. right. apply in_or_app. right. simpl. right. right. apply in_or_app. auto.
Qed.

Lemma shape_static : forall v c h o x,
  sound v -> static_safe c h o = true -> shape_ok v c h (Success o) x -> excepted h (op_path x) = false.
Proof.
  intros v c h o x Hv Hs [(F & s & HF & Hp & _ & Hx)|[(w & Hw & Hp & Hne & Hk)|[H|[H Hk]]]].
  - apply del_list_fixed_flag in HF; auto. destruct (h_statics h) eqn:E.
    + apply excepted_nil. exact E.
    + apply Hx; auto. discriminate.
  - apply folder_files_written in Hw. pose proof (static_safe_written _ _ _ _ Hs Hw) as Hw'.
    destruct (excepted h (op_path x)) eqn:E; auto. rewrite (excepted_mono h _ _ Hp E) in Hw'. discriminate.
  - eapply static_safe_written; eauto. unfold written_paths. right. right. apply in_or_app. auto.
  - rewrite H. eapply static_safe_written; eauto. unfold written_paths. right. right. apply in_or_app. right.
    simpl. right. right. apply in_or_app. right. simpl. auto.
Qed.

Lemma plan_fixed_nonsuccess : forall v c h out fault t,
  v_cert_early v = false -> (forall o, out <> Success o) -> plan_core v c h out fault t = [].
Proof.
  intros v c h out fault t Hv Hn. unfold plan_core, run_core. rewrite Hv. destruct out as [| | |o]; simpl; auto.
  - destruct (is_dir t (ns_dir c)); [destruct (is_file t (cert_path c))|]; reflexivity.
  - destruct (is_dir t (ns_dir c)); [destruct (is_file t (cert_path c))|]; reflexivity.
  - exfalso. eapply Hn; eauto.
Qed.

(* C10: folders registered with #static stay byte-identical — at every crash point too.
   [static_safe]: the declared statics do not contain a path the build itself writes (jmc.txt, the tag files,
   an emitted function/JSON file, pack.mcmeta, a #copy destination); otherwise the user asked for both. *)
Theorem statics_untouched : forall v c h out fault t ops t' p,
  sound v ->
  (forall o, out = Success o -> static_safe c h o = true) ->
  crash_trace (plan_core v c h out fault t) ops -> exec ops t = Some t' ->
  excepted h p = true -> node_at t' p = node_at t p.
Proof.
  intros v c h out fault t ops t' p Hv Hs Hc He Hx. eapply exec_frame; eauto.
  intros x Hxin Hp. destruct (crash_trace_in _ _ _ Hc Hxin) as (y & Hy & Hpy & _).
  destruct out as [| | |o];
    try (rewrite plan_fixed_nonsuccess in Hy; [contradiction|apply Hv|intros; discriminate]).
  apply run_shape in Hy. apply (shape_static v c h o) in Hy; auto. rewrite Hpy, Hp, Hx in Hy. discriminate.
Qed.

(* ------------------------------------------------------------------ refusal, failed compiles *)
(* A namespace folder without jmc.txt is never touched: no mutation, result = refusal
   (unless the header is already rejected, which does not touch anything either). *)
Theorem refusal : forall v c h out fault t,
  is_dir t (ns_dir c) = true -> is_file t (cert_path c) = false ->
  run_core v c h out fault t = ([], if match out with FailHeader => true | _ => false end then RHeaderErr else RRefused).
Proof.
  intros v c h out fault t Hd Hf. unfold run_core. rewrite Hd, Hf. destruct out; reflexivity.
Qed.

(* repaired behaviour: a compile that ends in a compilation error (header / lexer+parser / DataPack.build) performs
   no mutation at all *)
Theorem failed_compile_noop : forall v c h out fault t,
  v_cert_early v = false ->
  (forall o, out <> Success o) -> plan_core v c h out fault t = [] /\ exec (plan_core v c h out fault t) t = Some t.
Proof. intros. rewrite plan_fixed_nonsuccess; auto. Qed.

(* [v_tags_early]: the write phase is handed the parsed tag values and cannot fail any more ... *)
Lemma write_phase_given_done : forall v c h o lv tv cur, snd (write_phase v c h o (Some (lv, tv)) cur) = RDone.
Proof. intros. unfold write_phase. reflexivity. Qed.

Lemma build_with_given_result : forall v c h o lv tv isd fault cur,
  snd (build_with v c h o (Some (lv, tv)) isd fault cur) = ROsErr \/
  snd (build_with v c h o (Some (lv, tv)) isd fault cur) = RDone.
Proof.
  intros. unfold build_with.
  set (dops := if isd then del_phase h cur (del_list v c h) else []).
  destruct (match fault with Some P => cut P dops | None => (dops, false) end) as [pre hit].
  destruct hit; [left; reflexivity|]. right.
  pose proof (write_phase_given_done v c h o lv tv (run_ops dops cur)) as Hw.
  destruct (write_phase v c h o (Some (lv, tv)) (run_ops dops cur)) as [w r]. exact Hw.
Qed.

(* the results of a compile that failed: every error except the deletion failure (ROsErr), which by nature comes
   after some files are gone *)
Definition failed (r : result) : bool :=
  match r with RHeaderErr | RRefused | RLexErr | RBuildErr | RTagErr => true | ROsErr | RDone => false end.

(* ... so a build that reports an unparsable function-tag file has not performed any mutation *)
Lemma build_failed_nil : forall v c h o isd fault cur,
  v_tags_early v = true -> failed (snd (build v c h o isd fault cur)) = true -> fst (build v c h o isd fault cur) = [].
Proof.
  intros v c h o isd fault cur Hv H. unfold build in *. rewrite Hv in *.
  destruct (early_tag c h isd cur (load_path c)) as [lv|]; [destruct (early_tag c h isd cur (tick_path c)) as [tv|]|];
    try reflexivity.
  destruct (build_with_given_result v c h o lv tv isd fault cur) as [E|E]; rewrite E in H; discriminate.
Qed.

(* C10, last sentence, for the variants that read the function tags first: header error, refusal, lexer/parser error,
   DataPack.build error AND the JMCBuildError for an unparsable / "values"-less function-tag file all leave the
   tree exactly as it was. *)
Theorem failed_build_noop : forall v c h out fault t,
  v_cert_early v = false -> v_tags_early v = true ->
  failed (snd (run_core v c h out fault t)) = true ->
  plan_core v c h out fault t = [] /\ exec (plan_core v c h out fault t) t = Some t.
Proof.
  intros v c h out fault t Hc Ht Hf.
  assert (E : plan_core v c h out fault t = []); [|rewrite E; auto].
  destruct out as [| | |o]; try (apply plan_fixed_nonsuccess; [exact Hc|intros; discriminate]).
  unfold plan_core, run_core in *. rewrite Hc in *. destruct (is_dir t (ns_dir c)).
  - destruct (is_file t (cert_path c)); [|reflexivity]. apply build_failed_nil; auto.
  - cbn [run_ops app] in *. pose proof (build_failed_nil v c h o false fault t Ht) as Hn.
    destruct (build v c h o false fault t) as [ops r]. cbn [fst snd] in *. auto.
Qed.

(* pinned behaviour: true only when the namespace folder already exists *)
Theorem failed_compile_noop_pinned_partial : forall c h out fault t,
  (forall o, out <> Success o) -> is_dir t (ns_dir c) = true -> plan_core pinned c h out fault t = [].
Proof.
  intros c h out fault t Hn Hd. unfold plan_core, run_core. rewrite Hd.
  destruct out as [| | |o]; simpl; auto; try (destruct (is_file t (cert_path c)); reflexivity).
  exfalso. eapply Hn; eauto.
Qed.

Definition w_cfg : cfg := mkCfg "ns" "function" "LOAD=__load__" "__load__" "__tick__".
Definition w_hdr0 : hdr := mkHdr [] [] None false.
Definition w_out : output := mkOutput [(["g"], "say g")] [] false "{}".
Definition w_empty : fs := TDir [(".", TDir [])].

(* pinned behaviour refutes it for a fresh namespace: jmc.txt appears although the compile failed *)
Theorem failed_compile_noop_refuted_pinned :
  exists c h out t t', (forall o, out <> Success o) /\
    exec (plan_core pinned c h out None t) t = Some t' /\ node_at t (cert_path c) = None /\
    node_at t' (cert_path c) = Some (NFile (Raw (c_cert c))).
Proof.
  exists w_cfg, w_hdr0, FailLex, w_empty. eexists. split; [intros; discriminate|].
  vm_compute. repeat split.
Qed.

(* pinned behaviour: a #static folder below data/minecraft is deleted *)
Definition w_tree_mc : fs :=
  TDir [(".", TDir [("data", TDir [("ns", TDir [("jmc.txt", TFile (Raw "LOAD=__load__"))]);
                                    ("minecraft", TDir [("keep", TDir [("m.txt", TFile (Raw "kept by hand"))])])])])].
Definition w_hdr_mc : hdr := mkHdr [["."; "data"; "minecraft"; "keep"]] [] None false.

Theorem static_minecraft_refuted_pinned :
  exists c h o t t' p, static_safe c h o = true /\ excepted h p = true /\
    exec (plan_core pinned c h (Success o) None t) t = Some t' /\
    node_at t p = Some (NFile (Raw "kept by hand")) /\ node_at t' p = None.
Proof.
  exists w_cfg, w_hdr_mc, w_out, w_tree_mc. eexists. exists ["."; "data"; "minecraft"; "keep"; "m.txt"].
  vm_compute. repeat split.
Qed.

(* [pinned] and [fixed] (tags read after make_cert / #copy): an unparsable function-tag file stops the build
   (JMCBuildError) after jmc.txt was written *)
Definition w_tree_badtag : fs :=
  TDir [(".", TDir [("data", TDir [("minecraft", TDir [("tags", TDir [("function",
          TDir [("load.json", TFile (Raw "{""values"": ["))])])])])])].

Theorem tag_error_noop_refuted_fixed :
  exists c h o t t', run_core fixed c h (Success o) None t = (plan_core fixed c h (Success o) None t, RTagErr) /\
    exec (plan_core fixed c h (Success o) None t) t = Some t' /\
    node_at t (cert_path c) = None /\ node_at t' (cert_path c) <> None.
Proof.
  exists w_cfg, w_hdr0, w_out, w_tree_badtag. eexists. vm_compute. repeat split. discriminate.
Qed.

(* non-vacuity: a complete build of the repaired model executes, and does change the tree *)
Example build_executes :
  exists t', exec (plan_core fixed w_cfg w_hdr_mc (Success w_out) None w_tree_mc) w_tree_mc = Some t' /\
    snd (run_core fixed w_cfg w_hdr_mc (Success w_out) None w_tree_mc) = RDone /\
    node_at t' ["."; "data"; "ns"; "function"; "g.mcfunction"] = Some (NFile (Raw "say g")) /\
    node_at t' ["."; "data"; "minecraft"; "keep"; "m.txt"] = Some (NFile (Raw "kept by hand")).
Proof. eexists. vm_compute. repeat split. Qed.

(* the same tree and project under [hardened]: the error is reported, nothing is touched *)
Example tag_error_noop_hardened :
  run_core hardened w_cfg w_hdr0 (Success w_out) None w_tree_badtag = ([], RTagErr).
Proof. vm_compute. reflexivity. Qed.

(* non-vacuity of [hardened]: the complete build executes; jmc.txt goes through jmc.txt.tmp, which is gone afterwards *)
Example build_executes_hardened :
  exists t', exec (plan_core hardened w_cfg w_hdr_mc (Success w_out) None w_tree_mc) w_tree_mc = Some t' /\
    snd (run_core hardened w_cfg w_hdr_mc (Success w_out) None w_tree_mc) = RDone /\
    In (Replace (cert_path w_cfg) (Raw "LOAD=__load__")) (plan_core hardened w_cfg w_hdr_mc (Success w_out) None w_tree_mc) /\
    node_at t' (cert_path w_cfg) = Some (NFile (Raw "LOAD=__load__")) /\ node_at t' (cert_tmp w_cfg) = None /\
    node_at t' ["."; "data"; "ns"; "function"; "g.mcfunction"] = Some (NFile (Raw "say g")) /\
    node_at t' ["."; "data"; "minecraft"; "keep"; "m.txt"] = Some (NFile (Raw "kept by hand")).
Proof.
  eexists. split; [vm_compute; reflexivity|]. split; [vm_compute; reflexivity|].
  split; [vm_compute; auto 30|]. vm_compute. repeat split.
Qed.
