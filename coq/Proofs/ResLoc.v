(* Proofs.ResLoc — lemmas about names, paths and resource locations. *)
From Coq Require Import String Ascii List Bool Arith Lia.
From JMCV Require Import Model.ResLoc.
Import ListNotations.
Open Scope string_scope.

(* ------------------------------------------------------------------ basic string facts *)
Lemma append_nil_r (s : string) : s ++ "" = s.
Proof. induction s; simpl; congruence. Qed.
Lemma append_assoc (a b c : string) : (a ++ b) ++ c = a ++ (b ++ c).
Proof. induction a; simpl; congruence. Qed.
Lemma smap_app f a b : smap f (a ++ b) = smap f a ++ smap f b.
Proof. induction a; simpl; congruence. Qed.
Lemma sall_app f a b : sall f (a ++ b) = sall f a && sall f b.
Proof. induction a; simpl; [reflexivity|]. rewrite IHa. now rewrite andb_assoc. Qed.
Lemma string_eqb_refl s : String.eqb s s = true.
Proof. apply String.eqb_eq. reflexivity. Qed.

Lemma mem_str_In x l : mem_str x l = true <-> In x l.
Proof.
  induction l as [|y r IH]; simpl; [split; [discriminate|tauto]|].
  rewrite orb_true_iff, IH, String.eqb_eq. split; intros [H|H]; auto.
Qed.

(* ------------------------------------------------------------------ split_first *)
Lemma split_first_app x a b :
  no_char x a = true -> split_first x (a ++ String x b) = (a, Some b).
Proof.
  induction a as [|c r IH]; simpl; intros H.
  - now rewrite Ascii.eqb_refl.
  - apply andb_true_iff in H as [Hc Hr]. apply negb_true_iff in Hc. rewrite Hc, (IH Hr). reflexivity.
Qed.

Lemma split_first_some x s a b : split_first x s = (a, Some b) -> s = a ++ String x b /\ no_char x a = true.
Proof.
  revert a b. induction s as [|c r IH]; simpl; intros a b H; [discriminate|].
  destruct (Ascii.eqb c x) eqn:E.
  - inversion H; subst. apply Ascii.eqb_eq in E. subst. now split.
  - destruct (split_first x r) as [a' b'] eqn:Er. inversion H; subst.
    destruct (IH a' b eq_refl) as [-> Hn]. unfold no_char in *. simpl. rewrite E. now split.
Qed.

Lemma split_first_none x s a : split_first x s = (a, None) -> s = a /\ no_char x a = true.
Proof.
  revert a. induction s as [|c r IH]; simpl; intros a H.
  - inversion H. now split.
  - destruct (Ascii.eqb c x) eqn:E; [discriminate|].
    destruct (split_first x r) as [a' b'] eqn:Er. inversion H; subst.
    destruct (IH a' eq_refl) as [-> Hn]. unfold no_char in *. simpl. rewrite E. now split.
Qed.

Lemma first_seg_app a b : first_seg (a ++ String ch_slash b) = first_seg a.
Proof.
  unfold first_seg. induction a as [|c r IH]; simpl.
  - reflexivity.
  - destruct (Ascii.eqb c ch_slash); [reflexivity|].
    destruct (split_first ch_slash (r ++ String ch_slash b)) as [x y].
    destruct (split_first ch_slash r) as [x' y']. simpl in *. now subst.
Qed.

(* ------------------------------------------------------------------ format_func_path / func_key / resolve *)
Lemma forallb_mem (P : string -> bool) l x : forallb P l = true -> mem_str x l = true -> P x = true.
Proof. intros H M. apply mem_str_In in M. rewrite forallb_forall in H. auto. Qed.

Lemma resolve_fmt ns legacy ov p :
  path_ok ov p = true -> no_char ch_colon ns = true -> forallb (no_char ch_colon) ov = true ->
  resolve_func legacy (format_func_path ns ov p) = Some (func_key ns legacy ov p).
Proof.
  intros Hok Hns Hov. unfold path_ok, format_func_path, func_key, resolve_func in *.
  destruct (split_first ch_slash p) as [f [rest|]] eqn:E.
  - destruct (mem_str f ov) eqn:M.
    + change (f ++ ":" ++ rest) with (f ++ String ch_colon rest).
      rewrite split_first_app; [reflexivity|]. eapply forallb_mem; eauto.
    + change (ns ++ ":" ++ p) with (ns ++ String ch_colon p). now rewrite split_first_app.
  - destruct (mem_str f ov) eqn:M; [discriminate|].
    change (ns ++ ":" ++ p) with (ns ++ String ch_colon p). now rewrite split_first_app.
Qed.

Lemma func_key_plain ns legacy ov p :
  mem_str (first_seg p) ov = false -> func_key ns legacy ov p = mkKey ns (Some (func_folder legacy)) p false.
Proof.
  unfold func_key, first_seg. destruct (split_first ch_slash p) as [f [rest|]]; simpl; intros ->; reflexivity.
Qed.
Lemma fmt_plain ns ov p : mem_str (first_seg p) ov = false -> format_func_path ns ov p = ns ++ ":" ++ p.
Proof.
  unfold format_func_path, first_seg. destruct (split_first ch_slash p) as [f [rest|]]; simpl; intros ->; reflexivity.
Qed.
Lemma resolve_plain ns legacy p :
  no_char ch_colon ns = true ->
  resolve_func legacy (ns ++ ":" ++ p) = Some (mkKey ns (Some (func_folder legacy)) p false).
Proof.
  intros H. unfold resolve_func. change (ns ++ ":" ++ p) with (ns ++ String ch_colon p). now rewrite split_first_app.
Qed.
Lemma loc_ns_plain ns p : no_char ch_colon ns = true -> loc_ns (ns ++ ":" ++ p) = ns.
Proof.
  intros H. unfold loc_ns. change (ns ++ ":" ++ p) with (ns ++ String ch_colon p). now rewrite split_first_app.
Qed.

Lemma fkey_eqb_eq a b : fkey_eqb a b = true <-> a = b.
Proof.
  destruct a as [n1 f1 p1 j1], b as [n2 f2 p2 j2]. unfold fkey_eqb. simpl. split.
  - intros H. repeat (apply andb_true_iff in H as [H ?]).
    apply String.eqb_eq in H. apply String.eqb_eq in H1. apply Bool.eqb_prop in H0.
    destruct f1, f2; simpl in H2; try discriminate; [apply String.eqb_eq in H2|]; subst; reflexivity.
  - intros E. inversion E; subst. rewrite !string_eqb_refl. destruct f2, j2; simpl; now rewrite ?string_eqb_refl.
Qed.

(* ------------------------------------------------------------------ legal paths *)
(* paths made of [a-z0-9_] segments *)
Fixpoint wp (fresh : bool) (s : string) : bool :=
  match s with
  | EmptyString => negb fresh
  | String c r => if Ascii.eqb c ch_slash then negb fresh && wp true r else is_word c && wp false r
  end.

Lemma is_word_not_dot c : is_word c = true -> Ascii.eqb c ch_dot = false.
Proof. destruct c as [[] [] [] [] [] [] [] []]; vm_compute; congruence. Qed.
Lemma is_word_not_slash c : is_word c = true -> Ascii.eqb c ch_slash = false.
Proof. destruct c as [[] [] [] [] [] [] [] []]; vm_compute; congruence. Qed.
Lemma is_word_seg c : is_word c = true -> seg_char c = true.
Proof. unfold seg_char. intros ->. reflexivity. Qed.
Lemma name_char_cases c : name_char c = true -> Ascii.eqb c ch_dot = true \/ is_word c = true.
Proof. unfold name_char. intros H. apply orb_true_iff in H. tauto. Qed.
Lemma lower_char_dot c : Ascii.eqb (lower_char c) ch_dot = Ascii.eqb c ch_dot.
Proof. destruct c as [[] [] [] [] [] [] [] []]; vm_compute; reflexivity. Qed.

Lemma wp_lp s : forall f a, wp f s = true -> (f = false -> a = false) -> lp f a s = true.
Proof.
  induction s as [|c r IH]; simpl; intros f a H Hfa.
  - apply negb_true_iff in H. rewrite H, (Hfa H). reflexivity.
  - destruct (Ascii.eqb c ch_slash) eqn:E.
    + apply andb_true_iff in H as [Hf Hr]. apply negb_true_iff in Hf. rewrite Hf, (Hfa Hf). simpl.
      apply IH; [assumption|discriminate].
    + apply andb_true_iff in H as [Hw Hr]. rewrite (is_word_seg _ Hw), (is_word_not_dot _ Hw), andb_false_r. simpl.
      apply IH; auto.
Qed.
Lemma wp_legal s : wp true s = true -> legal_path s = true.
Proof. intros H. apply wp_lp; [assumption|discriminate]. Qed.

Lemma wp_app q : forall f t, wp f q = true -> wp true t = true -> wp f (q ++ String ch_slash t) = true.
Proof.
  induction q as [|c r IH]; simpl; intros f t Hq Ht.
  - rewrite Hq. exact Ht.
  - destruct (Ascii.eqb c ch_slash).
    + apply andb_true_iff in Hq as [-> Hr]. simpl. now apply IH.
    + apply andb_true_iff in Hq as [-> Hr]. simpl. now apply IH.
Qed.

(* word-or-slash strings are fixed by slash->dot->slash *)
Definition wos (c : ascii) : bool := is_word c || Ascii.eqb c ch_slash.
Lemma wp_wos s : forall f, wp f s = true -> sall wos s = true.
Proof.
  induction s as [|c r IH]; simpl; intros f H; [reflexivity|]. unfold wos at 1.
  destruct (Ascii.eqb c ch_slash) eqn:E; apply andb_true_iff in H as [H1 H2].
  - rewrite orb_true_r. simpl. eauto.
  - rewrite H1. simpl. eauto.
Qed.
Lemma wos_roundtrip s : sall wos s = true -> smap dot_to_slash (smap slash_to_dot s) = s.
Proof.
  induction s as [|c r IH]; simpl; intros H; [reflexivity|].
  apply andb_true_iff in H as [Hc Hr]. rewrite (IH Hr). f_equal.
  unfold wos in Hc. unfold slash_to_dot. destruct (Ascii.eqb c ch_slash) eqn:E.
  - apply Ascii.eqb_eq in E. now subst.
  - rewrite orb_false_r in Hc. unfold dot_to_slash. now rewrite (is_word_not_dot _ Hc).
Qed.
Lemma wos_name_chars s : sall wos s = true -> sall name_char (smap slash_to_dot s) = true.
Proof.
  induction s as [|c r IH]; simpl; intros H; [reflexivity|].
  apply andb_true_iff in H as [Hc Hr]. rewrite (IH Hr), andb_true_r.
  unfold wos in Hc. unfold slash_to_dot. destruct (Ascii.eqb c ch_slash) eqn:E; [reflexivity|].
  rewrite orb_false_r in Hc. unfold name_char. now rewrite Hc.
Qed.

Lemma ends_with_dot_cons c r : r <> "" -> ends_with_dot (String c r) = ends_with_dot r.
Proof. destruct r; [congruence|reflexivity]. Qed.

(* the heart: a dotted name without leading/trailing/double dots becomes a path of non-empty word segments *)
Lemma dotted_wp s : forall fresh,
  sall name_char s = true -> has_dotdot s = false -> ends_with_dot s = false ->
  (fresh = true -> starts_with_dot s = false /\ s <> "") ->
  wp fresh (smap dot_to_slash s) = true.
Proof.
  induction s as [|c r IH]; intros fresh Hall Hdd Hend Hfresh.
  - simpl. destruct fresh; [|reflexivity]. destruct (Hfresh eq_refl) as [_ H]. congruence.
  - simpl in Hall. apply andb_true_iff in Hall as [Hc Hr]. simpl smap.
    destruct (name_char_cases _ Hc) as [Hdot|Hw].
    + (* c = '.' *)
      unfold dot_to_slash at 1. rewrite Hdot. cbn [wp]. change (Ascii.eqb ch_slash ch_slash) with true. cbv iota.
      assert (fresh = false) as ->.
      { destruct fresh; [|reflexivity]. destruct (Hfresh eq_refl) as [H _]. simpl in H. congruence. }
      simpl. apply IH; auto.
      * destruct r; [reflexivity|]. simpl in Hdd. apply orb_false_iff in Hdd. tauto.
      * destruct r; [simpl in Hend; congruence|]. now rewrite ends_with_dot_cons in Hend by discriminate.
      * intros _. split.
        -- destruct r as [|d r']; [reflexivity|]. simpl in Hdd. simpl. rewrite Hdot in Hdd. simpl in Hdd.
           apply orb_false_iff in Hdd. tauto.
        -- intros ->. simpl in Hend. congruence.
    + unfold dot_to_slash at 1. rewrite (is_word_not_dot _ Hw). simpl.
      rewrite (is_word_not_slash _ Hw), Hw. simpl. apply IH; auto.
      * destruct r; [reflexivity|]. simpl in Hdd. apply orb_false_iff in Hdd. tauto.
      * destruct r; [reflexivity|]. now rewrite ends_with_dot_cons in Hend by discriminate.
      * discriminate.
Qed.

Lemma lower_starts s : starts_with_dot (lower s) = starts_with_dot s.
Proof. destruct s; simpl; [reflexivity|apply lower_char_dot]. Qed.
Lemma lower_ends s : ends_with_dot (lower s) = ends_with_dot s.
Proof.
  unfold lower. induction s as [|c r IH]; [reflexivity|].
  destruct r as [|d r']; simpl; [apply lower_char_dot|]. exact IH.
Qed.
Lemma has_dotdot_cons2 c d r :
  has_dotdot (String c (String d r)) = (Ascii.eqb c ch_dot && Ascii.eqb d ch_dot) || has_dotdot (String d r).
Proof. reflexivity. Qed.
Lemma lower_dotdot s : has_dotdot (lower s) = has_dotdot s.
Proof.
  unfold lower. induction s as [|c r IH]; [reflexivity|].
  destruct r as [|d r']; [reflexivity|].
  cbn [smap] in *. rewrite !has_dotdot_cons2, !lower_char_dot. f_equal. exact IH.
Qed.

Lemma prefix_split p s : String.prefix p s = true -> s = p ++ sdrop (String.length p) s.
Proof.
  revert s. induction p as [|c r IH]; intros s H; simpl; [reflexivity|].
  destruct s as [|d s']; simpl in H; [discriminate|].
  destruct (ascii_dec c d) as [->|]; [|discriminate]. simpl. f_equal. now apply IH.
Qed.

Lemma has_dotdot_app_r a b : has_dotdot (a ++ b) = false -> has_dotdot b = false.
Proof.
  induction a as [|c r IH]; simpl; [auto|].
  destruct (r ++ b) eqn:E; [destruct r, b; simpl in *; try discriminate; auto|].
  intros H. apply orb_false_iff in H as [_ H]. auto.
Qed.
Lemma ends_with_dot_app a b : b <> "" -> ends_with_dot (a ++ b) = ends_with_dot b.
Proof.
  intros Hb. induction a as [|c r IH]; simpl; [reflexivity|].
  destruct (r ++ b) eqn:E; [destruct r, b; simpl in *; congruence|]. exact IH.
Qed.

(* the class prefix handed down by the lexer: "" or "<path of word segments>/" *)
Definition prefix_wf (prefix : string) : Prop :=
  prefix = "" \/ exists q, prefix = q ++ "/" /\ wp true q = true.

Lemma convention_wp strict lw prefix s p :
  convention strict lw prefix s = inr p -> has_dotdot s = false -> prefix_wf prefix -> wp true p = true.
Proof.
  unfold convention. intros H Hdd Hpre.
  destruct (starts_with_dot s) eqn:Hs; [discriminate|].
  destruct (ends_with_dot s) eqn:He; [discriminate|].
  rewrite Hdd, andb_false_r in H.
  set (s1 := if lw then lower s else s) in *.
  assert (Hs1 : starts_with_dot s1 = false) by (subst s1; destruct lw; now rewrite ?lower_starts).
  assert (He1 : ends_with_dot s1 = false) by (subst s1; destruct lw; now rewrite ?lower_ends).
  assert (Hd1 : has_dotdot s1 = false) by (subst s1; destruct lw; now rewrite ?lower_dotdot).
  clearbody s1.
  destruct (negb (prefix =? "") && String.prefix "this." s1) eqn:Hthis.
  - apply andb_true_iff in Hthis as [Hne Hp]. apply negb_true_iff in Hne. apply String.eqb_neq in Hne.
    destruct Hpre as [->|[q [-> Hq]]]; [congruence|].
    pose proof (prefix_split _ _ Hp) as Es1. simpl String.length in Es1.
    set (u := sdrop 5 s1) in *. clearbody u.
    assert (Hwos : sall wos (q ++ "/") = true).
    { rewrite sall_app, (wp_wos _ _ Hq). reflexivity. }
    destruct (smap slash_to_dot (q ++ "/") ++ u) eqn:Es2; [discriminate|]. rewrite <- Es2 in H. clear Es2.
    destruct (sall name_char (smap slash_to_dot (q ++ "/") ++ u)) eqn:Hall; [|discriminate].
    inversion H; subst p. clear H.
    rewrite sall_app in Hall. apply andb_true_iff in Hall as [_ Hu].
    rewrite smap_app, (wos_roundtrip _ Hwos), append_assoc.
    change ("/" ++ smap dot_to_slash u) with (String ch_slash (smap dot_to_slash u)).
    assert (Hune : u <> "").
    { intros ->. rewrite Es1 in He1. vm_compute in He1. discriminate. }
    apply wp_app; [assumption|]. apply dotted_wp; auto.
    + rewrite Es1 in Hd1. now apply has_dotdot_app_r in Hd1.
    + rewrite Es1 in He1. now rewrite ends_with_dot_app in He1.
    + intros _. split; [|assumption].
      destruct u as [|d u']; [congruence|]. rewrite Es1 in Hd1. simpl in Hd1. simpl.
      destruct (Ascii.eqb d ch_dot); [simpl in Hd1; discriminate|reflexivity].
  - destruct s1 as [|c r] eqn:E1; [discriminate|]. rewrite <- E1 in *.
    destruct (sall name_char s1) eqn:Hall; [|discriminate]. inversion H; subst p.
    apply dotted_wp; auto. intros _. split; [assumption|]. rewrite E1. discriminate.
Qed.

(* convention_jmc_to_mc never returns an illegal path (repaired behaviour; for the pinned
   behaviour under the hypothesis that the name has no ".."). *)
Lemma convention_legal_partial strict lw prefix s p :
  convention strict lw prefix s = inr p -> has_dotdot s = false -> prefix_wf prefix -> legal_path p = true.
Proof. intros. apply wp_legal. eapply convention_wp; eauto. Qed.

Lemma convention_strict_no_dotdot lw prefix s p : convention true lw prefix s = inr p -> has_dotdot s = false.
Proof.
  unfold convention. destruct (starts_with_dot s); [discriminate|]. destruct (ends_with_dot s); [discriminate|].
  destruct (has_dotdot s); [discriminate|reflexivity].
Qed.

Lemma convention_legal lw prefix s p :
  convention true lw prefix s = inr p -> prefix_wf prefix -> legal_path p = true.
Proof. intros H Hp. eapply convention_legal_partial; eauto using convention_strict_no_dotdot. Qed.

(* `this.` resolution: inside the class prefix `q/`, the call name `this.<name>` denotes the
   path `q/` ++ (path of <name>) *)
Lemma ends_with_dot_this name : name <> "" -> ends_with_dot ("this." ++ name) = ends_with_dot name.
Proof. intros H. now apply ends_with_dot_app. Qed.
Lemma has_dotdot_this name :
  has_dotdot ("this." ++ name) = starts_with_dot name || has_dotdot name.
Proof. destruct name as [|d r]; [reflexivity|]. simpl. destruct (Ascii.eqb d ch_dot); reflexivity. Qed.

Lemma prefix_app p x : String.prefix p (p ++ x) = true.
Proof. induction p as [|c r IH]; simpl; [now destruct x|]. destruct (ascii_dec c c); [exact IH|congruence]. Qed.
Lemma sdrop_app p x : sdrop (String.length p) (p ++ x) = x.
Proof. induction p; simpl; auto. Qed.

Lemma convention_this strict q name p :
  wp true q = true -> convention strict true "" name = inr p ->
  convention strict true (q ++ "/") ("this." ++ name) = inr ((q ++ "/") ++ p).
Proof.
  intros Hq H. unfold convention in *.
  destruct (starts_with_dot name) eqn:Hs; [discriminate|].
  destruct (ends_with_dot name) eqn:He; [discriminate|].
  destruct (strict && has_dotdot name) eqn:Hd; [discriminate|].
  change (negb ("" =? "")) with false in H. cbn [andb] in H.
  destruct (lower name) as [|c r] eqn:El; [discriminate|]. rewrite <- El in H.
  destruct (sall name_char (lower name)) eqn:Hall; [|discriminate]. inversion H; subst p. clear H.
  assert (Hne : name <> "") by (intros ->; discriminate).
  change (starts_with_dot ("this." ++ name)) with false. cbv iota.
  rewrite (ends_with_dot_this _ Hne), He, has_dotdot_this, Hs. cbn [orb]. rewrite Hd.
  assert (Hl : lower ("this." ++ name) = "this." ++ lower name) by (unfold lower; now rewrite smap_app).
  rewrite Hl.
  assert (Hpne : (q ++ "/" =? "") = false) by (apply String.eqb_neq; destruct q; discriminate).
  rewrite Hpne, prefix_app. cbn [negb andb].
  change 5 with (String.length "this."). rewrite sdrop_app.
  assert (Hwos : sall wos (q ++ "/") = true) by (rewrite sall_app, (wp_wos _ _ Hq); reflexivity).
  destruct (smap slash_to_dot (q ++ "/") ++ lower name) eqn:E2.
  { destruct q; simpl in E2; discriminate. }
  rewrite <- E2. rewrite sall_app, (wos_name_chars _ Hwos), Hall. cbn [andb].
  now rewrite smap_app, (wos_roundtrip _ Hwos).
Qed.
