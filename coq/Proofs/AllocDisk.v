(* Proofs.AllocDisk — the disk build (Model/AllocDisk.v): registration of load / tick in the MERGED function tags, no
   left-over own entry, presence of every generated file and closure of the generated files on the tree that the build
   leaves on disk (property C07, strengthening round 4). *)
From Coq Require Import String Ascii List Bool Arith ZArith Lia.
From JMCV Require Import Base.Dec Model.Names Model.ResLoc Model.Alloc Model.AllocDisk Proofs.ResLoc Proofs.Alloc.
Import ListNotations.
Open Scope string_scope.

(* ------------------------------------------------------------------ trees *)
Lemma dget_dset p k v t : dget p (dset k v t) = if String.eqb p k then Some v else dget p t.
Proof.
  induction t as [|[k' v'] r IH]; simpl; [reflexivity|].
  destruct (String.eqb k k') eqn:E; simpl.
  - apply String.eqb_eq in E. subst k'. destruct (String.eqb p k); reflexivity.
  - destruct (String.eqb p k') eqn:E2.
    + apply String.eqb_eq in E2. subst k'. destruct (String.eqb p k) eqn:E3; [|reflexivity].
      apply String.eqb_eq in E3. subst. rewrite string_eqb_refl in E. discriminate.
    + exact IH.
Qed.

Lemma dget_overlay p src : forall t,
  dget p (overlay src t) = match dlast p src with Some v => Some v | None => dget p t end.
Proof.
  unfold overlay. induction src as [|[k v] r IH]; intros t; simpl; [reflexivity|].
  rewrite IH. destruct (dlast p r); [reflexivity|]. rewrite dget_dset. simpl. destruct (String.eqb p k); reflexivity.
Qed.

Lemma dlast_none p src : (forall kv, In kv src -> fst kv <> p) -> dlast p src = None.
Proof.
  induction src as [|[k v] r IH]; simpl; intros H; [reflexivity|].
  rewrite IH by auto. destruct (String.eqb p k) eqn:E; [|reflexivity].
  apply String.eqb_eq in E. exfalso. apply (H (k, v)); [now left|now subst].
Qed.
Lemma dlast_some p src : In p (map fst src) -> exists v, dlast p src = Some v.
Proof.
  induction src as [|[k v] r IH]; simpl; [tauto|]. intros [H|H].
  - subst k. destruct (dlast p r); [eauto|]. rewrite string_eqb_refl. eauto.
  - destruct (IH H) as [v' ->]. eauto.
Qed.

Lemma dget_filter (f : string -> bool) p t :
  dget p (filter (fun kv : string * dcontent => f (fst kv)) t) = if f p then dget p t else None.
Proof.
  induction t as [|[k v] r IH]; simpl; [now destruct (f p)|].
  destruct (f k) eqn:Fk; simpl.
  - destruct (String.eqb p k) eqn:E; [|exact IH]. apply String.eqb_eq in E. subst. now rewrite Fk.
  - rewrite IH. destruct (String.eqb p k) eqn:E; [|reflexivity]. apply String.eqb_eq in E. subst. now rewrite Fk.
Qed.

Lemma dmem_dset p k v t : dmem p t = true -> dmem p (dset k v t) = true.
Proof. unfold dmem. rewrite dget_dset. destruct (String.eqb p k); [reflexivity|auto]. Qed.
Lemma dmem_dset_same p v t : dmem p (dset p v t) = true.
Proof. unfold dmem. now rewrite dget_dset, string_eqb_refl. Qed.
Lemma dmem_overlay p src t : dmem p t = true -> dmem p (overlay src t) = true.
Proof. unfold dmem. rewrite dget_overlay. destruct (dlast p src); [reflexivity|auto]. Qed.
Lemma dmem_overlay_src p src t : In p (map fst src) -> dmem p (overlay src t) = true.
Proof. intros H. unfold dmem. rewrite dget_overlay. destruct (dlast_some _ _ H) as [v ->]. reflexivity. Qed.

Lemma strs_eqb_eq a : forall b, strs_eqb a b = true -> a = b.
Proof.
  induction a as [|x a IH]; intros [|y b]; simpl; try discriminate; [reflexivity|].
  intros H. apply andb_true_iff in H as [H1 H2]. apply String.eqb_eq in H1. f_equal; auto.
Qed.

(* ------------------------------------------------------------------ the tag paths *)
Fixpoint slast (s : string) : option ascii :=
  match s with
  | EmptyString => None
  | String ch EmptyString => Some ch
  | String _ r => slast r
  end.
Lemma slast_app a b : b <> "" -> slast (a ++ b) = slast b.
Proof.
  intros N. induction a as [|ch a IH]; simpl; [reflexivity|].
  destruct (a ++ b) eqn:E; [|exact IH].
  destruct a; simpl in E; [congruence|discriminate].
Qed.

Lemma tag_paths_differ c : String.eqb (load_path c) (tick_path c) = false /\ String.eqb (tick_path c) (load_path c) = false.
Proof. unfold load_path, tick_path, disk_path, tag_key. simpl. destruct (c_legacy c); split; reflexivity. Qed.
Lemma tag_under_minecraft c name : name = "load" \/ name = "tick" -> under "data/minecraft" (disk_path (tag_key c name)) = true.
Proof. intros [-> | ->]; unfold disk_path, tag_key; simpl; destruct (c_legacy c); reflexivity. Qed.
Lemma cert_not_tag c name : name = "load" \/ name = "tick" -> String.eqb (disk_path (tag_key c name)) (cert_path c) = false.
Proof.
  intros H. apply String.eqb_neq. intros E. apply (f_equal slast) in E.
  assert (N1 : "/jmc.txt" <> "") by discriminate.
  assert (N2 : c_ns c ++ "/jmc.txt" <> "") by (destruct (c_ns c); discriminate).
  unfold cert_path in E. rewrite (slast_app "data/" _ N2), (slast_app (c_ns c) _ N1) in E.
  destruct H as [-> | ->]; unfold disk_path, tag_key in E; simpl in E; destruct (c_legacy c); discriminate.
Qed.

Lemma deleted_tag c e name :
  name = "load" \/ name = "tick" ->
  deleted c e (disk_path (tag_key c name)) = e_delete e && negb (shielded e (disk_path (tag_key c name))).
Proof.
  intros H. unfold deleted, del_dirs. cbn [map existsb append]. rewrite (tag_under_minecraft c name H). cbn [orb]. now rewrite andb_true_r.
Qed.

(* ------------------------------------------------------------------ read_func_tag *)
Lemma foreign_all c vs : forallb (fun v => negb (own_entry c v)) (foreign c vs) = true.
Proof. apply forallb_forall. intros v H. unfold foreign in H. apply filter_In in H. tauto. Qed.

Lemma read_tag_foreign c f x vs : read_tag c f = TRVals x vs -> forallb (fun v => negb (own_entry c v)) vs = true.
Proof.
  destruct f as [[t|x0 vs0]|]; simpl; intros H; inversion H; subst; [apply foreign_all|reflexivity].
Qed.
(* what the merge keeps never belongs to the pack's own namespace ... *)
Lemma merged_foreign c e p x vs : merged_tag c e p = TRVals x vs -> forallb (fun v => negb (own_entry c v)) vs = true.
Proof.
  unfold merged_tag. destruct (dlast p (copied e)); [apply read_tag_foreign|].
  destruct (e_delete e && negb (shielded e p)); [intros H; inversion H; reflexivity|apply read_tag_foreign].
Qed.
(* ... and comes from the tag file the #copy folder ships, else from the one kept in the output directory *)
Lemma merged_provenance c e p x vs :
  merged_tag c e p = TRVals x vs ->
  vs = [] \/ exists vs0, (dlast p (copied e) = Some (DTag x vs0) \/ dget p (e_prev e) = Some (DTag x vs0)) /\ vs = foreign c vs0.
Proof.
  unfold merged_tag. destruct (dlast p (copied e)) as [[t|x0 vs0]|] eqn:L; simpl.
  - discriminate.
  - intros H. inversion H; subst. right. eauto.
  - destruct (e_delete e && negb (shielded e p)); [intros H; inversion H; now left|].
    destruct (dget p (e_prev e)) as [[t|x0 vs0]|] eqn:G; simpl; intros H; inversion H; subst; [right; eauto|now left].
Qed.

Lemma merged_keeps c e p x vs :
  merged_tag c e p = TRVals x vs ->
  forallb (fun v => negb (own_entry c v)) vs = true /\
  (vs = [] \/ exists vs0, (dlast p (copied e) = Some (DTag x vs0) \/ dget p (e_prev e) = Some (DTag x vs0)) /\ vs = foreign c vs0).
Proof. intros H. split; [exact (merged_foreign c e p x vs H)|exact (merged_provenance c e p x vs H)]. Qed.

(* the tag file that is on disk once deletion, make_cert and #copy are done is the one the merge has read *)
Lemma after_copy_tag c e name x0 vs0 :
  name = "load" \/ name = "tick" ->
  dget (disk_path (tag_key c name)) (after_copy c e) = Some (DTag x0 vs0) ->
  merged_tag c e (disk_path (tag_key c name)) = TRVals x0 (foreign c vs0).
Proof.
  intros Hn. unfold after_copy, merged_tag. rewrite dget_overlay.
  destruct (dlast (disk_path (tag_key c name)) (copied e)) as [f|] eqn:L.
  - intros H. inversion H; subst. reflexivity.
  - rewrite dget_dset, (cert_not_tag c name Hn). unfold after_delete.
    rewrite (dget_filter (fun p => negb (deleted c e p))). rewrite (deleted_tag c e name Hn).
    destruct (e_delete e && negb (shielded e (disk_path (tag_key c name)))); simpl; [discriminate|].
    intros ->. reflexivity.
Qed.

Lemma registered_app c loc lv :
  forallb (fun v => negb (own_entry c v)) lv = true -> registered c loc (lv ++ [loc]) = true.
Proof.
  intros F. unfold registered. apply andb_true_iff. split.
  - induction lv as [|v lv IH]; simpl; [now rewrite string_eqb_refl|].
    simpl in F. apply andb_true_iff in F as [_ F]. rewrite (IH F). apply orb_true_r.
  - rewrite forallb_app. apply andb_true_iff. split.
    + rewrite forallb_forall in *. intros v Hv. rewrite (F v Hv). reflexivity.
    + simpl. rewrite string_eqb_refl, orb_true_r. reflexivity.
Qed.

(* ------------------------------------------------------------------ (round 5) the #copy library *)
Lemma dmem_in p (t : dtree) : dmem p t = true -> In p (map fst t).
Proof.
  unfold dmem. induction t as [|[k v] r IH]; simpl; [discriminate|].
  destruct (String.eqb p k) eqn:E; [apply String.eqb_eq in E; auto|]. intros H. right. apply IH. exact H.
Qed.
Lemma fkey_of_folder c p : k_folder (fkey_of c p) = Some (func_folder (c_legacy c)).
Proof. unfold fkey_of, func_key. destruct (split_first ch_slash p) as [f [rest|]]; destruct (mem_str f (c_overrides c)); reflexivity. Qed.
Lemma check_called_lib_false c st f l : check_called_lib (fun _ => false) c st f l = check_called c st f l.
Proof. induction l as [|[p pre] r IH]; simpl; [reflexivity|]. rewrite IH. reflexivity. Qed.
Lemma check_called_lib_none lib c st f l :
  check_called_lib lib c st f l = None ->
  forall p pre, In (p, pre) l -> lib p = true \/ amem p f = true \/ mem_str (first_seg p) (c_links c) = true.
Proof.
  induction l as [|[p0 pre0] r IH]; simpl; intros H p pre Hin; [contradiction|].
  destruct (priv_violation st p0 pre0); [discriminate|].
  destruct (negb (lib p0) && negb (amem p0 f) && negb (mem_str (first_seg p0) (c_links c))) eqn:E; [discriminate|].
  destruct Hin as [Hin|Hin]; [|eauto]. inversion Hin; subst.
  apply andb_false_iff in E as [E|E]; [apply andb_false_iff in E as [E|E]|]; apply negb_false_iff in E; auto.
Qed.
(* the undefined-call check accepts a call to a name the program does not define (and that is no #link name) IFF the
   library ships it in the loaded folder *)
Theorem lib_call_accepted_iff c e st f p pre :
  priv_violation st p pre = false -> amem p f = false -> mem_str (first_seg p) (c_links c) = false ->
  (check_called_lib (in_copy c e) c st f [(p, pre)] = None <-> in_copy c e p = true).
Proof.
  intros H1 H2 H3. simpl. rewrite H1, H2, H3. destruct (in_copy c e p); simpl; split; intros H; try reflexivity; discriminate.
Qed.
(* ... and what "ships" means: a file of the copied tree at data/<ns>/<func_folder legacy>/<path>.mcfunction; the same
   file under the OTHER folder name does not count *)
Theorem in_copy_spec c e p :
  in_copy c e p = true <-> exists t, e_copy e = Some t /\ dmem (disk_path (fkey_of c p)) t = true.
Proof.
  unfold in_copy. split.
  - destruct (e_copy e) as [t|]; [eauto|discriminate].
  - intros [t [-> H]]. exact H.
Qed.
Theorem without_copy_checks c e b st f : e_copy e = None -> checks_lib (in_copy c e) c b st f = checks c b st f.
Proof.
  intros H. unfold checks_lib, checks. replace (check_called_lib (in_copy c e) c st f (called st)) with (check_called c st f (called st)); [reflexivity|].
  rewrite <- check_called_lib_false. induction (called st) as [|[p pre] r IH]; simpl; [reflexivity|].
  unfold in_copy at 1. rewrite H. rewrite IH. reflexivity.
Qed.

Lemma forallb_ext' {A} (f g : A -> bool) l : (forall x, f x = g x) -> forallb f l = forallb g l.
Proof. intros H. induction l as [|a l IH]; simpl; [reflexivity|]. now rewrite H, IH. Qed.
(* without a #copy folder the disk discipline is the discipline of the virtual build *)
Theorem without_copy_disc c e b st : e_copy e = None -> disc_lib c e b st = disc c b st.
Proof.
  intros H. unfold disc_lib, disc, text_disc_lib, text_disc.
  assert (R : forall r, ref_defined_lib c e b st r = ref_defined c b st r).
  { intros r. unfold ref_defined_lib. destruct r as [l|l]; [|apply orb_false_r].
    replace (existsb _ (called st)) with false; [apply orb_false_r|].
    induction (called st) as [|pp r IH]; simpl; [reflexivity|]. rewrite <- IH. unfold in_copy. rewrite H. now rewrite andb_false_r. }
  f_equal. f_equal. f_equal.
  - apply forallb_ext'. intros l. apply forallb_ext'. exact R.
  - apply forallb_ext'. intros x. destruct (snd (snd x)); [|reflexivity]. apply forallb_ext'. exact R.
Qed.

(* ------------------------------------------------------------------ the build *)
Section Disk.
  Variables (c : cfg) (e : denv) (b : bdata) (st : state) (tree : dtree).
  Hypothesis HD : dbuild c e b st = inr tree.

  Lemma dbuild_inv : exists h' f' ff lx lv tx tv,
    assemble c b st = inr (h', f') /\ checks_lib (in_copy c e) c b st f' = None /\ emit_funcs c h' f' = inr ff /\
    merged_tag c e (load_path c) = TRVals lx lv /\ merged_tag c e (tick_path c) = TRVals tx tv /\
    tree = overlay (disk_files c (ff ++ emit_jsons c (jsons st)))
                   (write_tick c (tick_nonempty c h' f') tx tv (write_load c lx lv (after_copy c e))) /\
    copy_clash c e f' = false.
  Proof.
    unfold dbuild, dbuild_gen in HD. destruct (assemble c b st) as [er|[h' f']] eqn:A; [discriminate|]. simpl in HD.
    destruct (copy_clash c e f') eqn:CC; [discriminate|].
    destruct (checks_lib (in_copy c e) c b st f') eqn:C; [discriminate|].
    destruct (emit_funcs c h' f') as [er|ff] eqn:E; [discriminate|].
    destruct (merged_tag c e (load_path c)) as [|lx lv] eqn:ML; [discriminate|].
    destruct (merged_tag c e (tick_path c)) as [|tx tv] eqn:MT; [discriminate|].
    inversion HD; subst tree. exists h', f', ff, lx, lv, tx, tv. repeat split; try assumption; try reflexivity.
  Qed.

  (* (round 5) the files the accepted disk build generates; with a call into the #copy library the VIRTUAL build of the
     same program fails ("never defined"), so they are no longer taken from [build] *)
  Lemma dbuild_files : exists h' f' ff,
    assemble c b st = inr (h', f') /\ emit_funcs c h' f' = inr ff /\
    all_files c b st = (emit_tags c h' f' ++ ff ++ emit_jsons c (jsons st))%list.
  Proof.
    destruct dbuild_inv as (h' & f' & ff & lx & lv & tx & tv & A & _ & E & _). exists h', f', ff.
    repeat split; try assumption. unfold all_files. rewrite A. cbn [fst snd]. rewrite E. reflexivity.
  Qed.

  Lemma dmem_write_tick p ne x tv t : dmem p t = true -> dmem p (write_tick c ne x tv t) = true.
  Proof.
    intros H. unfold write_tick. destruct ne; [now apply dmem_dset|].
    destruct (dget (tick_path c) t) as [[?|? vs0]|]; try assumption.
    destruct (strs_eqb vs0 tv); [assumption|now apply dmem_dset].
  Qed.

  (* every file the build generates — the two tags, every function, every json — is a file of the tree *)
  Theorem disk_all_present k : In k (keys (all_files c b st)) -> dmem (disk_path k) tree = true.
  Proof.
    intros Hk. destruct dbuild_inv as (h' & f' & ff & lx & lv & tx & tv & A & C & E & ML & MT & -> & CC).
    unfold all_files in Hk. rewrite A in Hk. cbn [fst snd] in Hk. rewrite E in Hk.
    unfold keys in Hk. cbn [map fst] in Hk. destruct Hk as [<-|Hk].
    { apply dmem_overlay. apply dmem_write_tick. unfold write_load. apply dmem_dset_same. }
    rewrite map_app in Hk. apply in_app_or in Hk as [Hk|Hk].
    - apply dmem_overlay. destruct (tick_nonempty c h' f'); [|contradiction]. destruct Hk as [<-|[]].
      unfold write_tick. apply dmem_dset_same.
    - apply dmem_overlay_src. unfold disk_files. rewrite map_map. simpl.
      apply in_map_iff in Hk as [kv [<- Hin]]. apply in_map_iff. exists kv. split; [reflexivity|assumption].
  Qed.
  Lemma build_all_files files : build c b st = inr files -> files = all_files c b st.
  Proof.
    intros B. destruct (build_inv _ _ _ _ B) as (h2 & f2 & ff2 & A2 & _ & E2 & ->).
    unfold all_files. rewrite A2. cbn [fst snd]. rewrite E2. reflexivity.
  Qed.
  Theorem disk_generated_present files k :
    build c b st = inr files -> In k (keys files) -> dmem (disk_path k) tree = true.
  Proof. intros B Hk. apply disk_all_present. rewrite <- (build_all_files _ B). exact Hk. Qed.

  (* (round 5) a function the #copy library ships IN THE FOLDER THE PACK FORMAT LOADS is a file of the tree *)
  Theorem in_copy_on_disk p : in_copy c e p = true -> dmem (disk_path (fkey_of c p)) tree = true.
  Proof.
    intros H. destruct dbuild_inv as (h' & f' & ff & lx & lv & tx & tv & _ & _ & _ & _ & _ & -> & _).
    apply dmem_overlay. apply dmem_write_tick. unfold write_load. apply dmem_dset.
    unfold after_copy. apply dmem_overlay_src. unfold in_copy in H. unfold copied.
    destruct (e_copy e) as [t|]; [|discriminate]. now apply dmem_in.
  Qed.

  (* (round 5) CALLS RESOLVE ON DISK: every function the program calls (plain call, from a class, `schedule`, execute-run …:
     the entries of functions_called) outside the #link namespaces names a function file of the tree, in the function
     folder the pack format loads — generated by the build, or shipped by the #copy library in that folder *)
  Theorem disk_called_resolves p pre :
    In (p, pre) (called st) -> mem_str (first_seg p) (c_links c) = false ->
    dmem (disk_path (fkey_of c p)) tree = true /\ k_folder (fkey_of c p) = Some (func_folder (c_legacy c)).
  Proof.
    intros Hin L. split; [|apply fkey_of_folder].
    destruct dbuild_inv as (h' & f' & ff & lx & lv & tx & tv & A & C & E & _).
    unfold checks_lib in C. destruct (check_called_lib (in_copy c e) c st f' (called st)) eqn:CC; [discriminate|].
    destruct (check_called_lib_none _ _ _ _ _ CC _ _ Hin) as [M|[M|M]]; [now apply in_copy_on_disk| |congruence].
    apply disk_all_present. unfold all_files. rewrite A. cbn [fst snd]. rewrite E.
    unfold keys. rewrite !map_app. apply in_or_app. right. apply in_or_app. left.
    destruct (emit_funcs_spec _ _ _ _ E) as [K _]. rewrite K. apply in_map. now apply amem_keys.
  Qed.

  (* CLOSURE ON DISK: every own-namespace reference (function call, schedule, function-tag entry, #tag, advancement
     reward) of every generated file names a file of the tree the build leaves behind *)
  Theorem disk_closed files :
    build c b st = inr files -> disc c b st = true -> disk_closedb c files tree = true.
  Proof.
    intros B D. pose proof (build_closed _ _ _ _ B D) as CL. unfold closedb in CL. unfold disk_closedb.
    rewrite forallb_forall in *. intros kv Hkv. specialize (CL kv Hkv). rewrite forallb_forall in *.
    intros r Hr. specialize (CL r Hr). unfold ref_resolves in CL. unfold ref_on_disk.
    destruct (negb (ref_own c r)); [reflexivity|]. simpl in *.
    destruct (ref_key c r) as [k|]; [|discriminate]. unfold kmem in CL. apply existsb_exists in CL as [k' [Hin Heq]].
    apply fkey_eqb_eq in Heq. subst k'. eapply disk_generated_present; eauto.
  Qed.

  Section Tags.
    Hypothesis TF : disk_tag_free c (gen_files c b st) = true.

    Lemma gen_misses_tags h' f' ff :
      assemble c b st = inr (h', f') -> emit_funcs c h' f' = inr ff ->
      dlast (load_path c) (disk_files c (ff ++ emit_jsons c (jsons st))) = None /\
      dlast (tick_path c) (disk_files c (ff ++ emit_jsons c (jsons st))) = None.
    Proof.
      intros A E. unfold disk_tag_free, gen_files in TF. rewrite A in TF. cbn [fst snd] in TF. rewrite E in TF.
      rewrite forallb_forall in TF.
      split; apply dlast_none; intros kv Hin; unfold disk_files in Hin; apply in_map_iff in Hin as [kv' [<- Hin]]; simpl;
        specialize (TF _ Hin); apply andb_true_iff in TF as [T1 T2]; apply negb_true_iff in T1, T2;
        apply String.eqb_neq in T1, T2; congruence.
    Qed.

    (* REGISTRATION, load: the load tag of the tree is the merged tag — the values the user's tag file (copied, or kept in
       the output) holds outside the pack's namespace — followed by <ns>:<LOAD>; it holds no other value of the namespace *)
    Theorem disk_load_registered :
      exists x lv, dget (load_path c) tree = Some (DTag x (lv ++ [load_loc c])) /\
                   merged_tag c e (load_path c) = TRVals x lv /\ load_registered c tree = true.
    Proof.
      destruct dbuild_inv as (h' & f' & ff & lx & lv & tx & tv & A & C & E & ML & MT & -> & B).
      destruct (gen_misses_tags _ _ _ A E) as [GL _]. exists lx, lv.
      assert (G : dget (load_path c) (overlay (disk_files c (ff ++ emit_jsons c (jsons st)))
                    (write_tick c (tick_nonempty c h' f') tx tv (write_load c lx lv (after_copy c e))))
                  = Some (DTag lx (lv ++ [load_loc c]))).
      { rewrite dget_overlay, GL. destruct (tag_paths_differ c) as [D1 D2].
        assert (W : dget (load_path c) (write_load c lx lv (after_copy c e)) = Some (DTag lx (lv ++ [load_loc c]))).
        { unfold write_load. now rewrite dget_dset, string_eqb_refl. }
        unfold write_tick. destruct (tick_nonempty c h' f').
        - now rewrite dget_dset, D1.
        - destruct (dget (tick_path c) (write_load c lx lv (after_copy c e))) as [[?|? vs0]|]; try exact W.
          destruct (strs_eqb vs0 tv); [exact W|]. now rewrite dget_dset, D1. }
      split; [exact G|]. split; [exact ML|].
      unfold load_registered, tag_values. rewrite G. apply registered_app. eapply merged_foreign; eauto.
    Qed.

    (* REGISTRATION, tick: with a non-empty tick function the tick tag is the merged tag followed by <ns>:<TICK>;
       without one, a tick tag that is still in the tree holds no value of the pack's namespace *)
    Theorem disk_tick_registered h' f' :
      assemble c b st = inr (h', f') ->
      tick_registered c (tick_nonempty c h' f') tree = true /\
      (tick_nonempty c h' f' = true ->
         exists x tv, dget (tick_path c) tree = Some (DTag x (tv ++ [tick_loc c])) /\ merged_tag c e (tick_path c) = TRVals x tv).
    Proof.
      intros A0. destruct dbuild_inv as (h2 & f2 & ff & lx & lv & tx & tv & A & C & E & ML & MT & -> & B).
      rewrite A0 in A. inversion A; subst h2 f2. clear A.
      destruct (gen_misses_tags _ _ _ A0 E) as [_ GT]. destruct (tag_paths_differ c) as [D1 D2].
      destruct (tick_nonempty c h' f') eqn:NE.
      - assert (G : dget (tick_path c) (overlay (disk_files c (ff ++ emit_jsons c (jsons st)))
                      (write_tick c true tx tv (write_load c lx lv (after_copy c e))))
                    = Some (DTag tx (tv ++ [tick_loc c]))).
        { rewrite dget_overlay, GT. unfold write_tick. now rewrite dget_dset, string_eqb_refl. }
        unfold tick_registered. rewrite G. split.
        + apply registered_app. eapply merged_foreign; eauto.
        + intros _. exists tx, tv. auto.
      - split; [|discriminate]. unfold tick_registered. rewrite dget_overlay, GT. unfold write_tick.
        assert (W : dget (tick_path c) (write_load c lx lv (after_copy c e)) = dget (tick_path c) (after_copy c e)).
        { unfold write_load. now rewrite dget_dset, D2. }
        rewrite W. destruct (dget (tick_path c) (after_copy c e)) as [[t|x0 vs0]|] eqn:G.
        + rewrite W. reflexivity.
        + pose proof (after_copy_tag c e "tick" x0 vs0 (or_intror eq_refl) G) as M.
          fold (tick_path c) in M. rewrite MT in M. inversion M; subst tx tv.
          destruct (strs_eqb vs0 (foreign c vs0)) eqn:S.
          * rewrite W. apply strs_eqb_eq in S. rewrite S. apply foreign_all.
          * rewrite dget_dset, string_eqb_refl. apply foreign_all.
        + rewrite W. reflexivity.
    Qed.
  End Tags.
End Disk.
