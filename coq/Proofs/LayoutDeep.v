(* Proofs.LayoutDeep — the relayout theorem at every nesting depth: `shape_of` (types, texts,
   is_connected flags, and recursively the re-tokenised content of every bracket in both modes)
   is the same for a program and for any of its re-layouts.  Property C15. *)
From Coq Require Import ZArith String List Bool Ascii Lia.
From JMCV Require Import Model.Layout Proofs.LayoutBasic Proofs.LayoutAdj Proofs.LayoutAdj2 Proofs.MacroFactsStub
     Proofs.LayoutSim Proofs.LayoutSim2.
Import ListNotations.
Open Scope Z_scope.

(* ------------------------------------------------------------------ dropping the closing bracket *)
Lemma relayout_nil_l m s' : relayout m [] s' -> s' = [].
Proof.
  intros H. inversion H; subst; try reflexivity.
  exfalso. match goal with A : lay_run ?w, B : ?w ++ _ = [] |- _ => apply app_eq_nil in B; destruct B as [B _];
                                                                    exact (lay_run_nonempty _ A B) end.
Qed.
Lemma relayout_nil_r m s : relayout m s [] -> s = [].
Proof. intros H. apply relayout_sym in H. apply relayout_nil_l in H. assumption. Qed.

Lemma lay_run_last_ws w : lay_run w -> exists r c, w = r ++ [c] /\ is_ws c = true.
Proof.
  induction 1 as [i Hi|i r Hi Hr IH].
  - destruct Hi as [c Hc|c body Hc Hb].
    + exists [], c. split; [reflexivity|]. destruct (lay_ws_cases _ Hc) as [-> | [-> | ->]]; reflexivity.
    + exists (c :: SLASH :: SLASH :: body), NL. split; [reflexivity|reflexivity].
  - destruct IH as (r0 & c & -> & Hc). exists (i ++ r0), c. split; [rewrite app_assoc; reflexivity|assumption].
Qed.

Lemma hd_not_slash_snoc y (c : ascii) : hd_not_slash (y ++ [c]) -> hd_not_slash y.
Proof. destruct y; cbn; auto. Qed.

Lemma snoc_cons_cases {A} (c : A) s y cl : c :: s = y ++ [cl] -> (y = [] /\ s = [] /\ c = cl) \/ (exists y1, y = c :: y1 /\ s = y1 ++ [cl]).
Proof.
  destruct y as [|a y1]; cbn; intros H; injection H as -> ->; [left; auto|right; eauto].
Qed.

Lemma relayout_snoc_inv m u u' : relayout m u u' -> forall y y' cl,
  u = y ++ [cl] -> u' = y' ++ [cl] -> is_ws cl = false -> relayout m y y'.
Proof.
  induction 1 as [m | c s s' Hc Hsl Hr IH | q s s' Hq Hr IH | w w' s s' Hw Hw' Hr IH
                  | q c s s' Hcn Hr IH | q s s' Hr IH | q s s' Hr IH | q c s s' Hcq Hcb Hcn Hr IH];
    intros y y' cl Hu Hu' Hws.
  - destruct y; discriminate.
  - destruct (snoc_cons_cases _ _ _ _ Hu) as [(-> & -> & ->)|(y1 & -> & ->)].
    + apply relayout_nil_l in Hr. subst s'. destruct y' as [|a y1']; [apply rl_nil|].
      cbn in Hu'. injection Hu' as _ Hx. destruct y1'; discriminate.
    + destruct (snoc_cons_cases _ _ _ _ Hu') as [(-> & -> & E)|(y1' & -> & ->)].
      * apply relayout_nil_r in Hr. destruct y1; discriminate.
      * apply rl_code; [assumption| |eapply IH; eauto].
        intros E. destruct (Hsl E) as [A B]. split; eapply hd_not_slash_snoc; eassumption.
  - destruct (snoc_cons_cases _ _ _ _ Hu) as [(-> & -> & ->)|(y1 & -> & ->)].
    + apply relayout_nil_l in Hr. subst s'. destruct y' as [|a y1']; [apply rl_nil|].
      cbn in Hu'. injection Hu' as _ Hx. destruct y1'; discriminate.
    + destruct (snoc_cons_cases _ _ _ _ Hu') as [(-> & -> & E)|(y1' & -> & ->)].
      * apply relayout_nil_r in Hr. destruct y1; discriminate.
      * apply rl_open; [assumption|eapply IH; eauto].
  - (* a layout run cannot be the end: the last character is not whitespace *)
    destruct s as [|a s0].
    { exfalso. rewrite app_nil_r in Hu. destruct (lay_run_last_ws _ Hw) as (r & c & -> & Hc).
      apply app_inj_tail in Hu. destruct Hu as [_ ->]. congruence. }
    destruct s' as [|a' s0'].
    { apply relayout_nil_r in Hr. discriminate. }
    destruct (exists_last (l := a :: s0)) as (s1 & c1 & E1); [discriminate|].
    destruct (exists_last (l := a' :: s0')) as (s1' & c1' & E1'); [discriminate|].
    rewrite E1 in Hu, Hr. rewrite E1' in Hu', Hr. rewrite app_assoc in Hu, Hu'.
    apply app_inj_tail in Hu. apply app_inj_tail in Hu'. destruct Hu as [<- ->]. destruct Hu' as [<- ->].
    apply rl_lay; [assumption|assumption|]. eapply IH; eauto.
  - destruct (snoc_cons_cases _ _ _ _ Hu) as [(-> & -> & ->)|(y1 & -> & ->)].
    + apply relayout_nil_l in Hr. subst s'. destruct y' as [|a y1']; [apply rl_nil|].
      cbn in Hu'. injection Hu' as _ Hx. destruct y1'; discriminate.
    + destruct (snoc_cons_cases _ _ _ _ Hu') as [(-> & -> & E)|(y1' & -> & ->)].
      * apply relayout_nil_r in Hr. destruct y1; discriminate.
      * apply rl_str_esc; [assumption|eapply IH; eauto].
  - destruct (snoc_cons_cases _ _ _ _ Hu) as [(-> & -> & <-)|(y1 & -> & ->)].
    + apply relayout_nil_l in Hr. subst s'. destruct y' as [|a y1']; [apply rl_nil|].
      cbn in Hu'. injection Hu' as _ Hx. destruct y1'; discriminate.
    + destruct (snoc_cons_cases _ _ _ _ Hu') as [(-> & -> & E)|(y1' & -> & ->)].
      * apply relayout_nil_r in Hr. destruct y1; discriminate.
      * apply rl_str_bs. eapply IH; eauto.
  - destruct (snoc_cons_cases _ _ _ _ Hu) as [(-> & -> & ->)|(y1 & -> & ->)].
    + apply relayout_nil_l in Hr. subst s'. destruct y' as [|a y1']; [apply rl_nil|].
      cbn in Hu'. injection Hu' as _ Hx. destruct y1'; discriminate.
    + destruct (snoc_cons_cases _ _ _ _ Hu') as [(-> & -> & E)|(y1' & -> & ->)].
      * apply relayout_nil_r in Hr. destruct y1; discriminate.
      * apply rl_str_close. eapply IH; eauto.
  - destruct (snoc_cons_cases _ _ _ _ Hu) as [(-> & -> & ->)|(y1 & -> & ->)].
    + apply relayout_nil_l in Hr. subst s'. destruct y' as [|a y1']; [apply rl_nil|].
      cbn in Hu'. injection Hu' as _ Hx. destruct y1'; discriminate.
    + destruct (snoc_cons_cases _ _ _ _ Hu') as [(-> & -> & E)|(y1' & -> & ->)].
      * apply relayout_nil_r in Hr. destruct y1; discriminate.
      * apply rl_str_char; try assumption. eapply IH; eauto.
Qed.

(* ------------------------------------------------------------------ shape_of, unfolded *)
Section Deep.
Variable cf : bool.

Definition subs (rec : list token -> list shape) (t : token) (es : bool) : option (list (list shape)) :=
  match parse_st [] cf es false (t_line t) (t_col t + 1) (inner (t_str t)) with
  | Ok st =>
      if s_ev st then None
      else match finish [] es false st with
           | Ok sts => Some (map rec sts)
           | Err _ => None
           end
  | Err _ => None
  end.

Definition mk (fuel : nat) (t : token) (conn : bool) : shape :=
  if is_paren_ty (t_ty t) then
    match fuel with
    | O => ShParen (t_ty t) conn None None
    | S f => ShParen (t_ty t) conn (subs (shape_of [] cf f) t false) (subs (shape_of [] cf f) t true)
    end
  else ShTok (t_ty t) (t_str t) conn.

Fixpoint go (fuel : nat) (prev : option token) (l : list token) : list shape :=
  match l with
  | [] => []
  | t :: r => mk fuel t (match prev with Some p => is_connected t p | None => false end) :: go fuel (Some t) r
  end.

Lemma shape_of_go fuel toks : shape_of [] cf fuel toks = go fuel None toks.
Proof.
  destruct fuel as [|f]; cbn.
  - generalize (@None token). induction toks as [|t r IH]; intros prev; [reflexivity|].
    cbn. unfold mk. destruct (is_paren_ty (t_ty t)); f_equal; apply IH.
  - generalize (@None token). induction toks as [|t r IH]; intros prev; [reflexivity|].
    cbn. unfold mk, subs. destruct (is_paren_ty (t_ty t)); f_equal; apply IH.
Qed.

Lemma inner_paren (o : ascii) (y : str) (cl : ascii) : inner (o :: y ++ [cl]) = y.
Proof. unfold inner. cbn. apply removelast_last. Qed.

Lemma code_char_not_ws' c : code_char c = true -> is_ws c = false.
Proof. apply code_char_not_ws. Qed.

(* one bracket: its re-tokenised content has the same shape on both sides *)
Lemma subs_sim (rec : list token -> list shape) t t' es :
  (forall toks toks', Forall2 tok_sim toks toks' -> chain toks -> chain toks' -> rec toks = rec toks') ->
  tok_sim t t' -> is_paren_ty (t_ty t) = true ->
  subs rec t es = subs rec t' es.
Proof.
  intros Hrec (Hty & _ & _ & Hs) Hp. rewrite Hp in Hs.
  destruct Hs as (o & y & y' & cl & Ho & Hcl & E & E' & R).
  pose proof (relayout_snoc_inv _ _ _ R y y' cl eq_refl eq_refl (code_char_not_ws _ Hcl)) as Ry.
  unfold subs. rewrite E, E', !inner_paren.
  destruct (parse_st [] cf es false (t_line t) (t_col t + 1) y) as [st|e] eqn:P.
  - destruct (s_ev st) eqn:Ev.
    + (* out of scope on the left: the right cannot be in scope *)
      destruct (parse_st [] cf es false (t_line t') (t_col t' + 1) y') as [st'|e'] eqn:P'; [|reflexivity].
      destruct (s_ev st') eqn:Ev'; [reflexivity|].
      destruct (finish [] es false st') as [sts'|] eqn:F'; [|reflexivity]. exfalso.
      destruct (relayout_tokens cf es false false _ _ (t_line t) (t_col t + 1) y' y st' sts' (relayout_sym _ _ _ Ry) P' Ev' F')
        as (f & sts & Pf & Evf & _). rewrite P in Pf. injection Pf as <-. congruence.
    + destruct (finish [] es false st) as [sts|] eqn:F.
      * destruct (relayout_tokens cf es false false _ _ (t_line t') (t_col t' + 1) y y' st sts Ry P Ev F)
          as (st' & sts' & P' & Ev' & F' & FF).
        rewrite P', Ev', F'. f_equal.
        pose proof (parse_chain [] cf es false false _ _ y st sts mt_ok_nil P Ev F) as C.
        pose proof (parse_chain [] cf es false false _ _ y' st' sts' mt_ok_nil P' Ev' F') as C'.
        clear - FF C C' Hrec. induction FF as [|a a' r r' Ha Hr IH]; [reflexivity|].
        inversion C; inversion C'; subst. cbn. f_equal; [apply Hrec; assumption|apply IH; assumption].
      * destruct (parse_st [] cf es false (t_line t') (t_col t' + 1) y') as [st'|e'] eqn:P'; [|reflexivity].
        destruct (s_ev st') eqn:Ev'; [reflexivity|].
        destruct (finish [] es false st') as [sts'|] eqn:F'; [|reflexivity]. exfalso.
        destruct (relayout_tokens cf es false false _ _ (t_line t) (t_col t + 1) y' y st' sts' (relayout_sym _ _ _ Ry) P' Ev' F')
          as (f & sts & Pf & Evf & Ff & _). rewrite P in Pf. injection Pf as <-. congruence.
  - destruct (parse_st [] cf es false (t_line t') (t_col t' + 1) y') as [st'|e'] eqn:P'; [|reflexivity].
    destruct (s_ev st') eqn:Ev'; [reflexivity|].
    destruct (finish [] es false st') as [sts'|] eqn:F'; [|reflexivity]. exfalso.
    destruct (relayout_tokens cf es false false _ _ (t_line t) (t_col t + 1) y' y st' sts' (relayout_sym _ _ _ Ry) P' Ev' F')
      as (f & sts & Pf & _). rewrite P in Pf. discriminate.
Qed.

Lemma mk_sim fuel t t' conn :
  (forall f, (f < fuel)%nat -> forall toks toks', Forall2 tok_sim toks toks' -> chain toks -> chain toks' ->
                               shape_of [] cf f toks = shape_of [] cf f toks') ->
  tok_sim t t' -> mk fuel t conn = mk fuel t' conn.
Proof.
  intros IH Ht. pose proof Ht as (Hty & _ & _ & Hs). unfold mk. rewrite <- Hty.
  destruct (is_paren_ty (t_ty t)) eqn:Hp.
  - destruct fuel as [|f]; [reflexivity|].
    rewrite (subs_sim (shape_of [] cf f) t t' false (IH f (Nat.lt_succ_diag_r f)) Ht Hp).
    rewrite (subs_sim (shape_of [] cf f) t t' true (IH f (Nat.lt_succ_diag_r f)) Ht Hp). reflexivity.
  - rewrite Hs. reflexivity.
Qed.

Lemma go_sim fuel :
  (forall t t' conn, tok_sim t t' -> mk fuel t conn = mk fuel t' conn) ->
  forall l l', Forall2 tok_sim l l' ->
  forall prev prev',
    match prev, prev' with
    | None, None => chain l /\ chain l'
    | Some p, Some p' => chain (p :: l) /\ chain (p' :: l')
    | _, _ => False
    end ->
    go fuel prev l = go fuel prev' l'.
Proof.
  intros Hmk l l' F. induction F as [|t t' r r' Ht Hr IH]; intros prev prev' Hc; [reflexivity|].
  cbn [go].
  assert (Econn : match prev with Some p => is_connected t p | None => false end =
                  match prev' with Some p => is_connected t' p | None => false end).
  { destruct prev as [p|], prev' as [p'|]; try contradiction; [|reflexivity].
    destruct Hc as [C C']. inversion C as [| |? ? ? A _]; inversion C' as [| |? ? ? A' _]; subst.
    unfold adj_ok in *. rewrite A, A'. apply Ht. }
  rewrite Econn. f_equal; [apply Hmk; assumption|].
  apply IH. destruct prev as [p|], prev' as [p'|]; try contradiction.
  - destruct Hc as [C C']. inversion C; inversion C'; subst. split; assumption.
  - exact Hc.
Qed.

Theorem shape_sim : forall fuel toks toks',
  Forall2 tok_sim toks toks' -> chain toks -> chain toks' ->
  shape_of [] cf fuel toks = shape_of [] cf fuel toks'.
Proof.
  induction fuel as [fuel IH] using lt_wf_ind. intros toks toks' F C C'.
  rewrite !shape_of_go. apply go_sim; [|assumption|split; assumption].
  intros t t' conn Ht. apply mk_sim; [|assumption]. intros f Hf. apply IH. assumption.
Qed.

(* the relayout theorem, at every depth *)
Theorem relayout_deep fuel es al asc line col line' col' s s' f sts :
  relayout MCode s s' ->
  parse_st [] cf es asc line col s = Ok f -> s_ev f = false -> finish [] es al f = Ok sts ->
  exists f' sts',
    parse_st [] cf es asc line' col' s' = Ok f' /\ s_ev f' = false /\ finish [] es al f' = Ok sts' /\
    map (shape_of [] cf fuel) sts = map (shape_of [] cf fuel) sts'.
Proof.
  intros R P Ev F.
  destruct (relayout_tokens cf es al asc line col line' col' s s' f sts R P Ev F) as (f' & sts' & P' & Ev' & F' & FF).
  exists f', sts'. repeat split; try assumption.
  pose proof (parse_chain [] cf es al asc _ _ s f sts mt_ok_nil P Ev F) as C.
  pose proof (parse_chain [] cf es al asc _ _ s' f' sts' mt_ok_nil P' Ev' F') as C'.
  clear - FF C C'. induction FF as [|a a' r r' Ha Hr IH]; [reflexivity|].
  inversion C; inversion C'; subst. cbn. f_equal; [apply shape_sim; assumption|apply IH; assumption].
Qed.
End Deep.
