(* C09 round 5: string literals and the macro table of the header.
   Tokenizer.append_token (Model/Layout.v, the model tied to the real tokenizer by C14/C16) looks a token up in
   header.macros only when its type is KEYWORD.  Here: for EVERY macro table, every tokenizer state and every token type
   other than KEYWORD (STRING, the three bracket types whose text is re-tokenised later, ...) the token pushed is the
   pending text, unchanged - so the literal-to-output function of Model/Lit.v composed with that step does not depend on
   the table. *)
From Coq Require Import ZArith Bool List String.
From JMCV Require Model.Layout Model.Macro Proofs.MacroFacts Model.Lit.
Import ListNotations.

Module L := JMCV.Model.Layout.

Lemma non_keyword_token_plain :
  forall mt ty st, ty <> L.KEYWORD ->
    L.append_token mt ty st =
    L.Ok (L.push_tokens st [L.mkTok ty (fst (L.s_tpos st)) (snd (L.s_tpos st)) (rev (L.s_tstr st)) 0 None (L.s_pglued st)]).
Proof. intros. apply JMCV.Proofs.MacroFacts.append_token_left_alone. left. assumption. Qed.

Theorem non_keyword_token_ignores_macros :
  forall mt mt' ty st, ty <> L.KEYWORD -> L.append_token mt ty st = L.append_token mt' ty st.
Proof. intros. rewrite !non_keyword_token_plain by assumption. reflexivity. Qed.

Theorem string_token_text :
  forall mt st, exists st',
    L.append_token mt L.STRING st = L.Ok st' /\
    exists t, L.s_kws st' = t :: L.s_kws st /\ L.t_ty t = L.STRING /\ L.t_str t = rev (L.s_tstr st).
Proof.
  intros. eexists. split. { apply non_keyword_token_plain. discriminate. }
  eexists. split; [reflexivity|]. split; reflexivity.
Qed.

(* the literal-to-output function with the header's macro table as a parameter: the string token goes through
   append_token (any state [st] whose pending text is the literal's source), then through compile_lit *)
Definition compile_lit_hdr (mt : L.mtable) (st : L.tstate) nm pr q raw k cs : Lit.res Lit.str :=
  match L.append_token mt L.STRING st with
  | L.Ok _ => Lit.compile_lit nm pr q raw k cs
  | L.Err _ => Lit.Diag
  end.

Theorem compile_lit_macro_independent :
  forall mt st nm pr q raw k cs, compile_lit_hdr mt st nm pr q raw k cs = Lit.compile_lit nm pr q raw k cs.
Proof.
  intros. unfold compile_lit_hdr. rewrite non_keyword_token_plain by discriminate. reflexivity.
Qed.

(* the guard matters: with a table that defines the text, a KEYWORD token of the same text IS replaced *)
Example keyword_token_is_replaced :
  exists mt st, L.append_token mt L.KEYWORD st <> L.append_token [] L.KEYWORD st /\
                L.append_token mt L.STRING st = L.append_token [] L.STRING st.
Proof.
  exists [L.mkMacro (L.s2l "N"%string) 0 [L.mkTT L.KEYWORD 11 (L.s2l "100"%string)]].
  exists (L.set_tstr (L.init_state 1 1 false) (rev (L.s2l "N"%string))).
  split; [vm_compute; discriminate | apply non_keyword_token_ignores_macros; discriminate].
Qed.
