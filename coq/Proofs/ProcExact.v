(* Proofs.ProcExact — strengthening round 4 of property C12.

   1. ambient fields (working directory, environment, sys.path, ...): no compile assigns them; if every compile of the history
      PRESERVES them, a step list that is history-free from the ambient set gives the output of the initial state (ambient_sound);
   2. the analysis says exactly "no phase reads a field before the same compile has reset it" (analyse_iff_resets_before_reads,
      for the simple step lists of the current source);
   3. the analysis is exact: a step list it rejects has a compiler (world) and two process states with different outputs
      (stale_read_leaks) — a read of a stale value is a leak for some compiler of the modelled class. *)
From Coq Require Import String List Bool.
From JMCV Require Import Model.Proc Proofs.Proc.
Import ListNotations.

Lemma field_eqb_sym a b : field_eqb a b = field_eqb b a.
Proof.
  destruct (field_eqb a b) eqn:E; symmetry.
  - apply field_eqb_eq in E. subst. apply field_eqb_refl.
  - destruct (field_eqb b a) eqn:E'; [|reflexivity]. apply field_eqb_eq in E'. subst. now rewrite field_eqb_refl in E.
Qed.

Lemma mem_remove_eq x f D : mem x (remove_field f D) = negb (field_eqb f x) && mem x D.
Proof.
  unfold mem, remove_field. induction D as [|y D IH]; cbn; [now rewrite andb_false_r|].
  destruct (field_eqb f y) eqn:Efy; cbn.
  - rewrite IH. apply field_eqb_eq in Efy. subst y.
    destruct (field_eqb x f) eqn:Exf; cbn; [|reflexivity].
    rewrite field_eqb_sym, Exf. reflexivity.
  - rewrite IH. destruct (field_eqb x y) eqn:Exy; cbn; [|reflexivity].
    apply field_eqb_eq in Exy. subst y. rewrite Efy. reflexivity.
Qed.

(* ------------------------------------------------------------------ 1. ambient fields *)
Section Ambient.
  Variables V I O : Type.
  Variable U : list field.
  Variable W : world V I O.

  Lemma preserved_agree A h : forall g0,
    preserves_along U W A h g0 -> agree V A (run_history U W h g0) g0.
  Proof.
    induction h as [|[st i] r IH]; intros g0 H; cbn in *.
    - intros f _. reflexivity.
    - destruct H as [H1 H2]. intros f Hf. rewrite (IH _ H2 f Hf). now apply H1.
  Qed.

  Lemma ambient_sound A steps :
    history_free_from A U steps = true ->
    forall (h : list (list step * I)) (g0 : G V) (i : I),
      preserves_along U W A h g0 ->
      output U W steps i (run_history U W h g0) = output U W steps i g0.
  Proof.
    unfold history_free_from, output. destruct (analyse U steps A) as [D'|] eqn:Han; [|discriminate].
    intros _ h g0 i Hp. eapply analyse_sound; [exact Han|]. now apply preserved_agree.
  Qed.

  (* two states that agree on the ambient fields give the same output *)
  Lemma ambient_any_state A steps i g g' :
    history_free_from A U steps = true -> agree V A g g' ->
    output U W steps i g = output U W steps i g'.
  Proof.
    unfold history_free_from, output. destruct (analyse U steps A) as [D'|] eqn:Han; [|discriminate].
    intros _ Hag. eapply analyse_sound; eauto.
  Qed.
End Ambient.

(* ------------------------------------------------------------------ 2. the analysis = "every read is preceded by its reset" *)

Lemma app_run_cons_inv st r pre n rs post :
  st :: r = pre ++ Run n rs :: post ->
  (pre = [] /\ st = Run n rs /\ r = post) \/ (exists pre', pre = st :: pre' /\ r = pre' ++ Run n rs :: post).
Proof.
  destruct pre as [|x pre']; cbn; intros H; inversion H; subst.
  - left. repeat split.
  - right. exists pre'. split; reflexivity.
Qed.

Lemma analyse_iff_reads U steps : simple steps = true -> forall D,
  (exists D', analyse U steps D = Some D') <->
  (forall pre n rs post, steps = pre ++ Run n rs :: post ->
     forall f, In f U -> visible rs f = true -> mem f D = true \/ exists s, In (Assign f s) pre).
Proof.
  induction steps as [|st r IH]; intros Hs D.
  - split; [|intros _; cbn; eauto]. intros _ pre n rs post H. destruct pre; discriminate H.
  - cbn in Hs. apply andb_true_iff in Hs as [Hst Hr]. specialize (IH Hr).
    destruct st as [f s|c f s|gn|n0 rs0]; cbn [analyse].
    + (* Assign from a constant or from the input *)
      assert (Hd : src_determined D s = true) by (destruct s; [reflexivity|reflexivity|discriminate Hst]).
      rewrite Hd. rewrite (IH (f :: D)). split.
      * intros H pre n rs post E x Hx Hv.
        apply app_run_cons_inv in E as [[_ [E _]]|[pre' [-> E]]]; [discriminate E|].
        destruct (H pre' n rs post E x Hx Hv) as [Hm|[s' Hin]].
        -- rewrite mem_cons in Hm. apply orb_true_iff in Hm as [Hm|Hm]; [|now left].
           apply field_eqb_eq in Hm. subst x. right. exists s. now left.
        -- right. exists s'. now right.
      * intros H pre' n rs post E x Hx Hv.
        destruct (H (Assign f s :: pre') n rs post (f_equal (cons _) E) x Hx Hv) as [Hm|[s' [Hin|Hin]]].
        -- left. rewrite mem_cons, Hm. apply orb_true_r.
        -- inversion Hin; subst. left. rewrite mem_cons, field_eqb_refl. reflexivity.
        -- right. eauto.
    + discriminate Hst.
    + (* Guard *)
      rewrite (IH D). split.
      * intros H pre n rs post E x Hx Hv.
        apply app_run_cons_inv in E as [[_ [E _]]|[pre' [-> E]]]; [discriminate E|].
        destruct (H pre' n rs post E x Hx Hv) as [Hm|[s' Hin]]; [now left|right; exists s'; now right].
      * intros H pre' n rs post E x Hx Hv.
        destruct (H (Guard gn :: pre') n rs post (f_equal (cons _) E) x Hx Hv) as [Hm|[s' [Hin|Hin]]];
          [now left|discriminate Hin|right; eauto].
    + (* Run *)
      destruct (forallb (fun f => implb (visible rs0 f) (mem f D)) U) eqn:Hall.
      * rewrite (IH D). rewrite forallb_forall in Hall. split.
        -- intros H pre n rs post E x Hx Hv.
           apply app_run_cons_inv in E as [[-> [E _]]|[pre' [-> E]]].
           ++ inversion E; subst. left. specialize (Hall x Hx). now rewrite Hv in Hall.
           ++ destruct (H pre' n rs post E x Hx Hv) as [Hm|[s' Hin]]; [now left|right; exists s'; now right].
        -- intros H pre' n rs post E x Hx Hv.
           destruct (H (Run n0 rs0 :: pre') n rs post (f_equal (cons _) E) x Hx Hv) as [Hm|[s' [Hin|Hin]]];
             [now left|discriminate Hin|right; eauto].
      * split; [intros [D' H]; discriminate H|]. intros H. exfalso.
        assert (Hall' : forallb (fun f => implb (visible rs0 f) (mem f D)) U = true).
        { apply forallb_forall. intros x Hx. destruct (visible rs0 x) eqn:Hv; [|reflexivity]. cbn.
          destruct (H [] n0 rs0 r eq_refl x Hx Hv) as [Hm|[s' []]]. exact Hm. }
        congruence.
Qed.

Lemma history_free_iff_resets_before_reads A U steps :
  simple steps = true -> (history_free_from A U steps = true <-> resets_before_reads A U steps).
Proof.
  intros Hs. unfold history_free_from, resets_before_reads. rewrite <- (analyse_iff_reads U steps Hs A).
  destruct (analyse U steps A) as [D'|]; split; intros H; eauto; try discriminate H. destruct H as [D' H]. discriminate H.
Qed.

(* ------------------------------------------------------------------ 3. exactness: a rejected step list leaks for some compiler *)

(* the witness compiler: values are booleans ("tainted by the previous state"); constants and inputs are clean, a mixed assignment
   passes the taint on, every phase hands its fields back unchanged and ends the compile as soon as it SEES a tainted field *)
Definition taint_world : world bool unit bool :=
  mkWorld (fun _ => false) (fun _ _ => false) (fun _ _ prev => prev) (fun _ _ => true) (fun _ _ => None)
          (fun _ _ view => (view, if existsb (fun b => b) view then Some true else None)).

Section Exact.
  Variable U : list field.
  Notation W := taint_world.

  Lemma write_back_same fs : forall (g0 g : G bool), (forall x, g x = g0 x) -> forall x, write_back bool fs (map g0 fs) g x = g0 x.
  Proof.
    induction fs as [|f fr IH]; intros g0 g H x; cbn; [apply H|].
    apply IH. intros y. unfold upd. destruct (field_eqb f y) eqn:E; [|apply H]. apply field_eqb_eq in E. now subst.
  Qed.

  Lemma clean_run steps : forall g, (forall x, g x = false) -> snd (exec U W steps tt g) = None.
  Proof.
    induction steps as [|st r IH]; intros g Hg; [reflexivity|].
    destruct st as [f s|c f s|n|n rs]; cbn [exec].
    - apply IH. intros x. unfold upd. destruct (field_eqb f x); [|apply Hg]. destruct s; cbn; try reflexivity. apply Hg.
    - cbn. apply IH. intros x. unfold upd. destruct (field_eqb f x); [|apply Hg]. destruct s; cbn; try reflexivity. apply Hg.
    - cbn. now apply IH.
    - cbn [w_run taint_world].
      assert (Hv : existsb (fun b : bool => b) (view bool U rs g) = false).
      { unfold view. induction (filter (visible rs) U) as [|y l IHl]; [reflexivity|]. cbn. now rewrite Hg, IHl. }
      rewrite Hv. apply IH. intros x. unfold view. rewrite (write_back_same _ g g (fun _ => eq_refl)). apply Hg.
  Qed.

  Lemma tainted_run steps : no_assign_when steps = true -> forall D g,
    (forall x, g x = negb (mem x D)) -> analyse U steps D = None -> snd (exec U W steps tt g) = Some true.
  Proof.
    induction steps as [|st r IH]; intros Hn D g Hg Han; [discriminate Han|].
    cbn in Hn. apply andb_true_iff in Hn as [Hst Hr]. specialize (IH Hr).
    destruct st as [f s|c f s|n|n rs]; cbn [analyse exec] in *.
    - destruct (src_determined D s) eqn:Hd.
      + apply (IH (f :: D)); [|exact Han]. intros x. unfold upd. rewrite mem_cons, (field_eqb_sym x f).
        destruct (field_eqb f x); [|apply Hg]. cbn. destruct s as [| |h]; cbn; try reflexivity.
        cbn in Hd. now rewrite Hg, Hd.
      + apply (IH (remove_field f D)); [|exact Han]. intros x. unfold upd. rewrite mem_remove_eq.
        destruct (field_eqb f x); cbn; [|apply Hg]. destruct s as [| |h]; try discriminate Hd.
        cbn in *. now rewrite Hg, Hd.
    - discriminate Hst.
    - cbn. now apply (IH D).
    - cbn [w_run taint_world].
      destruct (forallb (fun f => implb (visible rs f) (mem f D)) U) eqn:Hall.
      + assert (Hv : existsb (fun b : bool => b) (view bool U rs g) = false).
        { unfold view. rewrite forallb_forall in Hall.
          assert (Hin : forall y, In y (filter (visible rs) U) -> g y = false).
          { intros y Hy. apply filter_In in Hy as [HyU Hvis]. specialize (Hall y HyU). rewrite Hvis in Hall. cbn in Hall.
            now rewrite Hg, Hall. }
          induction (filter (visible rs) U) as [|y l IHl]; [reflexivity|]. cbn.
          rewrite (Hin y (or_introl eq_refl)). cbn. apply IHl. intros z Hz. apply Hin. now right. }
        rewrite Hv. apply (IH D); [|exact Han]. intros x. unfold view.
        rewrite (write_back_same _ g g (fun _ => eq_refl)). apply Hg.
      + assert (Hv : existsb (fun b : bool => b) (view bool U rs g) = true).
        { assert (Hex : exists y, In y U /\ visible rs y = true /\ mem y D = false).
          { clear - Hall. induction U as [|y l IHl]; [discriminate Hall|]. cbn in Hall.
            apply andb_false_iff in Hall as [H|H].
            - exists y. destruct (visible rs y), (mem y D); try discriminate H. repeat split. now left.
            - destruct (IHl H) as [z [Hz Hrest]]. exists z. split; [now right|exact Hrest]. }
          destruct Hex as [y [HyU [Hvis Hm]]]. unfold view. apply existsb_exists. exists (g y). split.
          - apply in_map. apply filter_In. now split.
          - now rewrite Hg, Hm. }
        now rewrite Hv.
  Qed.

  Lemma stale_read_leaks A steps :
    no_assign_when steps = true -> history_free_from A U steps = false ->
    exists (g g' : G bool),
      agree bool A g g' /\ output U W steps tt g <> output U W steps tt g'.
  Proof.
    unfold history_free_from. intros Hn Hf. destruct (analyse U steps A) eqn:Han; [discriminate Hf|].
    exists (fun x => negb (mem x A)), (fun _ => false). split.
    - intros f Hf'. now rewrite Hf'.
    - unfold output. rewrite (tainted_run steps Hn A _ (fun _ => eq_refl) Han), (clean_run steps _ (fun _ => eq_refl)). discriminate.
  Qed.
End Exact.
