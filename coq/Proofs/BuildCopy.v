(* Proofs.BuildCopy — the function tags (load.json / tick.json) after a successful build are the MERGE of the tag file the
   build finds — the one `#copy` ships, else (old output deleted, no #static shield) nothing, else the file in the tree —
   with this pack's own entry: compiling.py merged_func_tag + the tag writes, [Build.early_tag] + [Build.tag_ops].
   Consequence (C11): the foreign entries of a tag file shipped by `#copy` (`lib:init`) are in the output of EVERY build,
   the first one into a fresh directory ([is_delete] false) and every rebuild ([is_delete] true) alike. *)
From Coq Require Import String List Bool Arith Lia.
From JMCV Require Import Model.FS Model.Build Proofs.FS Proofs.Build Proofs.BuildC10 Proofs.BuildC11 Proofs.BuildGate Proofs.BuildTick.
Import ListNotations.
Open Scope string_scope.
Open Scope list_scope.

Definition own_load (c : cfg) : string := c_ns c ++ ":" ++ c_load c.
Definition own_tick (c : cfg) : string := c_ns c ++ ":" ++ c_tick c.
Definition foreign (c : cfg) (vs : list string) : list string := filter (fun e => negb (own_entry c e)) vs.

Lemma fsem_create_write : forall p ct rest i, fsem p (Create p :: Write p ct :: rest) i = fsem p rest (Some ct).
Proof. intros. unfold fsem. cbn [fold_left]. unfold fstep at 2 3. cbn [op_path]. rewrite !path_eqb_refl. reflexivity. Qed.

Lemma meta_ops_untouched : forall h o p x, p <> meta_path -> In x (meta_ops h o) -> op_path x <> p.
Proof.
  intros h o p x Hp Hx. unfold meta_ops in Hx. destruct (h_nometa h); [contradiction|].
  destruct Hx as [<-|[<-|[]]]; simpl; auto.
Qed.

Lemma load_not_meta : forall c, load_path c <> meta_path.
Proof. intros c. unfold load_path, tags_dir, meta_path. discriminate. Qed.
Lemma tick_not_meta : forall c, tick_path c <> meta_path.
Proof. intros c. unfold tick_path, tags_dir, meta_path. discriminate. Qed.

Lemma tick_refresh_ops_path : forall c tv cur x, In x (tick_refresh_ops c tv cur) -> op_path x = tick_path c.
Proof.
  intros c tv cur x H. unfold tick_refresh_ops in H. destruct (file_at cur (tick_path c)) as [[b|vs]|]; try contradiction.
  destruct (strs_eqb vs tv); [contradiction|]. destruct H as [<-|[<-|[]]]; reflexivity.
Qed.

(* the write phase with the tag values handed over *)
Lemma write_phase_load : forall v c h o lv tv m w s',
  (forall q, In q (map fst (out_files c h o)) -> q <> load_path c) ->
  write_phase v c h o (Some (lv, tv)) m = (w, RDone) -> exec w m = Some s' ->
  file_at s' (load_path c) = Some (Tag (lv ++ [own_load c])).
Proof.
  intros v c h o lv tv m w s' Hout W E.
  rewrite write_phase_unfold in W. cbv zeta in W. cbn [tags_at] in W. inversion W; subst w. clear W.
  rewrite (file_at_exec _ _ _ (load_path c) E). rewrite fsem_app. unfold post_ops. cbv zeta.
  unfold tag_ops at 1. rewrite <- !app_assoc. cbn [app]. rewrite fsem_create_write. rewrite !fsem_app.
  rewrite (fsem_untouched (load_path c) (meta_ops h o)).
  2:{ intros x Hx _. eapply meta_ops_untouched; eauto. apply load_not_meta. }
  rewrite (fsem_untouched (load_path c) (write_files _ _)).
  2:{ intros x Hx Hf. eapply write_files_untouched; eauto. }
  rewrite fsem_untouched; [reflexivity|].
  intros x Hx _. intro Heq. destruct (o_tick o).
  - destruct Hx as [<-|[<-|[]]]; simpl in Heq; symmetry in Heq; revert Heq; apply load_tick_neq.
  - destruct (v_tick_refresh v); [|contradiction]. apply tick_refresh_ops_path in Hx. rewrite Hx in Heq.
    symmetry in Heq. revert Heq. apply load_tick_neq.
Qed.

Lemma write_phase_tick_on : forall v c h o lv tv m w s',
  o_tick o = true ->
  (forall q, In q (map fst (out_files c h o)) -> q <> tick_path c) ->
  write_phase v c h o (Some (lv, tv)) m = (w, RDone) -> exec w m = Some s' ->
  file_at s' (tick_path c) = Some (Tag (tv ++ [own_tick c])).
Proof.
  intros v c h o lv tv m w s' Ht Hout W E.
  rewrite write_phase_unfold in W. cbv zeta in W. cbn [tags_at] in W. inversion W; subst w. clear W.
  rewrite (file_at_exec _ _ _ (tick_path c) E). rewrite fsem_app. unfold post_ops. cbv zeta.
  unfold tag_ops at 1. rewrite Ht. rewrite !fsem_app.
  rewrite (fsem_untouched (tick_path c) [Create (load_path c); Write (load_path c) _]).
  2:{ intros x Hx _. destruct Hx as [<-|[<-|[]]]; simpl; apply load_tick_neq. }
  rewrite fsem_create_write.
  rewrite (fsem_untouched (tick_path c) (meta_ops h o)).
  2:{ intros x Hx _. eapply meta_ops_untouched; eauto. apply tick_not_meta. }
  rewrite (fsem_untouched (tick_path c) (write_files _ _)).
  2:{ intros x Hx Hf. eapply write_files_untouched; eauto. }
  reflexivity.
Qed.

(* build(): what merged_func_tag returned is what the tag files hold afterwards, plus the own entry *)
Lemma build_tags_merged : forall v c h o isd cur pl s',
  v_tags_early v = true ->
  build v c h o isd None cur = (pl, RDone) -> exec pl cur = Some s' ->
  exists lv tv, early_tag c h isd cur (load_path c) = Some lv /\ early_tag c h isd cur (tick_path c) = Some tv /\
    ((forall q, In q (map fst (out_files c h o)) -> q <> load_path c) ->
     file_at s' (load_path c) = Some (Tag (lv ++ [own_load c]))) /\
    (o_tick o = true -> (forall q, In q (map fst (out_files c h o)) -> q <> tick_path c) ->
     file_at s' (tick_path c) = Some (Tag (tv ++ [own_tick c]))).
Proof.
  intros v c h o isd cur pl s' Hte B E. unfold build in B. rewrite Hte in B.
  destruct (early_tag c h isd cur (load_path c)) as [lv|] eqn:El; [|discriminate].
  destruct (early_tag c h isd cur (tick_path c)) as [tv|] eqn:Et; [|discriminate].
  exists lv, tv. split; auto. split; auto.
  unfold build_with in B.
  set (dops := if isd then del_phase h cur (del_list v c h) else []) in *.
  destruct (write_phase v c h o (Some (lv, tv)) (run_ops dops cur)) as [w r] eqn:W. inversion B; subst pl r.
  apply exec_app_inv in E as (m & D & E). rewrite (run_ops_exec _ _ _ D) in W. split.
  - intros Hout. eapply write_phase_load; eauto.
  - intros Ht Hout. eapply write_phase_tick_on; eauto.
Qed.

(* compile_jmc: [is_delete] is "the namespace folder exists" *)
Theorem tags_merged : forall v c h o s pl s',
  v_tags_early v = true -> v_cert_early v = false ->
  run v c h (Success o) None s = (pl, RDone) -> exec pl s = Some s' ->
  exists lv tv,
    early_tag c h (is_dir s (ns_dir c)) s (load_path c) = Some lv /\
    early_tag c h (is_dir s (ns_dir c)) s (tick_path c) = Some tv /\
    ((forall q, In q (map fst (out_files c h o)) -> q <> load_path c) ->
     file_at s' (load_path c) = Some (Tag (lv ++ [own_load c]))) /\
    (o_tick o = true -> (forall q, In q (map fst (out_files c h o)) -> q <> tick_path c) ->
     file_at s' (tick_path c) = Some (Tag (tv ++ [own_tick c]))).
Proof.
  intros v c h o s pl s' Hte Hce R E. apply run_done_core in R as [R _]. unfold run_core in R.
  destruct (is_dir s (ns_dir c)).
  - destruct (is_file s (cert_path c)); [|discriminate]. eapply build_tags_merged; eauto.
  - rewrite Hce in R. cbn [run_ops app] in R.
    destruct (build v c h o false None s) as [ops r] eqn:B. inversion R; subst pl r.
    eapply build_tags_merged; eauto.
Qed.

Lemma early_tag_copied : forall c h isd cur p vs,
  copy_file h p = Some (Tag vs) -> early_tag c h isd cur p = Some (foreign c vs).
Proof. intros c h isd cur p vs H. unfold early_tag. rewrite H. reflexivity. Qed.

(* The tag file `#copy` ships: after EVERY successful build - into a fresh directory or over an earlier output, whatever else
   the tree holds, with any #static / #override - load.json holds its foreign entries followed by this pack's load function. *)
Theorem copied_load_tag_merged : forall v c h o s pl s' vs,
  v_tags_early v = true -> v_cert_early v = false ->
  copy_file h (load_path c) = Some (Tag vs) ->
  (forall q, In q (map fst (out_files c h o)) -> q <> load_path c) ->
  run v c h (Success o) None s = (pl, RDone) -> exec pl s = Some s' ->
  file_at s' (load_path c) = Some (Tag (foreign c vs ++ [own_load c])).
Proof.
  intros v c h o s pl s' vs Hte Hce Hc Hout R E.
  destruct (tags_merged v c h o s pl s' Hte Hce R E) as (lv & tv & El & _ & Hl & _).
  rewrite (early_tag_copied _ _ _ _ _ _ Hc) in El. inversion El; subst lv. auto.
Qed.

Theorem copied_tick_tag_merged : forall v c h o s pl s' vs,
  v_tags_early v = true -> v_cert_early v = false -> o_tick o = true ->
  copy_file h (tick_path c) = Some (Tag vs) ->
  (forall q, In q (map fst (out_files c h o)) -> q <> tick_path c) ->
  run v c h (Success o) None s = (pl, RDone) -> exec pl s = Some s' ->
  file_at s' (tick_path c) = Some (Tag (foreign c vs ++ [own_tick c])).
Proof.
  intros v c h o s pl s' vs Hte Hce Ht Hc Hout R E.
  destruct (tags_merged v c h o s pl s' Hte Hce R E) as (lv & tv & _ & Et & _ & Hk).
  rewrite (early_tag_copied _ _ _ _ _ _ Hc) in Et. inversion Et; subst tv. auto.
Qed.

(* rebuild = first build, at the tag files `#copy` ships: ANY two trees (no hypothesis on them at all) *)
Corollary copied_tags_same_from_any_tree : forall v c h o s1 s2 pl1 pl2 s1' s2' vs,
  v_tags_early v = true -> v_cert_early v = false ->
  copy_file h (load_path c) = Some (Tag vs) ->
  (forall q, In q (map fst (out_files c h o)) -> q <> load_path c) ->
  run v c h (Success o) None s1 = (pl1, RDone) -> exec pl1 s1 = Some s1' ->
  run v c h (Success o) None s2 = (pl2, RDone) -> exec pl2 s2 = Some s2' ->
  file_at s1' (load_path c) = file_at s2' (load_path c).
Proof.
  intros. erewrite (copied_load_tag_merged v c h o s1), (copied_load_tag_merged v c h o s2); eauto.
Qed.

(* a tag file shielded by a #static folder (and not replaced by #copy): its foreign entries survive every rebuild *)
Theorem shielded_load_tag_merged : forall v c h o s pl s' vs,
  v_tags_early v = true -> v_cert_early v = false ->
  copy_file h (load_path c) = None -> excepted h (load_path c) = true ->
  file_at s (load_path c) = Some (Tag vs) ->
  (forall q, In q (map fst (out_files c h o)) -> q <> load_path c) ->
  run v c h (Success o) None s = (pl, RDone) -> exec pl s = Some s' ->
  file_at s' (load_path c) = Some (Tag (foreign c vs ++ [own_load c])).
Proof.
  intros v c h o s pl s' vs Hte Hce Hc Hx Hf Hout R E.
  destruct (tags_merged v c h o s pl s' Hte Hce R E) as (lv & tv & El & _ & Hl & _).
  unfold early_tag in El. rewrite Hc, Hx, andb_false_r in El. unfold read_tag in El.
  unfold file_at in Hf. destruct (lookup s (load_path c)) as [[ct|cs]|]; try discriminate.
  inversion Hf; subst ct. inversion El; subst lv. auto.
Qed.

(* an old output that is deleted and not shielded contributes nothing: the tag is the fresh one *)
Theorem unshielded_load_tag_fresh : forall v c h o s pl s',
  v_tags_early v = true -> v_cert_early v = false ->
  copy_file h (load_path c) = None -> excepted h (load_path c) = false -> is_dir s (ns_dir c) = true ->
  (forall q, In q (map fst (out_files c h o)) -> q <> load_path c) ->
  run v c h (Success o) None s = (pl, RDone) -> exec pl s = Some s' ->
  file_at s' (load_path c) = Some (Tag [own_load c]).
Proof.
  intros v c h o s pl s' Hte Hce Hc Hx Hd Hout R E.
  destruct (tags_merged v c h o s pl s' Hte Hce R E) as (lv & tv & El & _ & Hl & _).
  unfold early_tag in El. rewrite Hc, Hx, Hd in El. inversion El; subst lv. auto.
Qed.

(* ------------------------------------------------------------------ witness: #copy ships load.json with lib:init *)
Definition q_cfg : cfg := mkCfg "ns" "function" "LOAD=__load__" "__load__" "__tick__".
Definition q_copy : list (string * tree) :=
  [("data", TDir [("minecraft", TDir [("tags", TDir [("function", TDir [("load.json", TFile (Tag ["lib:init"; "ns:stale"]))])])])])].
Definition q_hdr : hdr := mkHdr [] [] (Some q_copy) false.
Definition q_out : output := mkOutput [(["g"], "say g")] [] false "{}".
Definition q_empty : fs := TDir [(".", TDir [])].

Definition q_s1 : fs := run_ops (plan guarded q_cfg q_hdr (Success q_out) None q_empty) q_empty.
Definition q_s2 : fs := run_ops (plan guarded q_cfg q_hdr (Success q_out) None q_s1) q_s1.

Lemma q_build_rebuild :
  exists s1 s2, exec (plan guarded q_cfg q_hdr (Success q_out) None q_empty) q_empty = Some s1 /\
    snd (run guarded q_cfg q_hdr (Success q_out) None q_empty) = RDone /\
    exec (plan guarded q_cfg q_hdr (Success q_out) None s1) s1 = Some s2 /\
    snd (run guarded q_cfg q_hdr (Success q_out) None s1) = RDone /\
    is_dir s1 (ns_dir q_cfg) = true /\
    file_at s1 (load_path q_cfg) = Some (Tag ["lib:init"; "ns:__load__"]) /\
    file_at s2 (load_path q_cfg) = Some (Tag ["lib:init"; "ns:__load__"]).
Proof. exists q_s1, q_s2. repeat split; vm_compute; reflexivity. Qed.
