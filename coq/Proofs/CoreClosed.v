(* Proofs.CoreClosed — from closure of the core-language lowering (Proofs.CoreClosedLoop, Proofs.CoreClosedSwitch:
   abstract commands) to closure of the files DataPack.build() writes (Model.Alloc: text).  Property C07.

   The machine stores text; the statement compilers are modelled on MC.Syntax commands printed by MC.Print.
   The bridge: if every line that reaches a function file is (a line of) the printed form of a command of
   `code` (text_fromb: decidable, and including that the reference scanner of Model.Alloc sees in the
   printed command no reference the command does not make — scan_okb), and every function `code` calls is
   defined in the state handed to build(), then the state satisfies the text part of `disc`, and
   build()'s output is closed (C07_machine_closed). *)
From Coq Require Import String Ascii List Bool Arith ZArith.
From JMCV Require Import Base.Dec MC.Syntax MC.Print Model.Names Model.ResLoc Model.Alloc
     Proofs.ResLoc Proofs.Alloc Proofs.CoreCalls.
From JMCV Require Model.PrivAlloc Model.IfElse Model.Loop Model.Switch Proofs.LoopAlloc
     Proofs.CoreClosedLoop Proofs.CoreClosedSwitch.
Import ListNotations.
Local Open Scope list_scope.

(* the reference scanner finds in the printed command only calls the command makes *)
Definition scan_okb (cm : cmd) : bool :=
  forallb (fun l => forallb (fun r => match r with RFunc f => mem_str f (calls1 cm) | RTag _ => false end)
                            (refs_of_line l))
          (fsplit [pr_cmd cm]).
(* every line is a line of the printed form of a command of `code` that scans faithfully *)
Definition text_fromb (code : list cmd) (lines : list string) : bool :=
  forallb (fun l => existsb (fun cm => scan_okb cm && mem_str l (fsplit [pr_cmd cm])) code) lines.
(* the json part of Model.Alloc.text_disc *)
Definition json_discb (c : cfg) (b : bdata) (st : state) : bool :=
  forallb (fun e : string * (string * bool) =>
             if snd (snd e) then forallb (ref_defined c b st) (json_refs c (jkey_of c (fst e)) (fst (snd e))) else true)
          (jsons st).
(* f is not in an own namespace, or is the name of a function that exists after build() *)
Definition defined (c : cfg) (b : bdata) (st : state) (f : string) : Prop :=
  ref_defined c b st (RFunc f) = true.

Lemma calls_flat_snd (fs : list (string * list cmd)) : calls (flat_map snd fs) = fcalls fs.
Proof.
  induction fs as [|d fs IH]; [reflexivity|]. cbn [flat_map]. rewrite calls_app, IH. reflexivity.
Qed.

Lemma core_lines_disc c b st code lines :
  text_fromb code lines = true ->
  (forall f, In f (calls code) -> defined c b st f) ->
  forallb (fun l => forallb (ref_defined c b st) (refs_of_line l)) lines = true.
Proof.
  intros T D. apply forallb_forall. intros l Hl. apply forallb_forall. intros r Hr.
  unfold text_fromb in T. rewrite forallb_forall in T. specialize (T l Hl).
  apply existsb_exists in T. destruct T as (cm & Hcm & T). apply andb_true_iff in T. destruct T as [S M].
  apply mem_str_In in M. unfold scan_okb in S. rewrite forallb_forall in S. specialize (S l M).
  rewrite forallb_forall in S. specialize (S r Hr). destruct r as [f|t]; [|discriminate].
  apply mem_str_In in S. apply D. apply in_calls. exists cm. split; assumption.
Qed.

(* The bridge to the machine.  What remains hypotheses: the tie text <-> commands (text_fromb, checked by
   correspondence / evaluation), definedness of what `code` calls (discharged for generated calls by the
   closure theorems below), and the configuration hygiene of C07_machine_closed (json_discb, paths_disc, tag_free). *)
Theorem core_machine_closed c b st files code :
  build c b st = inr files ->
  text_fromb code (all_lines c b st) = true ->
  (forall f, In f (calls code) -> defined c b st f) ->
  json_discb c b st = true -> paths_disc c b st = true -> tag_free c st = true ->
  closedb c files = true.
Proof.
  intros HB T D J P TF. apply (build_closed c b st files HB).
  unfold disc, text_disc. rewrite P, TF, (core_lines_disc c b st code _ T D). unfold json_discb in J. rewrite J. reflexivity.
Qed.

(* ---- definedness of generated names ---- *)
Lemma private_defined c b st g n :
  priv_has g n (privs st) -> mem_str (first_seg (c_private c)) (c_overrides c) = false ->
  defined c b st (call_func_loc (c_ns c) (c_private c) g n).
Proof.
  intros (inner & id & Hg & Hn) O. unfold defined, ref_defined. apply orb_true_iff. right.
  apply existsb_exists. exists (ppath c g n). split.
  - unfold future_paths. apply in_or_app. right. apply in_or_app. left.
    apply in_flat_map. exists (g, inner). split; [eapply aget_In; eauto|].
    cbn [fst snd]. apply in_map_iff. exists (n, id). split; [reflexivity|eapply aget_In; eauto].
  - apply String.eqb_eq. unfold fmt. rewrite fmt_plain; [reflexivity|]. rewrite ppath_first_seg. exact O.
Qed.
Lemma user_defined c b st p : amem p (funcs st) = true -> defined c b st (fmt c p).
Proof.
  intros H. unfold defined, ref_defined. apply orb_true_iff. right. apply existsb_exists. exists p. split.
  - unfold future_paths. apply in_or_app. left. destruct (amem_In _ _ H) as [id Hi].
    apply in_map_iff. exists (p, id). split; [reflexivity|exact Hi].
  - apply String.eqb_eq. reflexivity.
Qed.

(* the names of Model.PrivAlloc / Model.Switch are call_func's *)
Lemma priv_fn_loc c g k :
  PrivAlloc.priv_fn (c_nm c) g k = call_func_loc (c_ns c) (c_private c) g (dec_nat k).
Proof. reflexivity. Qed.
Lemma priv_path_loc c g leaf :
  Switch.priv_path (c_nm c) g leaf = call_func_loc (c_ns c) (c_private c) g leaf.
Proof. reflexivity. Qed.
Lemma user_name_fmt c g :
  mem_str (first_seg g) (c_overrides c) = false -> CoreClosedSwitch.user_name (c_nm c) g = fmt c g.
Proof. intros H. unfold fmt. rewrite fmt_plain by exact H. reflexivity. Qed.

Lemma tag_free_private c st : tag_free c st = true -> mem_str (first_seg (c_private c)) (c_overrides c) = false.
Proof.
  unfold tag_free. intros H. apply andb_true_iff in H. destruct H as [_ H]. apply negb_true_iff in H. exact H.
Qed.

(* ---- if / else chains and loops ---- *)
(* A function body `prog` lowered by Model.Loop.compile_body; `extra` = whatever else reaches function files
   (objective set-up lines, other functions).  If the generated functions are stored as the private
   functions they are named after, and what the *source* commands and `extra` call is defined, then build()'s
   output is closed: the generated calls need no hypothesis. *)
Theorem core_loops_machine_closed c b st files prog lines fdefs extra :
  Loop.compile_body (c_nm c) prog = Some (lines, fdefs) ->
  build c b st = inr files ->
  text_fromb (lines ++ flat_map snd fdefs ++ extra) (all_lines c b st) = true ->
  (forall g k, In g LoopAlloc.groups -> In (PrivAlloc.priv_fn (c_nm c) g k) (map fst fdefs) ->
               priv_has g (dec_nat k) (privs st)) ->
  (forall f, In f (calls (CoreClosedLoop.src_stmts prog) ++ calls extra) -> defined c b st f) ->
  json_discb c b st = true -> paths_disc c b st = true -> tag_free c st = true ->
  closedb c files = true.
Proof.
  intros HC HB T HP HS J P TF.
  apply (core_machine_closed c b st files _ HB T); try assumption.
  intros f Hf. rewrite !calls_app, calls_flat_snd in Hf.
  destruct (CoreClosedLoop.core_closed_ifelse_loops _ _ _ _ HC) as (_ & Nm & Cl & _).
  assert (Gen : In f (calls lines ++ fcalls fdefs) -> defined c b st f).
  { intros Hg. destruct (Cl f Hg) as [Hn|Hs].
    - destruct (Nm f Hn) as (g & k & Hgr & ->). rewrite priv_fn_loc.
      apply private_defined; [apply HP; assumption|exact (tag_free_private c st TF)].
    - apply HS. apply in_or_app. left. exact Hs. }
  apply in_app_or in Hf. destruct Hf as [Hf|Hf]; [apply Gen; apply in_or_app; left; exact Hf|].
  apply in_app_or in Hf. destruct Hf as [Hf|Hf]; [apply Gen; apply in_or_app; right; exact Hf|].
  apply HS. apply in_or_app. right. exact Hf.
Qed.

(* ---- switch, both strategies, whole packs ---- *)
(* The functions `fs` of a pack lowered by Model.Switch.compile_functions.  If every emitted function is
   defined in the state (stored as a user function / private function) and every user call `f()` of the
   source names a function of the pack, build()'s output is closed. *)
Theorem core_switch_machine_closed c b st files fuel scfg fl cst fs extra :
  Switch.compile_functions fuel (c_nm c) scfg fl cst = Switch.Ok fs ->
  build c b st = inr files ->
  text_fromb (flat_map snd fs ++ extra) (all_lines c b st) = true ->
  (forall name, In name (map fst fs) -> defined c b st name) ->
  incl (CoreClosedSwitch.ucalls_fl fl) (map fst fl) ->
  (forall f, In f (calls extra) -> defined c b st f) ->
  json_discb c b st = true -> paths_disc c b st = true -> tag_free c st = true ->
  closedb c files = true.
Proof.
  intros HC HB T HN HU HE J P TF.
  apply (core_machine_closed c b st files _ HB T); try assumption.
  intros f Hf. rewrite calls_app, calls_flat_snd in Hf.
  apply in_app_or in Hf. destruct Hf as [Hf|Hf]; [|apply HE; exact Hf].
  apply HN. exact (CoreClosedSwitch.core_closed_switch_defined _ _ _ _ _ _ HC HU f Hf).
Qed.

(* ---- installing generated code into the machine (used by the non-vacuity examples) ---- *)
(* the (group, number) of a generated name, by search *)
Definition find_gk (nm : names) (name : string) : option (string * nat) :=
  find (fun gk : string * nat => String.eqb (PrivAlloc.priv_fn nm (fst gk) (snd gk)) name)
       (list_prod LoopAlloc.groups (seq 0 32)).
Fixpoint install_ops (nm : names) (id : nat) (fdefs : list (string * list cmd)) : list op :=
  match fdefs with
  | [] => []
  | (name, body) :: r =>
    match find_gk nm name with
    | Some (g, k) => ONew id (map pr_cmd body) :: OPSet g (dec_nat k) id :: install_ops nm (S id) r
    | None => install_ops nm (S id) r
    end
  end.
(* a pack whose function `main` is the lowered body and whose private functions are the generated ones *)
Definition loop_pack_ops (nm : names) (main : string) (lines : list cmd) (fdefs : list (string * list cmd)) : list op :=
  ONew 0 [] :: OFSet (load_name nm) 0 :: install_ops nm 2 fdefs ++ [ONew 1 (map pr_cmd lines); OFSet main 1].

(* a generated or user function, by its name: `ns:PRIVATE/<group>/<leaf>` is stored as private function
   (group, leaf), `ns:<path>` as user function <path> *)
Definition install_one (nm : names) (id : nat) (d : string * list cmd) : list op :=
  let pp := (ns nm ++ ":" ++ private_name nm ++ "/")%string in
  if String.prefix pp (fst d) then
    match split_first ch_slash (sdrop (String.length pp) (fst d)) with
    | (g, Some leaf) => [ONew id (map pr_cmd (snd d)); OPSet g leaf id]
    | _ => []
    end
  else [ONew id (map pr_cmd (snd d)); OFSet (sdrop (String.length (ns nm ++ ":")%string) (fst d)) id].
Fixpoint install_all (nm : names) (id : nat) (fs : list (string * list cmd)) : list op :=
  match fs with [] => [] | d :: r => install_one nm id d ++ install_all nm (S id) r end.
Definition switch_pack_ops (nm : names) (fs : list (string * list cmd)) : list op :=
  ONew 0 [] :: OFSet (load_name nm) 0 :: install_all nm 1 fs.

Lemma core_names_defined c b st g n :
  (priv_has g n (privs st) -> mem_str (first_seg (c_private c)) (c_overrides c) = false ->
   defined c b st (call_func_loc (c_ns c) (c_private c) g n)) /\
  (forall k, PrivAlloc.priv_fn (c_nm c) g k = call_func_loc (c_ns c) (c_private c) g (dec_nat k)) /\
  Switch.priv_path (c_nm c) g n = call_func_loc (c_ns c) (c_private c) g n /\
  (forall p, amem p (funcs st) = true -> defined c b st (fmt c p)).
Proof.
  split; [apply private_defined|]. split; [intros k; apply priv_fn_loc|]. split; [apply priv_path_loc|].
  intros p. apply user_defined.
Qed.
