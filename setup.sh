#!/bin/sh
# MANIFEST.setup_cmd: build the whole Coq development from files on disk (full .vo build, no -vos).
set -e
cd "$(dirname "$0")"
sh coq/gen_project.sh
cd coq
coq_makefile -f _CoqProject -o Makefile > /dev/null
timeout 3000 make -j16
