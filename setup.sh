#!/bin/sh
# MANIFEST.setup_cmd: build the whole Coq development from files on disk (full .vo build, no -vos).
# Every check re-builds the targets it needs itself (harness/lib.py: proof_step), so a failure of one
# file here is reported but does not stop the others from being built (-k).
cd "$(dirname "$0")" || exit 2
sh coq/gen_project.sh
cd coq || exit 2
coq_makefile -f _CoqProject -o Makefile > /dev/null || exit 2
timeout 3000 make -k -j16 > .setup.log 2>&1
rc=$?
tail -5 .setup.log
if [ $rc -ne 0 ]; then echo "setup: some Coq files failed to build (see coq/.setup.log); affected checks will report it"; fi
exit 0
